"""C14 - particles are independent; runs are reproducible and time-shift invariant."""
from contracts import model as M
from contracts import release_init as RI
from contracts import roms_forcing as F
from contracts import roms_sample as S
from contracts import state as St
from contracts import timekeeper as K
from contracts import tracker as T

UNITS = [M.ModelUpdate("sparse"), M.ModelUpdate("dense"), M.ModelUpdate(None), T.Update(""), T.Update("RK4"), F.Velocity(), F.ForceParticles(), F.Update("bracket"), S.Trilinear(), St.Compactify(), St.Append("arrays"), K.TKTime2Step()] + [RI.RELEASE_ANY_ORDER]
LEMMAS = []
NATIVE = [dict(name="neighbour independence, repeatability and whole-step time shift on real ROMS Grid/Forcing/Tracker/State/Output", harness="independence_bounded", kind="bounded")]
LEVEL = "proof"
LEVEL_TEXT = ("Non-interference by contracts: every per-particle result of Tracker.update, Forcing.velocity/force_particles and the kernels is proved equal to a specification that is pointwise "
              "in the particle index, and a structural check on the symbolic post-state shows element p reads only element p; State.append/compactify preserve order and identity; "
              "time2step depends on t - start only; no random draw with zero coefficients. The alignment ghost of Model.update proves that the forcing caches (K, A, variables) are computed for exactly the particle sequence the tracker and the IBM then use "
              "(dead particles are removed after the release and before forcing.update; the writer's compactify is then a no-op). Whole-run equalities are bounded.")
LEVEL_NOTE = "end-to-end equality of two runs (subset/permutation of release rows, time shift) is argued from the per-function lemmas and checked by a bounded native sweep"
TECHNIQUE = "contract-based deductive verification (pointwise specifications + structural dependency check + alignment ghost) + bounded two-run comparison"
EXPLANATION = "Per-function non-interference proved; the cross-function alignment obligation proved on Model.update; two-run equalities bounded."
ASSUMPTIONS = ["diffusion off", "modules satisfy their contracts"]


def replay_for(unit, label, model):
    if unit == "Model.update":
        return dict(harness="stale_levels_replay", input={})
    return None
