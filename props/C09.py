"""C09 - particles stay in the water inside the domain; the dead stay dead."""
from contracts import roms_grid as G
from contracts import state as S
from contracts import tracker as T

UNITS = [G.InGrid(), G.AtSea(), G.OnLand(), T.Update(""), T.Update("EF"), T.Update("RK2"), T.Update("RK4"), S.Append("arrays"), S.Append("scalars"), S.Append("broadcast")]
LEMMAS = []
NATIVE = [dict(name="run-time contract of the tracking step on random coastlines (real Tracker, real ROMS Grid)", harness="tracker_step_bounded", kind="bounded"),
          dict(name="encoder validation: the interpreter in concrete mode vs the real numpy/numba functions", harness="validate_encoder", kind="validation", prepare="pyvc.validate:run_validation")]
LEVEL = "proof"
LEVEL_TEXT = ("Deductive proof per particle, for every mask, velocity (uninterpreted, any magnitude), displacement incl. diffusion, and all three schemes: Tracker.update equals the "
              "specified step (kill when the move leaves the valid region, keep position when inactive or moving onto land), the state invariant 'every particle in the valid region "
              "and in a sea cell' is preserved, alive' => alive, inactive particles keep their position, and every nearest-cell lookup is in bounds. A dead particle cannot reappear under its identifier: State.append hands out exactly npid..npid+m-1 and leaves the old prefix untouched (the append units of C05 are units of this check too); absence from later records then follows from C05/C06.")
LEVEL_NOTE = "positions are reals: NaN/inf are outside the model and only covered by the bounded run (finite-position clause); user IBMs may move particles: outside this contract"
TECHNIQUE = "contract-based deductive verification (AST->z3 VCs, per-particle generic index, modular Grid contracts)"
EXPLANATION = "Per-particle proof of the move/kill/cancel logic and of invariant preservation; a bounded native run covers float corner cases."
ASSUMPTIONS = ["release positions are valid and at sea (C04 precondition)", "np.round ties: either direction (over-approximation)"]
