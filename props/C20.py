"""C20 - impossible set-ups are refused before the simulation starts."""
from contracts import model as M
from contracts import roms_forcing as F
from contracts import release_init as RI
from contracts import roms_init as I
from contracts import timekeeper as K

UNITS = [K.TKInit(True), K.TKInit(False)] + list(K.TK_MISSING) + [I.GridInit(True), I.GridInit(False)] + list(I.SCAN_UNITS) + [F.ForcingStepsCoverage(), F.ForcingInit(), M.ModelInit(False), M.ModelInit(True)] + [u for u in RI.RELEASE_INIT_UNITS if "no row" in u.unit_name() or "clean_position" in u.unit_name() or "read_release_file" in u.unit_name()] + [u for u in M.LOADER_UNITS if u.unit_name().startswith("model.load_module")]
LEMMAS = []
NATIVE = [dict(name="every single fault injected into 8 base scenarios (real configure + Model)", harness="refusals_bounded", kind="bounded", timeout=3000)]
LEVEL = "other"
LEVEL_TEXT = ("Exceptional postconditions proved: TimeKeeper.__init__ raises SystemExit exactly when the stop is on the wrong side of start for the chosen direction and always when start, "
              "stop or dt is missing; Grid.__init__ raises SystemExit exactly for an illegal subgrid (after negative-index normalisation); the ordering check of scan_file_times raises "
              "exactly when the concatenated frame times are not strictly increasing (verified as a slice of the function); Model.__init__ constructs the output module last and "
              "makes no output event. NOT proved (bounded fault injection): forcing coverage of the window (forcing_steps), the release refusals (pandas pipeline), configuration "
              "file/section faults, missing files.")
LEVEL_NOTE = "decisive refusal clauses for forcing coverage, release and configuration are fault-injected on 8 base scenarios x 22 faults, not proved; the file-reading prefix of scan_file_times is external I/O"
TECHNIQUE = "contract-based deductive verification of raise conditions (exceptional postconditions) + bounded single-fault injection on the real start-up path"
EXPLANATION = "Raise conditions of the constructors proved; library-backed refusals only fault-injected, hence level 'other'."
ASSUMPTIONS = ["netCDF4/pandas/yaml raise the documented exceptions on missing or malformed files"]
