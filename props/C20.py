"""C20 - impossible set-ups are refused before the simulation starts."""
from contracts import config as CF
from contracts import model as M
from contracts import roms_forcing as F
from contracts import release_init as RI
from contracts import roms_init as I
from contracts import roms_steps as RS
from contracts import timekeeper as K

UNITS = [K.TKInit(True), K.TKInit(False)] + list(K.TK_MISSING) + [I.GridInit(True), I.GridInit(False)] + list(I.SCAN_UNITS) + list(I.SCAN_READ_UNITS) + list(RS.STEP_TABLE_UNITS) + [F.ForcingStepsCoverage(), F.ForcingInit(), M.ModelInit(False), M.ModelInit(True)] + [u for u in RI.RELEASE_INIT_UNITS if "no row" in u.unit_name() or "clean_position" in u.unit_name() or "read_release_file" in u.unit_name()] + [u for u in M.LOADER_UNITS if u.unit_name().startswith("model.load_module")] + [u for u in CF.v2_units() if u.missing] + list(CF.CONFIGURE_UNITS) + list(I.GRID_MISSING_UNITS) + [F.ForcingInitNoFiles()]
LEMMAS = []
NATIVE = [dict(name="every single fault injected into 8 base scenarios (real configure + Model)", harness="refusals_bounded", kind="bounded", timeout=3000)]
LEVEL = "proof"
LEVEL_TEXT = ("Exceptional postconditions proved: TimeKeeper.__init__ raises SystemExit exactly when the stop is on the wrong side of start for the chosen direction and always when start, "
              "stop or dt is missing; Grid.__init__ raises SystemExit exactly for an illegal subgrid (after negative-index normalisation); the ordering check of scan_file_times raises "
              "exactly when the concatenated frame times are not strictly increasing (verified as a slice of the function); Model.__init__ constructs the output module last and "
              "makes no output event. The coverage check of forcing_steps (slice), the release constructor's refusal when no row lies in the window, clean_position's refusal of rows without "
              "position, read_release_file's SystemExit for unreadable files, load_module's refusal of an unknown module and configure_v2's KeyError for each missing mandatory section "
              "are proved as well; configure() turns a missing or unparsable file, an unknown version and that KeyError into SystemExit(3); a grid file that cannot be opened and a forcing "
              "pattern without a match stop the constructors; scan_file_times is proved to read every file in order, every frame of it, for ANY number of files (induction over the file loop) and as a whole function for fixed file/frame-count shapes, forcing_steps to build the step tables. "
              "NOT proved (bounded fault injection): the file-reading loop for an arbitrary number of files, the refusal of a continuous release without any tick in the window, "
              "the real pandas/netCDF4/yaml behaviour behind the assumed contracts.")
LEVEL_NOTE = "every fault kind the property lists has a proved exceptional postcondition on the function that refuses it (library calls under assumed contracts); bounded only: scan loop beyond the fixed shapes, continuous-release refusal, real library behaviour (25 single faults x 8 base scenarios injected on the real start-up path)"
TECHNIQUE = "contract-based deductive verification of raise conditions (exceptional postconditions) + bounded single-fault injection on the real start-up path"
EXPLANATION = "Raise conditions proved function by function for every listed fault kind; the real start-up path is fault-injected in addition."
ASSUMPTIONS = ["netCDF4/pandas/yaml raise the documented exceptions on missing or malformed files"]
