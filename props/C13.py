"""C13 - clock arithmetic: steps/times convert consistently; period spellings agree."""
from contracts import timefmt as TF
from contracts import timekeeper as K
from pyvc import modelutil as mu

UNITS = list(K.TK_UNITS) + list(K.TK_ISO) + list(TF.TIMEFMT_UNITS)
LEMMAS = []
NATIVE = [
    dict(name="clock clauses on a time lattice + every period spelling incl. ISO-8601 strings and malformed ones", harness="timekeeper_bounded", kind="bounded",
         bound="quick: 5x5 start/stop lattice x 5 dt x 3 reference choices; H/M/S in {absent,0,1,59,60,100,1000,86400}; thorough: 12x12 lattice x 9 dt, 14 values"),
    dict(name="encoder validation: the interpreter in concrete mode vs the real numpy/numba functions", harness="validate_encoder", kind="validation", prepare="pyvc.validate:run_validation")]
LEVEL = "proof"
LEVEL_TEXT = ("Deductive proof over all integer instants/durations (seconds) and both directions: __init__ attributes, clock invariant time == start +/- step*dt "
              "under update, Nsteps == floor(|stop-start|/dt), direction check raises SystemExit exactly on mismatch, step2time/time2step spec functions and their "
              "mutual inverse on step boundaries (all integers n incl. negative), step2nctime/nctime == offset from the reference time in s/m/h, "
              "int/timedelta/[value, unit] period spellings; the ISO-8601 branch of normalize_period over a model of the regular-expression groups (PTxHyMzS == 3600x + 60y + z, "
              "nothing present or no match: ValueError); cf_units, step2isotime and duration2iso over structured strings (literal text + numeric fields). The real re/str/numpy "
              "formatting behind those models is exercised by the bounded run-time contract.")
LEVEL_NOTE = "datetime64[s]/timedelta64[s] are mathematical integers (no overflow, no NaT); re.match groups, str(datetime64) and integer formatting under assumed contracts (structured-string model), exercised by the bounded sweep"
TECHNIQUE = "contract-based deductive verification (AST->z3 VCs over integer time, regex-group and structured-string models for the string-valued functions) + bounded exhaustive run-time contract"
EXPLANATION = "Clock arithmetic, period spellings and the string-valued clock functions proved over mathematical integers / structured strings for both directions."
ASSUMPTIONS = ["instants and durations are mathematical integers (seconds)", "np.datetime64(x,'s') / np.timedelta64(x,'s') are the identity on such values"]


def replay_for(unit, label, model):
    g = lambda k, d=0: int(mu.scalar(model, k, d))  # noqa: E731
    if unit.startswith("TimeKeeper.__init__"):
        return dict(harness="timekeeper_init_replay", input=dict(start=g("start"), stop=g("stop"), dt=max(1, g("dt", 1)), rev=bool(model.get("time_reversal", False)), ref=g("reference") if "given" in unit else None))
    if unit.startswith("TimeKeeper."):
        start, stop, dt = g("tk_start"), g("tk_stop"), max(1, g("tk_dt", 1))
        rev = stop < start
        n = g("n", 0)
        st = max(0, g("tk_step", 0))
        if start == stop:
            stop = start + (-(dt) if rev else dt) * 3
        return dict(harness="timekeeper_replay", input=dict(start=start, stop=stop, dt=dt, rev=rev, ref=g("tk_ref"), nsteps=min(st + 2, 6), steps=sorted({n, -1, 0, 1})))
    return None
