"""C06 - output records are faithful snapshots in a well-formed ragged or dense file."""
from contracts import output as O
from contracts import output_create as OC
from contracts import timekeeper as K

UNITS = [O.Write("sparse"), O.Write("dense"), O.Write("sparse", lonlat=True), O.WritePV("sparse"), O.WritePV("sparse", time_typed=True), K.TKNcTime("s"), K.TKStep2NcTime("s")] + list(OC.CREATE_UNITS)
LEMMAS = []
NATIVE = [dict(name="whole runs on real Output/State/TimeKeeper read back with the documented retrieval rule", harness="output_runs_bounded", kind="bounded", timeout=3000)]
LEVEL = "proof"
LEVEL_TEXT = ("Deductive proof against a ghost model of the NetCDF file (content function + extent per variable): Output.write stores time[r] == model time - reference time, "
              "particle_count[r] == number alive, and for every instance variable file.v[start+k] == (compactified state).v[k] with start == sum of earlier counts (cursor invariant: "
              "instance cursor == extent of every instance variable, record cursor == extent of time/particle_count), nothing before start changes; the dense layout stores "
              "file.v[r, pid] == state.v[pid] exactly at the alive positions; write_particle_variables stores file.pv[pid] == state.pv[pid] for every pid in [0, npid). "
              "Whole files are read back with the documented rule in a bounded native sweep.")
LEVEL_NOTE = ("netCDF4 slice/element/row assignment contract ASSUMED (stated in contracts/output.py); create_netcdf (dimensions, fill values, units strings), time-typed particle variables "
              "and lon/lat are covered by the bounded sweep only; f4 storage precision not modelled")
TECHNIQUE = "contract-based deductive verification (ghost file content, cursor invariant, frame conditions) + bounded whole-run read-back"
EXPLANATION = "Record contents and cursors proved against a ghost file model; file-format details bounded."
ASSUMPTIONS = ["netCDF4 variable assignment semantics as stated", "state well-formed (C05)"]
