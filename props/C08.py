"""C08 - restart transparency: a warm start continues as if the run never stopped."""
from contracts import filenames as F
from contracts import model as M
from contracts import release_cont as RC
from contracts import output as O
from contracts import timekeeper as K
from contracts import warm as W

UNITS = [W.WarmStart(), W.WarmStart(with_pdim=False), M.ModelInit(True), M.ModelInit(False), O.OutputInitRecords(True), O.OutputUpdate(), O.WritePV("sparse"), K.TKStep2Time(), RC.Discretize()] + F.FILENAME_UNITS
LEMMAS = [M.MainLoopStructure(), M.RecordSchedule()]
NATIVE = [dict(name="cold split run vs restart from every completed file (real Model, configure_v2, warm_start)", harness="restart_bounded", kind="bounded", timeout=3000)]
LEVEL = "other"
LEVEL_TEXT = ("Simulation lemmas proved per function: warm_start decodes the last record written by Output into the same instance sequence and sets npid to the number of particles "
              "released (so pids are never reused after a restart); Model.__init__ on a warm start loads the state, sets the clock to step 0 and runs release, forcing, tracker, ibm once "
              "each WITHOUT an output event; main's loop ends at step Nsteps-1 also after that catch-up; Output counts and skips the initial record consistently; particle variables are "
              "written for every released particle into every file. The composition (equal state at the restart time => equal later records, Model.update being a deterministic function "
              "of it by C14/C19) is argued, and every file boundary of a family of scenarios is compared natively (bounded).")
LEVEL_NOTE = ("two-run equality itself is bounded; configure_v2's warm-start block and the release module's warm branch only via the bounded sweep; without particle variables in the output "
              "the number of released particles is not recoverable from the file (max(pid)+1 fallback); 'active' flags are not stored in the output and default to True")
TECHNIQUE = "contract-based deductive verification of the restart lemmas (decode-after-encode on the ghost file, catch-up trace, loop bound) + bounded two-run comparison"
EXPLANATION = "Per-function restart lemmas proved; the relational end-to-end statement rests on a bounded sweep, hence level 'other'."
ASSUMPTIONS = ["diffusion off", "restart file written with particle variables", "netCDF4 read contract"]
