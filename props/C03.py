"""C03 - forcing in time: linear between bracketing frames for any frame/file layout."""
from contracts import roms_forcing as F
from contracts import timekeeper as K

from contracts import roms_init as I
from contracts import roms_steps as RS

UNITS = [F.ForcingInit(), F.Update("bracket"), F.Update("start"), F.Velocity(), K.TKTime2Step(), F.ForcingStepsCoverage()] + list(I.FORCING_IO_UNITS) + list(I.SCAN_UNITS) + list(I.SCAN_READ_UNITS) + list(RS.STEP_TABLE_UNITS)
LEMMAS = []
NATIVE = [dict(name="frame layouts x file partitions x start offsets x direction on real Grid/TimeKeeper/Forcing", harness="forcing_layouts_bounded", kind="bounded")]
LEVEL = "proof"
LEVEL_TEXT = ("Class-invariant proof for Forcing.update over all histories: with s_b <= step < s_{b+1} the fields satisfy u == lerp(frame_b, frame_{b+1}, step), u_new == frame_{b+1}, "
              "dU == slope_b, scalar field == frame_b; the invariant is preserved on the frame-step and ordinary-step paths for every spacing >= 1 (sorted symbolic step list of any length), "
              "and velocity(frac) samples u + frac*dU, i.e. the interpolation at step + frac. __init__'s pre-roll, the file bookkeeping and forcing_steps are covered by the bounded layout sweep.")
LEVEL_NOTE = ("frames are an uninterpreted function of their step; _read_velocity/_read_field are used through their contract (returns the frame of the requested step); "
              "the file loop of scan_file_times is proved by induction over the files (frame list == concatenation, frame counts per file); end-to-end composition over real files: bounded (160 layouts quick); netCDF4 assumed")
TECHNIQUE = "contract-based deductive verification (class invariant over a symbolic sorted step sequence, ghost bracket index, hand-instantiated quantifiers) + bounded layout sweep"
EXPLANATION = "Invariant of the frame hand-over proved for all spacings; pre-roll and file selection bounded."
ASSUMPTIONS = ["frames lie on the model time grid, spacing >= 1 step (the property's quantifier)", "the run ends before the last forcing frame (checked at start-up by forcing_steps)"]


def replay_for(unit, label, model):
    # the invariant's counter-models are histories "frame at the current step": replay the canonical layouts natively
    return dict(harness="forcing_replay", input=dict(frames_h=[0, 1, 2, 3, 4], files=[5], start_h=0, stop_h=4))
