"""C11 - random-walk diffusion has the configured variance and no bias."""
from contracts import tracker as T

UNITS = [T.Diffuse(), T.DiffuseVert(), T.Update("")] + list(T.TRACKER_INIT_UNITS[:1]) + list(T.TRACKER_INIT_UNITS[3:4]) + [T.HISTORY_UNITS[0], T.HISTORY_UNITS[2], T.HISTORY_UNITS[3]]
LEMMAS = []
NATIVE = [dict(name="sample moments of the real tracker's random walk", harness="diffusion_moments", kind="bounded")]
LEVEL = "proof"
LEVEL_TEXT = ("Deductive proof of the algebra from numpy's N(0,1) draws to displacements: diffuse makes exactly two draws and diffuse_vert one (ghost draw counter), "
              "U = c*xi_a, V = c*xi_b with c >= 0 and c^2 == 2D/dt; in Tracker.update (still water) X'-X == c_x*xi_a[p], Y'-Y == c_y*xi_b[p] with c_x^2*dx^2 == 2*D*dt, "
              "homogeneous linear and pointwise in p; the depth increment is sqrt(2 Dz/dt)*xi_c*dt; no draw is made when D == Dz == 0. The distribution itself (mean 0, variance 2Dt) "
              "then follows from linearity of variance for independent draws: argued, with sample moments checked by a bounded native run.")
LEVEL_NOTE = "Generator.normal assumed i.i.d. N(0,1) and independent across calls; the distributional statement is not a program property and is only sampled"
TECHNIQUE = "contract-based deductive verification (nonlinear real VCs, sqrt as axiomatised UF, ghost draw counter)"
EXPLANATION = "Variance algebra proved; distribution assumed for numpy and sampled natively."
ASSUMPTIONS = ["numpy.random.Generator.normal returns independent standard normal vectors", "linearity of variance (textbook)"]
