"""C15 - depth stays within the water column."""
from contracts import roms_grid as G
from contracts import tracker as T

UNITS = [G.Depth(), T.DiffuseVert(), T.Update(""), T.Update("RK4")] + list(T.TRACKER_INIT_UNITS[2:4]) + [T.HISTORY_UNITS[0]]
LEMMAS = []
NATIVE = [dict(name="run-time contract of the tracking step on random coastlines (real Tracker, real ROMS Grid)", harness="tracker_step_bounded", kind="bounded"),
          dict(name="histories of tracking steps (consecutive updates, same-count replacement, release) on a grid with cell-wise metric and depth: every update equals the scheme applied to the state before it", harness="tracker_history_bounded", kind="bounded")]
LEVEL = "proof"
LEVEL_TEXT = ("Deductive proof per particle over reals: with a vertical switch on, Z' is the surface/bottom reflection of Z + (Wdiff + w)*dt with h the depth of the start cell, "
              "and 0 <= Z' <= h whenever 0 <= Z <= h and |displacement| < h; with both switches off the depth values are unchanged. Grid.depth is the start cell's H, index in bounds.")
LEVEL_NOTE = "reals for floats; force.variables['w'] aligned with the state (C14 precondition)"
TECHNIQUE = "contract-based deductive verification (AST->z3 VCs; linear real arithmetic on the reflection paths)"
EXPLANATION = "Reflection algebra proved on all 8 switch paths of Tracker.update."
ASSUMPTIONS = ["0 <= Z <= h at the start of the step and |vertical displacement| < h (the property's own quantifier)"]
