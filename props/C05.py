"""C05 - particle identity: pids dense, ordered, never reused, following the particle."""
from contracts import state as S
from contracts import tracker as T
from contracts import warm as W

UNITS = list(S.STATE_UNITS) + [T.Update("EF"), W.WarmStart(), W.WarmStart(with_pdim=False)]
LEMMAS = []
NATIVE = [dict(name="all interleavings of State operations up to a bounded length + random longer histories (real State)", harness="state_histories_bounded", kind="bounded")]
LEVEL = "proof"
LEVEL_TEXT = ("Class-invariant proof over all histories: State.__init__ establishes and append (scalar/array/broadcast/default paths), compactify and item assignment preserve "
              "'all instance arrays equally long, pid strictly increasing, k <= pid[k] < npid, particle variables of length npid indexed by pid'; append hands out exactly "
              "npid..npid+m-1 and leaves the old prefix untouched (whole-view postcondition), compactify yields old o g for the increasing enumeration g of the alive positions "
              "(exactly the dead dropped, order kept, particle variables and npid untouched), Tracker.update leaves pid untouched; warm_start (the other way a State is filled) makes the state exactly the last record of the restart file, all instance arrays with that record's length (also for an empty last record), and sets npid above every pid on file. Output records inherit pid[k] >= k and strict order (C06).")
LEVEL_NOTE = ("boolean-mask indexing A[mask] is ASSUMED to enumerate the true positions in increasing order (ghost g); one generic extra instance and one particle variable stand for all; "
              "pid monotonicity over arbitrary index pairs is used as the (inductive) consequence of the adjacent form; user IBMs must keep array lengths (item assignment precondition)")
TECHNIQUE = "contract-based deductive verification (class invariant, whole-view postconditions, ghost enumeration for mask indexing)"
EXPLANATION = "State invariant proved for all histories; bounded exhaustive interleavings natively."
ASSUMPTIONS = ["numpy boolean-mask indexing contract", "np.concatenate / np.broadcast_to / np.arange contracts"]
