"""C02 - particles feel the interpolated C-grid forcing at their own position."""
from contracts import lemmas as L
from contracts import roms_forcing as F
from contracts import roms_init as I
from contracts import roms_sample as S

UNITS = [S.Trilinear(), S.Z2sKernelSorted(), S.Z2s(), S.Sample3DNearest(), S.Sample3DBilinear(), S.Sample3DUV(), F.Velocity(), F.ForceParticles(), F.Update("bracket"), F.Update("start"),
         I.GridInit(True), I.GridInit(False)] + list(I.FORCING_IO_UNITS)
LEMMAS = [L.LerpBound(), L.NestedLerpIdentity(), L.SubgridIndependence()]
NATIVE = [dict(name="exactness on linear fields, subgrid independence, packed vs float storage, land faces (real Grid + Forcing)", harness="sampling_bounded", kind="bounded"), 
          dict(name="encoder validation: the interpreter in concrete mode vs the real numpy/numba functions", harness="validate_encoder", kind="validation", prepare="pyvc.validate:run_validation")]
LEVEL = "proof"
LEVEL_TEXT = ("Deductive proof for all positions, depths, masks, subgrids and both storage kinds: trilinear equals the specified interpolation (bilinear between the four surrounding "
              "nodes, linear between levels K-1 and K), is a convex combination of the eight node values (nested lerp-bound lemma) and exact on fields linear in x, y on the levels; "
              "z2s returns the bracketing level and weight of the particle's own column (held constant outside the level range); sample3DUV samples U at x+1/2 and V at y+1/2; "
              "sample3D(nearest) returns the own cell at level K; Forcing.velocity/force_particles compose these on u + frac*dU with the sign of the time direction; _read_velocity returns "
              "scale*raw*face-mask of the global u-/v-points of the loaded rectangle, read from the file holding the frame; Grid.__init__ builds the face masks (zero when either "
              "neighbour is land) and the staggered slices; the index/fraction of the staggered bracketing is independent of the subgrid offset (lemma).")
LEVEL_NOTE = ("netCDF4 slicing and np.searchsorted/np.around contracts assumed; add_offset == 0 assumed for velocity as the code states; float32 storage/packing precision not modelled (bounded run "
              "compares at 2e-4); at exact half-integer coordinates the rounding direction (own cell) is left open by the encoding")
TECHNIQUE = "contract-based deductive verification (AST->z3 VCs, nonlinear reals with lemma hints, ghost netCDF files) + bounded end-to-end sampling run"
EXPLANATION = "Every function between the forcing file and the particle velocity is under contract; end-to-end clause additionally sampled."
ASSUMPTIONS = ["columns of z_rho sorted (postcondition of sdepth, C12)", "N >= 2 levels"]
