"""C16 - longitude/latitude and grid coordinates are mutually consistent."""
from contracts import lemmas as L
from contracts import sample as S

from contracts import output as O
from contracts import release_init as RI

UNITS = list(S.SAMPLE2D_UNITS) + [O.Write("sparse", lonlat=True)] + [u for u in RI.RELEASE_INIT_UNITS if "clean_position" in u.unit_name()]
LEMMAS = [L.LerpBound(), L.MaskedIgnored(), L.MaskedTerm()]
NATIVE = [dict(name="lon/lat round trip on synthetic conformal grids and subgrids; sample2D corpus", harness="lonlat_bounded", kind="bounded"),
          dict(name="whole output runs with lon/lat requested (both layouts, split files) read back against xy2ll of the record's positions", harness="output_runs_bounded", kind="bounded", timeout=3000),
          dict(name="encoder validation: the interpreter in concrete mode vs the real numpy/numba functions", harness="validate_encoder", kind="validation", prepare="pyvc.validate:run_validation")]
LEVEL = "other"
LEVEL_TEXT = ("Proved for all inputs: sample2D equals the specified bilinear sample (weights renormalised over unmasked corners, undef_value when all four are masked), is a convex "
              "combination of the corners, exact on bilinear fields, ignores masked nodes (lemma over the specification), returns the substitute value outside the grid for every real "
              "value incl. 0.0 and raises ValueError only without one; Grid.xy2ll is that sample of lon/lat at the local position; Grid.ll2xy applies bilin_inv with the (row, column) "
              "axis convention and shifts to global coordinates. NOT proved (bounded): convergence of bilin_inv's Newton iteration, hence the round trip itself; release by lon/lat and "
              "the lon/lat columns of the output are covered by the bounded sweeps of C04/C06.")
LEVEL_NOTE = "the round-trip clause (Newton convergence in 7 iterations on conformal grids) is numerical analysis and only checked on synthetic polar-stereographic grids to 1e-3 cells; reals for floats"
TECHNIQUE = "contract-based deductive verification (nonlinear real VCs with lemma hints) for sample2D/xy2ll/ll2xy; bounded run-time contract for the Newton inverse"
EXPLANATION = "sample2D and the coordinate wrappers proved; the decisive round-trip clause rests on a bounded stand-in, so the level is 'other'."
ASSUMPTIONS = ["F at least 2x2", "mask is 0/1"]


def replay_for(unit, label, model):
    if unit.startswith("sample.sample2D"):
        return dict(harness="sample2d_replay", input=dict(outside_value=0.0))
    return None
