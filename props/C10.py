"""C10 - backward tracking = forward tracking in the time-mirrored, sign-flipped flow."""
from contracts import lemmas as L
from contracts import output as O
from contracts import release as R
from contracts import release_cont as RC
from contracts import release_init as RI
from contracts import roms_forcing as F
from contracts import timekeeper as K

UNITS = [K.TKInit(True), K.TKInit(False), K.TKUpdate(), K.TKStep2Time(), K.TKTime2Step(), K.TKStep2NcTime("s"), K.TKNcTime("s"),
         F.ForcingInit(), F.Velocity(), F.ForceParticles(), F.Update("bracket"), O.OutputInitRecords(False), O.OutputUpdate(), R.ReleaseUpdate(), RI.ReleaserInit(True), RI.RELEASE_ANY_ORDER, RC.Discretize(), RC.ReleaserInitContinuous(True)]
LEMMAS = [L.MirrorClock(), L.NoDirectionDependence()]
NATIVE = [dict(name="reversed run vs forward run over the mirrored time axis in the sign-flipped flow (real Model)", harness="mirror_bounded", kind="bounded")]
LEVEL = "proof"
LEVEL_TEXT = ("Mirror lemmas proved per function for both directions: the clock reads start - n*dt when reversed (invariant under update), step2time/time2step/step2nctime/nctime are the "
              "mirror images of the forward conversions, Forcing.velocity and force_particles flip the sign exactly when time is reversed (also for fractional steps) while the "
              "frame bracket/interpolation invariant is direction independent (sorted steps), Output stores a negative period and the same record count, the releaser consumes groups in "
              "step order; tracker, state and sampling code contain no reference to the direction. The record-for-record equality of the two runs is the composition of these lemmas (argued) "
              "and is checked by a bounded native sweep.")
LEVEL_NOTE = "the induction over steps composing the mirror lemmas into equality of two whole runs is written out in DESIGN.md, not mechanised; whole-run equality: bounded"
TECHNIQUE = "contract-based deductive verification (per-function mirror lemmas, both directions as symbolic Boolean) + bounded two-run comparison"
EXPLANATION = "Direction-dependent functions proved against mirrored specifications; whole-run equality bounded."
ASSUMPTIONS = ["frames and release times on the model time grid"]
