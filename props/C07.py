"""C07 - every scheduled output time is written for any duration, period, file split."""
from contracts import filenames as F
from contracts import closing as CL
from contracts import model as M
from contracts import output as O
from contracts import output_create as OC
from contracts import timekeeper as K

UNITS = [O.OutputInitRecords(True), O.OutputInitRecords(False), O.OutputUpdate(), O.Write("sparse"), O.Write("dense"), O.WritePV("sparse"), M.ModelUpdate("sparse"), M.ModelUpdate("dense"), M.ModelUpdate(None), M.ModelFinish({}), K.TKInit(False)] + F.FILENAME_UNITS + list(OC.CREATE_UNITS) + list(CL.CLOSE_UNITS)
LEMMAS = [M.MainLoopStructure(), M.RecordSchedule()]
NATIVE = [dict(name="whole runs on real Output/State/TimeKeeper read back with the documented retrieval rule", harness="output_runs_bounded", kind="bounded", timeout=3000)]
LEVEL = "proof"
LEVEL_TEXT = ("Deductive proof for all (Nsteps, period, numrec): Output.__init__ computes period_steps == period/dt and num_records == ceil(Nsteps/period_steps) (forward and reversed); "
              "Output.update writes iff step % period_steps == 0; write advances the cursors, closes a file exactly when it holds local_num_records == min(numrec, remaining) records "
              "(writing the particle variables into every file first) and opens the next one iff records remain; main runs Model.update exactly Nsteps times then finish; the arithmetic lemma "
              "shows the due records are exactly the first num_records multiples of the period, so the last record closes the last file. filename_generator is verified by induction over its endless loop (k-th name == <stem>_<first number + k, zero padded><suffix>, structured-string model); file readability and whole runs are bounded stand-ins.")
LEVEL_NOTE = "period a positive multiple of dt and duration a whole number of steps (the property's valid combinations); filename_generator proved over a structured-string model (re.search / str.format / pathlib contracts assumed, no braces in the file name); file readability: bounded only"
TECHNIQUE = "contract-based deductive verification (cursor invariant, arithmetic lemmas, structural loop rule) + bounded whole-run sweep"
EXPLANATION = "Record arithmetic, roll-over and file numbering proved; readability of the files bounded."
ASSUMPTIONS = ["netCDF4 assignment/close semantics", "re.search(_(\\d+)$) / str.format({:0<w>d}) / pathlib stem, suffix, parent contracts; file stem and suffix contain no braces", "period multiple of dt; duration multiple of dt"]


def replay_for(unit, label, model):
    from pyvc import modelutil as mu

    if unit.startswith("Output.__init__"):
        return dict(harness="output_replay", input=dict(nsteps=max(1, int(mu.scalar(model, "nsteps_given", 3))), ops=max(1, int(mu.scalar(model, "ops_given", 2))), numrec=0, rev=bool(model.get("tk_rev", False))))
    return None
