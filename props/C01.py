"""C01 - advection integrates the velocity field with the scheme's order of accuracy."""
import z3

from contracts import analytical as A
from contracts import lemmas as L
from contracts import roms_grid as G
from contracts import tracker as T
from pyvc import modelutil as mu

UNITS = [
    T.RKstep(), T.Clip(), T.RK4avg(), T.EF(), T.RK2(), T.RK4(), G.Metric(),
    T.Update("EF"), T.Update("RK2"), T.Update("RK4"),
    A.GetVelocity1(), A.GetVelocity2(), A.GetVelocity4(),
] + list(T.TRACKER_INIT_UNITS) + [T.HISTORY_UNITS[1]]
_s = z3.Real("s")
LEMMAS = [
    L.ButcherOrder("EF", T.TABLEAUX["EF"]),
    L.ButcherOrder("RK2 (midpoint, as Tracker.RK2 is specified)", T.TABLEAUX["RK2-midpoint"]),
    L.ButcherOrder("RK4 (classical)", T.TABLEAUX["RK4"]),
    L.ButcherOrder("get_velocity2 family, all s != 0", dict(A=[[], [_s]], b=[1 - 1 / (2 * _s), 1 / (2 * _s)], c=[0, _s], order=2), hyps=[_s != 0]),
    L.ClipIdentityInside(),
]
NATIVE = [
    dict(name="histories of tracking steps (consecutive updates, same-count replacement, release) on a grid with cell-wise metric and depth: every update equals the scheme applied to the state before it", harness="tracker_history_bounded", kind="bounded"),
    dict(name="observed convergence order of the real schemes and analytic helpers", harness="scheme_order", kind="bounded",
         bound="8/16/32 steps over 4 h, time-dependent rotation; EF/RK2/RK4 + get_velocity1/2(s=1,1/2,2/3)/4"),
    dict(name="encoder validation: the interpreter in concrete mode vs the real numpy/numba functions", harness="validate_encoder", kind="validation", prepare="pyvc.validate:run_validation")]
EXPLANATION = (
    "Each scheme is proved equal to its explicit Runge-Kutta tableau applied to an uninterpreted velocity field "
    "(stage positions, clipping, fractional stage times), the tableau is proved to satisfy the order conditions, and "
    "Tracker.update is proved to displace by U*dt/dx with the start cell's metric. The limit statement (global order p) "
    "follows from the cited Runge-Kutta convergence theorem and is additionally observed by a bounded native run."
)
ASSUMPTIONS = [
    "Runge-Kutta convergence theorem (order conditions up to p + smooth field => global order p) is cited, not mechanised",
    "the metric is frozen over the stages of one step (as the code does)",
    "forcing.velocity is an uninterpreted function of (x, y, z, fractional step); C02/C03 say what it equals",
]


def replay_for(unit, label, model):
    n = max(1, int(mu.scalar(model, "n", 1)))
    if unit == "tracker.RKstep":
        return dict(harness="rkstep", input=dict(
            X=mu.array1(model, "X", n), Y=mu.array1(model, "Y", n), U=mu.array1(model, "U", n), V=mu.array1(model, "V", n),
            dtdx=mu.array1(model, "dtdx", n, 1.0), dtdy=mu.array1(model, "dtdy", n, 1.0), frac=mu.scalar(model, "frac", 1.0)))
    if unit == "tracker.clip":
        return dict(harness="clip", input=dict(X=mu.array1(model, "X", n), Y=mu.array1(model, "Y", n), xmin=mu.scalar(model, "xmin"), xmax=mu.scalar(model, "xmax"), ymin=mu.scalar(model, "ymin"), ymax=mu.scalar(model, "ymax")))
    if unit in ("Tracker.EF", "Tracker.RK2", "Tracker.RK4"):
        i0, j0 = mu.scalar(model, "i0", 1), mu.scalar(model, "j0", 1)
        imax, jmax = mu.scalar(model, "imax", 5), mu.scalar(model, "jmax", 5)
        what = "domain" if "forcing.velocity" in label else "frame" if "unchanged" in label else "result"
        return dict(harness="scheme", input=dict(
            scheme=unit.split(".")[1], what=what, dt=mu.scalar(model, "dt", 1.0),
            X=mu.array1(model, "X", n), Y=mu.array1(model, "Y", n), Z=mu.array1(model, "Z", n),
            dx=mu.array1(model, "dx", n, 1.0), dy=mu.array1(model, "dy", n, 1.0),
            xmin=i0 + 0.01, xmax=i0 + imax - 1.01, ymin=j0 + 0.01, ymax=j0 + jmax - 1.01,
            velU=mu.table(model, "velU"), velV=mu.table(model, "velV")))
    if unit == "Grid.metric":
        return dict(harness="grid_metric", input=dict(model=model))
    return None

LEVEL = "proof"
LEVEL_TEXT = ("Deductive proof, for all inputs, that RKstep/clip/RK4avg compute their spec functions, that Tracker.EF/RK2/RK4 equal the "
              "explicit Runge-Kutta tableau (EF, midpoint, classical RK4) applied to an uninterpreted velocity field with the scheme's stage "
              "positions and fractional times, that the tableaux satisfy the order conditions (and the analytic helpers' family for all s != 0), "
              "and that Tracker.update displaces by U*dt/dx, V*dt/dy with the start cell's metric. The limit statement is a cited theorem plus a bounded convergence run.")
LEVEL_NOTE = ("Trusted: pyvc encoder (floats as reals), z3, numba==source. Assumed: Runge-Kutta convergence theorem; forcing.velocity uninterpreted; "
              "metric frozen within a step. Bounded only: observed convergence orders (8/16/32 steps).")
TECHNIQUE = "contract-based deductive verification (AST->z3 VCs, modular contracts, UF velocity, Butcher order-condition lemmas)"
