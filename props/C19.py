"""C19 - step protocol: release, forcing, output, move, IBM; once per step in that order."""
from contracts import closing as CL
from contracts import model as M
from contracts import output as O

UNITS = [M.ModelUpdate("sparse"), M.ModelUpdate("dense"), M.ModelUpdate(None), M.ModelFinish({}), M.ModelFinish(dict(grid=True, release=True, tracker=True)), M.ModelFinish(dict(forcing=False, ibm=False, output=False)), O.OutputUpdate(), M.ModelInit(True), M.ModelInit(False)] + list(M.LOADER_UNITS) + list(CL.CLOSE_UNITS)
LEMMAS = [M.MainLoopStructure()]
NATIVE = [dict(name="step protocol observed on the real Model with recording plug-ins (module path vs name, cold/warm start)", harness="protocol_bounded", kind="bounded")]
LEVEL = "proof"
LEVEL_TEXT = ("Deductive proof with a ghost event trace: Model.update calls time, release, forcing, [output iff step >= 0], tracker, ibm exactly once each in this order (modules seen "
              "through their base-class contract), Model.finish calls close once on every module that has one, and main runs update exactly Nsteps times before finish. "
              "What a record shows (positions and forcing variables of the same time; IBM kills visible from the next record) follows from this order and the contracts of C05/C06. "
              "Plug-in loading (path takes precedence) and the warm-start catch-up are bounded stand-ins on the real Model.")
LEVEL_NOTE = "user plug-ins are assumed to respect the base-class contract (update/close only append their own effect); importlib/pathlib behaviour of load_module: bounded only"
TECHNIQUE = "contract-based deductive verification (ghost call trace, modular module contracts, structural loop rule) + bounded plug-in runs"
EXPLANATION = "Call order proved on the real Model.update/finish/main; module loading bounded."
ASSUMPTIONS = ["modules satisfy their base-class contracts"]
