"""C04 - release accounting: each scheduled row yields exactly mult particles on time."""
from contracts import release as R
from contracts import state as S
from contracts import timekeeper as K

from contracts import release_init as RI

UNITS = list(R.RELEASE_UNITS) + list(RI.RELEASE_INIT_UNITS) + [S.Append("arrays"), S.Append("broadcast"), K.TKTime2Step()]
LEMMAS = []
NATIVE = [dict(name="release tables x windows x discrete/continuous x forward/reversed on the real ParticleReleaser/State/TimeKeeper", harness="release_bounded", kind="bounded")]
LEVEL = "other"
LEVEL_TEXT = ("Proved over a ghost release table (pandas operations under stated assumed contracts): the constructor keeps exactly the rows whose release time lies in the window "
              "(mirrored when reversed), defaults mult to 1, refuses exactly when no row is left, computes the steps with time2step and orders the release groups in simulation order "
              "(ascending time forward, descending reversed) -- the order in which update() consumes them; clean_position uses given X, Y, converts lon/lat with grid.ll2xy in the right "
              "order and refuses rows without a position; read_release_file passes the documented parsing options and turns unreadable/missing files into SystemExit(3); update/__next__ "
              "append exactly the rows of the group scheduled for the step, each repeated mult times in file-row order, without the mult column, and maintain the releaser invariant. "
              "NOT proved (bounded): continuous mode (discretize: arange/join/ffill/explode) and the real pandas behaviour behind the assumed contracts.")
LEVEL_NOTE = "pandas external: filter/len/unique/groupby/to_records/repeat/DataFrame/drop/rename contracts assumed and exercised by the bounded sweep (360 set-ups); discretize (continuous release) bounded only"
TECHNIQUE = "contract-based deductive verification of update/__next__ over ghost release groups; bounded exhaustive run-time contract for the pandas pipeline"
EXPLANATION = "Release step logic proved over ghost groups; the table pipeline (decisive for windows and continuous mode) is bounded, hence level 'other'."
ASSUMPTIONS = ["release tables sorted in simulation order with times on the model time grid (the property's quantifier)"]
