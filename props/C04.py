"""C04 - release accounting: each scheduled row yields exactly mult particles on time."""
from contracts import release as R
from contracts import state as S
from contracts import timekeeper as K

UNITS = list(R.RELEASE_UNITS) + [S.Append("arrays"), S.Append("broadcast"), K.TKTime2Step()]
LEMMAS = []
NATIVE = [dict(name="release tables x windows x discrete/continuous x forward/reversed on the real ParticleReleaser/State/TimeKeeper", harness="release_bounded", kind="bounded")]
LEVEL = "other"
LEVEL_TEXT = ("Proved: ParticleReleaser.update/__next__ over abstract release groups -- under the releaser invariant (_index == number of groups with an earlier step, steps strictly "
              "increasing) a release step appends exactly the rows of the group scheduled for that step, each repeated mult times in file-row order, without the mult column, and "
              "nothing otherwise; counters and invariant are maintained; State.append hands out the pids (C05); time2step is floor division (C13). NOT proved (bounded): the pandas "
              "pipeline of __init__ (window filters, discretize, group construction, clean_position, read_release_file), which establishes the invariant and the group/step correspondence.")
LEVEL_NOTE = "pandas is external: to_records/repeat/DataFrame/drop/groupby contracts assumed; __init__, discretize, read_release_file, clean_position only by the bounded sweep (360 set-ups quick)"
TECHNIQUE = "contract-based deductive verification of update/__next__ over ghost release groups; bounded exhaustive run-time contract for the pandas pipeline"
EXPLANATION = "Release step logic proved over ghost groups; the table pipeline (decisive for windows and continuous mode) is bounded, hence level 'other'."
ASSUMPTIONS = ["release tables sorted in simulation order with times on the model time grid (the property's quantifier)"]
