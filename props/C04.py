"""C04 - release accounting: each scheduled row yields exactly mult particles on time."""
from contracts import release as R
from contracts import state as S
from contracts import timekeeper as K

from contracts import release_cont as RC
from contracts import release_init as RI

UNITS = list(R.RELEASE_UNITS) + list(RI.RELEASE_INIT_UNITS) + list(RC.RELEASE_CONT_UNITS) + [S.Append("arrays"), S.Append("broadcast"), K.TKTime2Step()]
LEMMAS = list(RC.RELEASE_CONT_LEMMAS)
NATIVE = [dict(name="release tables x windows x discrete/continuous x forward/reversed on the real ParticleReleaser/State/TimeKeeper", harness="release_bounded", kind="bounded")]
LEVEL = "proof"
LEVEL_TEXT = ("Proved over a ghost release table (pandas operations under stated assumed contracts): the constructor keeps exactly the rows whose release time lies in the window "
              "(mirrored when reversed), defaults mult to 1, refuses exactly when no row is left, computes the steps with time2step and orders the release groups in simulation order "
              "(ascending time forward, descending reversed) -- the order in which update() consumes them; clean_position uses given X, Y, converts lon/lat with grid.ll2xy in the right "
              "order and refuses rows without a position; read_release_file passes the documented parsing options and turns unreadable/missing files into SystemExit(3); update/__next__ "
              "append exactly the rows of the group scheduled for the step, each repeated mult times in file-row order, without the mult column, and maintain the releaser invariant. "
              "Continuous mode: discretize is proved to build the documented pipeline (ticks from the FIRST file time to the stop time every +-release_frequency, equality join, forward "
              "fill, explode, types restored) from exactly the table it was given; the constructor feeds it all rows of the stop window (whatever their mult) and keeps the ticks from the "
              "start time on; a lemma over the join/ffill contract shows that for file times on the tick grid tick k releases exactly the rows of the latest file time not after it. "
              "NOT proved: the real pandas behaviour behind the assumed contracts (exercised by the bounded sweep).")
LEVEL_NOTE = "pandas external: filter/len/unique/groupby/agg/join/ffill/explode/to_records/repeat/DataFrame/drop/rename contracts assumed (stated in contracts/release*.py) and exercised on the real library by the bounded sweep (432 set-ups); release tables sorted in simulation order, file times on the tick grid in continuous mode (the property's quantifier)"
TECHNIQUE = "contract-based deductive verification over a ghost release table (constructor, discretize, clean_position, read_release_file, update/__next__; pandas under assumed contracts) + bounded exhaustive run-time contract on the real pandas pipeline"
EXPLANATION = "Constructor (discrete and continuous), discretize and the release step proved over a ghost table under assumed pandas contracts; the real pandas behaviour is exercised by the bounded sweep."
ASSUMPTIONS = ["release tables sorted in simulation order with times on the model time grid (the property's quantifier)"]
