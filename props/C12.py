"""C12 - vertical grid: s-levels ordered inside the water column, depth lookup consistent."""
from contracts import roms_sample as S
from contracts import roms_vertical as Vt

UNITS = list(Vt.VERTICAL_UNITS) + [S.Z2sKernelSorted(), S.Z2s()]
LEMMAS = list(Vt.VERTICAL_LEMMAS)
NATIVE = [dict(name="vertical set-ups incl. Vstretching 2 on a parameter grid (real s_stretch, sdepth, z2s)", harness="vertical_bounded", kind="bounded"), 
          dict(name="encoder validation: the interpreter in concrete mode vs the real numpy/numba functions", harness="validate_encoder", kind="validation", prepare="pyvc.validate:run_validation")]
LEVEL = "proof"
LEVEL_TEXT = ("Deductive proof for every N, theta_s, theta_b, hc, h in the stated ranges: s_stretch (Vstretching 1 and 4, rho and w) equals the ROMS stretching function, which is strictly "
              "increasing from -1 to 0; sdepth (Vtransform 1 with hc <= h, and 2) equals the ROMS transform, levels strictly increasing within [-h, 0], w-levels from -h to 0, rho/w interleave; "
              "z2s_kernel/z2s return 1 <= K < kmax, 0 <= A <= 1 with A*z[K-1] + (1-A)*z[K] == clamp(-Z) in the particle's own column, all array reads in bounds. Vstretching 2 is a bounded stand-in.")
LEVEL_NOTE = ("sinh/tanh/cosh/exp are uninterpreted with ASSUMED analytic axioms (sign, monotonicity, parity, exp(0)=1) instantiated at the occurring arguments; "
              "np.searchsorted(side=left) and np.around contracts assumed; reals for floats; Vstretching=2 only bounded; N >= 2 levels for the lookup")
TECHNIQUE = "contract-based deductive verification (AST->z3 VCs, map-loop summarisation with Skolem functions, nonlinear real arithmetic via nlsat, axiomatised transcendentals)"
EXPLANATION = "Vertical grid and level lookup proved; Vstretching 2 bounded."
ASSUMPTIONS = ["analytic axioms of sinh, tanh, cosh, exp", "np.searchsorted(side='left') returns the left bisection index on a sorted column"]
