"""C18 - one simulation, three spellings: YAML v2, TOML v2, legacy v1 give the same run."""
from contracts import config as Cf

from contracts import model as M

UNITS = Cf.v2_units() + Cf.v1_units() + list(Cf.WILD_UNITS) + list(Cf.CONFIGURE_UNITS) + list(M.LOADER_UNITS)
LEMMAS = []
NATIVE = [dict(name="three spellings of three scenarios run through the real configure + Model, outputs compared", harness="spellings_bounded", kind="bounded")]
LEVEL = "other"
LEVEL_TEXT = ("Proved for every presence pattern of the optional keys (concrete dictionary structure, opaque leaves): configure_v2 treats omitted optional sections as empty ones, fills "
              "grid.module/grid.filename from the forcing section, replaces empty tracker/release sections, and raises KeyError (turned into SystemExit(3) by configure) when a mandatory "
              "section is missing; configure_v1 produces exactly the version-2 dictionary that the documented key correspondence prescribes (time, grid/forcing incl. gridfile precedence "
              "and subgrid, state variables, tracker, release incl. continuous mode, ibm, output incl. encodings), for 37 patterns. NOT proved (bounded): that the YAML and TOML parsers "
              "return the same mapping, wildcard expansion, the warm-start block, and that equal effective configurations give equal output (argued from C14.4 determinism).")
LEVEL_NOTE = "yaml/tomli/pathlib external; list-valued entries fixed to one representative list; equality of the three runs' outputs only by the bounded sweep (3 scenarios)"
TECHNIQUE = "contract-based deductive verification by symbolic execution over all presence patterns (opaque leaves) + bounded three-spelling runs"
EXPLANATION = "Translation and defaults proved pattern by pattern; parser agreement and output equality bounded, hence level 'other'."
ASSUMPTIONS = ["yaml.safe_load and tomli.load return equal mappings for the two v2 spellings"]
