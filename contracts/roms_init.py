"""Contracts for Grid.__init__ and Forcing._read_velocity/_read_field/_select_forcing_file (C02.4, C09, C17 base, C20.5, C03.4).
netCDF4 is external: a file is a ghost object whose variables are uninterpreted functions of global indices.
Assumed contract: v[a:b, c:d] returns the stated sub-block (numpy semantics), getValue() the scalar, .shape the shape."""
from __future__ import annotations

import z3

from pyvc import values as V
from pyvc.interp import ForallIdx, ForallP, ModelObject, Obj, UnivFact
from pyvc.spec import Args, Spec
from pyvc.values import Arr, PyRaise, Unsupported, sym_array

from .roms_vertical import SDepth

R = z3.RealVal


class GVar(ModelObject):
    """A variable of the grid file: raw(name)(j, i) over global indices."""

    def __init__(self, cx, name, shape, kind="real"):
        self.name, self.shape, self.kind = name, tuple(shape), kind
        sort = z3.RealSort() if kind == "real" else z3.IntSort()
        self.decl = z3.Function(f"gfile_{name}", *([z3.IntSort()] * len(shape)), sort)

    def pv_getattr(self, cx, name):
        if name == "shape":
            return self.shape
        if name == "getValue":
            d = self.decl
            f = lambda interp: V.app(d) if False else z3.Const(f"gfile_{self.name}_value", z3.RealSort() if self.kind == "real" else z3.IntSort())  # noqa: E731
            f._pyvc_model = True
            return f
        raise Unsupported(f"netCDF attribute {name}: no assumed contract")

    def pv_getitem(self, cx, idx):
        if not isinstance(idx, tuple):
            idx = (idx,)
        if len(idx) != len(self.shape):
            raise Unsupported("grid variable index rank")
        starts, shape = [], []
        for ax, (sl, size) in enumerate(zip(idx, self.shape)):
            if not isinstance(sl, slice) or sl.step not in (None, 1):
                raise Unsupported("grid variable index form")
            a = 0 if sl.start is None else sl.start
            b = size if sl.stop is None else sl.stop
            cx.oblige(f"netCDF read of {self.name}: slice {ax} within the variable: 0 <= {a} <= {b} <= {size}", z3.And(V.to_z3(a) >= 0, V.to_z3(a) <= V.to_z3(b), V.to_z3(b) <= V.to_z3(size)), kind="index")
            starts.append(a)
            shape.append(V.s_binop("-", b, a))
        d = self.decl
        return Arr(tuple(shape), lambda *k: V.app(d, *[V.s_binop("+", s, x) for s, x in zip(starts, k)]), self.kind)


class GFile(ModelObject):
    def __init__(self, cx, with_vtransform=True):
        jm0, im0, n = z3.Ints("jmax0 imax0 Nlev")
        cx.assume(z3.And(jm0 >= 3, im0 >= 3, n >= 1))
        self.jm0, self.im0, self.n = jm0, im0, n
        names = ["h", "mask_rho", "pm", "pn", "lon_rho", "lat_rho", "angle"]
        self.variables = {k: GVar(cx, k, (jm0, im0)) for k in names}
        self.variables["hc"] = GVar(cx, "hc", ())
        self.variables["Cs_r"] = GVar(cx, "Cs_r", (n,))
        self.variables["Cs_w"] = GVar(cx, "Cs_w", (n + 1,))
        if with_vtransform:
            self.variables["Vtransform"] = GVar(cx, "Vtransform", (), "int")
        self.closed = 0

    def pv_getattr(self, cx, name):
        if name == "variables":
            return self.variables
        me = self
        if name == "set_auto_maskandscale":
            f = lambda interp, flag: None  # noqa: E731
        elif name == "close":

            def f(interp):
                me.closed += 1

        elif name == "sync":
            f = lambda interp: None  # noqa: E731
        else:
            raise Unsupported(f"netCDF Dataset attribute {name} is not modelled")
        f._pyvc_model = True
        return f


def sdepth_callee(interp, args, kwargs):
    """sdepth at the call sites of Grid.__init__ (its own contract: contracts/roms_vertical.SDepth)."""
    H, Hc, C = args[0], args[1], args[2]
    stagger = kwargs.get("stagger", "rho")
    vt = kwargs.get("Vtransform", 1)
    tag = "zr" if stagger == "rho" else "zw"
    a = sym_array(f"grid_{tag}", (C.shape[0], *H.shape), "real")
    a._sdepth_args = (H, Hc, C, stagger, vt)
    return a


class GridInit(Spec):
    """Grid.__init__: subgrid normalisation and validation, array shapes, u/v land masks."""

    func = "ladim.ROMS.Grid.__init__"
    properties = ("C02", "C09", "C17", "C20")
    inline = ("ladim.grid.BaseGrid.__init__",)

    def __init__(self, subgrid_given):
        self.subgrid_given = subgrid_given
        self.name = f"Grid.__init__[subgrid {'given' if subgrid_given else 'defaulted'}]"
        self._file = None
        spec = self

        def dataset(interp, fname, *a, **k):
            spec._file = GFile(interp.cx, with_vtransform=False)
            return spec._file

        self.externals = {"netCDF4.Dataset": dataset}
        self.callees = {"ladim.ROMS.sdepth": sdepth_callee}

    def inputs(self, cx):
        a = Args(self=Obj("ladim.ROMS.Grid"), filename="grid.nc")
        if self.subgrid_given:
            a.subgrid = tuple(z3.Ints("sg_i0 sg_i1 sg_j0 sg_j1"))
        else:
            a.subgrid = None
        a.Vinfo = None
        return a

    def norm(self, a):
        jm0, im0 = z3.Ints("jmax0 imax0")
        if not self.subgrid_given:
            return z3.IntVal(1), im0 - 1, z3.IntVal(1), jm0 - 1
        s = a.subgrid
        i0 = z3.If(s[0] < 0, im0 + s[0], s[0])
        i1 = z3.If(s[1] < 0, im0 + s[1], s[1])
        j0 = z3.If(s[2] < 0, jm0 + s[2], s[2])
        j1 = z3.If(s[3] < 0, jm0 + s[3], s[3])
        return i0, i1, j0, j1

    def raises(self, cx, a):
        jm0, im0 = z3.Ints("jmax0 imax0")
        i0, i1, j0, j1 = self.norm(a)
        legal = z3.And(1 <= i0, i0 < i1, i1 <= im0 - 1, 1 <= j0, j0 < j1, j1 <= jm0 - 1)
        return [(z3.Not(legal), "SystemExit")]

    def model(self, cx, a):
        return NotImplemented

    def ensures(self, cx, a, result):
        t = a.self.attrs
        jm0, im0 = z3.Ints("jmax0 imax0")
        i0, i1, j0, j1 = self.norm(a)
        imax, jmax = i1 - i0, j1 - j0
        out = []

        def eqattr(k, v):
            return (f"C20/C17: Grid.{k} as specified", V.s_cmp("==", t.get(k, "<missing>"), v) if not isinstance(t.get(k), str) else False)

        for k, v in (("i0", i0), ("i1", i1), ("j0", j0), ("j1", j1), ("imax", imax), ("jmax", jmax), ("xmin", z3.ToReal(i0)), ("xmax", z3.ToReal(i1 - 1)), ("ymin", z3.ToReal(j0)), ("ymax", z3.ToReal(j1 - 1))):
            out.append(eqattr(k, v))
        for k in ("H", "M", "dx", "dy", "lon", "lat"):
            arr = t.get(k)
            ok = isinstance(arr, Arr) and arr.ndim == 2
            out.append((f"C17: shape of Grid.{k} is (jmax, imax)", z3.And(V.to_z3(V.s_cmp("==", arr.shape[0], jmax)), V.to_z3(V.s_cmp("==", arr.shape[1], imax))) if ok else False))
        fl = self._file
        jj, ii = z3.Ints("cell_j cell_i")
        inb = z3.And(jj >= 0, jj < jmax, ii >= 0, ii < imax)
        if fl is not None and isinstance(t.get("H"), Arr):
            rawh, rawm, rawpm, rawpn = (fl.variables[k].decl for k in ("h", "mask_rho", "pm", "pn"))
            out.append(("C02: H, dx, dy are the file's h, 1/pm, 1/pn of the loaded sub-rectangle (global cell j0+j, i0+i)", z3.Implies(inb, z3.And(t["H"].fn(jj, ii) == rawh(j0 + jj, i0 + ii), t["dx"].fn(jj, ii) == 1 / rawpm(j0 + jj, i0 + ii), t["dy"].fn(jj, ii) == 1 / rawpn(j0 + jj, i0 + ii)))))
            M = t["M"].fn
            Mu, Mv = t.get("Mu"), t.get("Mv")
            oku = isinstance(Mu, Arr) and Mu.ndim == 2
            out.append(("C17: shape of the u-mask is (jmax, imax+1), of the v-mask (jmax+1, imax)", z3.And(V.to_z3(V.s_cmp("==", Mu.shape[0], jmax)), V.to_z3(V.s_cmp("==", Mu.shape[1], imax + 1)), V.to_z3(V.s_cmp("==", Mv.shape[0], jmax + 1)), V.to_z3(V.s_cmp("==", Mv.shape[1], imax))) if oku else False))
            if oku:
                m = z3.Int("face_m")
                inu = z3.And(jj >= 0, jj < jmax, m >= 0, m <= imax)
                spec_u = z3.If(m == 0, M(jj, 0), z3.If(m == imax, M(jj, imax - 1), M(jj, m - 1) * M(jj, m)))
                out.append(("C02/C09: u-face mask: zero when either neighbouring cell is land (the cell's own mask on the two edge columns)", z3.Implies(inu, Mu.fn(jj, m) == spec_u)))
                inv = z3.And(m >= 0, m <= jmax, ii >= 0, ii < imax)
                spec_v = z3.If(m == 0, M(0, ii), z3.If(m == jmax, M(jmax - 1, ii), M(m - 1, ii) * M(m, ii)))
                out.append(("C02/C09: v-face mask: zero when either neighbouring cell is land", z3.Implies(inv, Mv.fn(m, ii) == spec_v)))
            for k, sl_spec in (("I", (i0, i1)), ("J", (j0, j1)), ("Iu", (i0 - 1, i1)), ("Ju", (j0, j1)), ("Iv", (i0, i1)), ("Jv", (j0 - 1, j1))):
                sl = t.get(k)
                ok = isinstance(sl, slice)
                out.append((f"C02/C17: slice Grid.{k} covers the staggered points of the loaded cells", z3.And(V.to_z3(V.s_cmp("==", sl.start, sl_spec[0])), V.to_z3(V.s_cmp("==", sl.stop, sl_spec[1]))) if ok else False))
            out.append(("the grid file is closed exactly once", fl.closed == 1))
        return out


GRIDINIT_UNITS = [GridInit(True), GridInit(False)]


# ---------------------------------------------------------------- forcing file access

rawF = {k: z3.Function(f"ffile_{k}", z3.IntSort(), z3.IntSort(), z3.IntSort(), z3.IntSort(), z3.IntSort(), z3.RealSort()) for k in ("u", "v", "temp")}
scaled_f = z3.Function("ffile_scaled", z3.IntSort(), z3.BoolSort())  # file -> its variables are packed
scale_f = {k: z3.Function(f"ffile_scale_{k}", z3.IntSort(), z3.RealSort()) for k in ("u", "v", "temp")}
offset_f = {k: z3.Function(f"ffile_offset_{k}", z3.IntSort(), z3.RealSort()) for k in ("u", "v", "temp")}
file_of = z3.Function("file_of_step", z3.IntSort(), z3.IntSort())
rec_of = z3.Function("record_of_step", z3.IntSort(), z3.IntSort())


class SymMap(ModelObject):
    def __init__(self, f):
        self.f = f

    def pv_getitem(self, cx, key):
        return self.f(V.to_z3(key))


class FVar(ModelObject):
    def __init__(self, file, name, shape):
        self.file, self.name, self.shape = file, name, shape

    def pv_getattr(self, cx, name):
        if name == "scale_factor":
            if cx.fork(scaled_f(self.file.fid)):
                return scale_f[self.name](self.file.fid)
            raise PyRaise("AttributeError", (name,))
        if name == "add_offset":
            return offset_f[self.name](self.file.fid)
        from .warm import NC_VARIABLE_API

        if name in NC_VARIABLE_API:
            raise Unsupported(f"netCDF Variable attribute {name} is not modelled")
        raise PyRaise("AttributeError", (name,))

    def pv_getitem(self, cx, idx):
        frame, ksl, jsl, isl = idx
        if not (isinstance(ksl, slice) and ksl.start is None and ksl.stop is None):
            raise Unsupported("vertical index form")
        cx.oblige(f"forcing read of {self.name}: the file is open", self.file.open is True, kind="pre")
        f = rawF[self.name]
        fid = self.file.fid
        kmax, jm, im = self.shape
        for sl, size, nm in ((jsl, jm, "eta"), (isl, im, "xi")):
            cx.oblige(f"forcing read of {self.name}: {nm} slice within the file variable", z3.And(V.to_z3(sl.start) >= 0, V.to_z3(sl.start) <= V.to_z3(sl.stop), V.to_z3(sl.stop) <= V.to_z3(size)), kind="index")
        fr = V.to_z3(frame)
        self.file.reads.append((self.name, fr))
        return Arr((kmax, V.s_binop("-", jsl.stop, jsl.start), V.s_binop("-", isl.stop, isl.start)), lambda k, j, i: f(fid, fr, V.to_z3(k), V.to_z3(V.s_binop("+", jsl.start, j)), V.to_z3(V.s_binop("+", isl.start, i))), "real")


class FFile(ModelObject):
    def __init__(self, fid, dims):
        self.fid = fid
        self.open = True
        self.reads = []
        kmax, jm0, im0 = dims
        self.variables = {"u": FVar(self, "u", (kmax, jm0, im0 - 1)), "v": FVar(self, "v", (kmax, jm0 - 1, im0)), "temp": FVar(self, "temp", (kmax, jm0, im0))}

    def pv_getattr(self, cx, name):
        if name == "variables":
            return self.variables
        me = self
        if name == "set_auto_maskandscale":
            f = lambda interp, flag: None  # noqa: E731
        elif name == "close":

            def f(interp):
                cx.oblige("closing a forcing file that is open", me.open is True, kind="pre")
                me.open = False

        elif name == "sync":
            f = lambda interp: None  # noqa: E731
        else:
            raise Unsupported(f"netCDF Dataset attribute {name} is not modelled")
        f._pyvc_model = True
        return f


class ReadVelocityImpl(Spec):
    """_read_velocity(t): the frame of step t, read from the file that holds it (whatever was open before),
    scaled when packed, multiplied by the u-/v-face land masks; afterwards that file is the open one."""

    func = "ladim.ROMS.Forcing._read_velocity"
    properties = ("C02", "C03", "C09")
    inline = ("ladim.ROMS.Forcing._select_forcing_file", "ladim.ROMS.Forcing.open_forcing_file")

    def __init__(self, first_read):
        self.first_read = first_read
        self.name = f"Forcing._read_velocity[{'first read' if first_read else 'a file already open'}]"
        self.opened = []
        spec = self

        def dataset(interp, fid, *a, **k):
            f = FFile(V.to_z3(fid), spec._dims)
            spec.opened.append(f)
            return f

        self.externals = {"netCDF4.Dataset": dataset}

    def inputs(self, cx):
        from .common import make_grid

        grid = make_grid(cx, with_vertical=True)
        g = grid.attrs
        jm0, im0 = z3.Ints("jmax0 imax0")
        cx.assume(z3.And(g["i0"] + g["imax"] <= im0 - 1, g["j0"] + g["jmax"] <= jm0 - 1))
        self._dims = (g["N"], jm0, im0)
        self.opened = []
        g["I"], g["J"] = slice(g["i0"], g["i1"]), slice(g["j0"], g["j1"])
        g["Iu"], g["Ju"] = slice(g["i0"] - 1, g["i1"]), g["J"]
        g["Iv"], g["Jv"] = g["I"], slice(g["j0"] - 1, g["j1"])
        g["Mu"] = sym_array("grid_Mu", (g["jmax"], g["imax"] + 1), "int")
        g["Mv"] = sym_array("grid_Mv", (g["jmax"] + 1, g["imax"]), "int")
        f = Obj("ladim.ROMS.Forcing", grid=grid, extra_forcing=["temp"], file_idx=SymMap(file_of), frame_idx=SymMap(rec_of), _first_read=self.first_read)
        if not self.first_read:
            old = FFile(z3.Int("open_file_id"), self._dims)
            f.attrs["_nc"] = old
            f.attrs["_nc_name"] = old.fid
            f.attrs["scaled"] = {k: scaled_f(old.fid) for k in ("u", "v", "temp")}
            f.attrs["scale_factor"] = {k: scale_f[k](old.fid) for k in ("u", "v", "temp")}
            f.attrs["add_offset"] = {k: offset_f[k](old.fid) for k in ("u", "v", "temp")}
        cx.assume(rec_of(z3.Int("time_step")) >= 0)
        a = Args(self=f, time_step=z3.Int("time_step"))
        a._old = f.attrs.get("_nc")
        return a

    def call_args(self, a):
        return [a.self, a.time_step], {}

    def model(self, cx, a):
        return NotImplemented

    def ensures(self, cx, a, result):
        t = a.self.attrs
        g = t["grid"].attrs
        ts = a.time_step
        fid, rec = file_of(ts), rec_of(ts)
        out = []
        nc = t.get("_nc")
        out.append(("C03: afterwards the open file is the file that holds the requested frame", isinstance(nc, FFile) and nc.open is True and z3.And(nc.fid == fid, V.to_z3(V.s_cmp("==", t.get("_nc_name", -1), fid)))))
        if not isinstance(nc, FFile):
            return out
        out.append(("C03: the frame was read from that file, at the frame's own record", all(z3.is_true(z3.simplify(fr == rec)) for _n, fr in nc.reads) and {n for n, _ in nc.reads} == {"u", "v"}))
        if not self.first_read:
            old = a._old
            out.append(("C03: a previously open other file was closed, the same file is not reopened", (old.open is False) if nc is not old else (old.open is True and not self.opened)))
        ok = isinstance(result, tuple) and len(result) == 2 and all(isinstance(r, Arr) and r.ndim == 3 for r in result)
        out.append(("returns (U, V) fields", ok))
        if ok:
            U, Vv = result
            k, j, m = z3.Ints("node_k node_j node_m")
            sc_u = z3.If(scaled_f(fid), scale_f["u"](fid), R(1))
            sc_v = z3.If(scaled_f(fid), scale_f["v"](fid), R(1))
            inu = z3.And(k >= 0, k < g["N"], j >= 0, j < g["jmax"], m >= 0, m <= g["imax"])
            out.append(("C17: U has shape (kmax, jmax, imax+1), V (kmax, jmax+1, imax)", z3.And(*[V.to_z3(V.s_cmp("==", x, y)) for x, y in zip(U.shape + Vv.shape, (g["N"], g["jmax"], g["imax"] + 1, g["N"], g["jmax"] + 1, g["imax"]))])))
            out.append(("C02/C09: U == scale * file u at the global u-point (j0+j, i0-1+m) * u-face mask (zero through land faces)", z3.Implies(inu, U.fn(k, j, m) == sc_u * rawF["u"](fid, rec, k, g["j0"] + j, g["i0"] - 1 + m) * z3.ToReal(g["Mu"].fn(j, m)))))
            inv = z3.And(k >= 0, k < g["N"], j >= 0, j <= g["jmax"], m >= 0, m < g["imax"])
            out.append(("C02/C09: V == scale * file v at the global v-point (j0-1+j, i0+m) * v-face mask", z3.Implies(inv, Vv.fn(k, j, m) == sc_v * rawF["v"](fid, rec, k, g["j0"] - 1 + j, g["i0"] + m) * z3.ToReal(g["Mv"].fn(j, m)))))
        return out


class ReadFieldImpl(ReadVelocityImpl):
    """_read_field(name, t): scalar frame of step t from the file that holds it: add_offset + scale_factor*raw when packed."""

    func = "ladim.ROMS.Forcing._read_field"

    def __init__(self, first_read=False):
        super().__init__(first_read)
        self.name = "Forcing._read_field[a file already open]"

    def inputs(self, cx):
        a = super().inputs(cx)
        b = Args(self=a.self, name="temp", n=a.time_step)
        b._old = a._old
        return b

    def call_args(self, a):
        return [a.self, a.name, a.n], {}

    def ensures(self, cx, a, result):
        t = a.self.attrs
        g = t["grid"].attrs
        fid, rec = file_of(a.n), rec_of(a.n)
        nc = t.get("_nc")
        out = [("C03: the scalar frame is read from the file that holds it (selected first, whatever was open)", isinstance(nc, FFile) and nc.open is True and z3.And(nc.fid == fid))]
        if isinstance(result, Arr) and result.ndim == 3:
            k, j, i = z3.Ints("node_k node_j node_i")
            inb = z3.And(k >= 0, k < g["N"], j >= 0, j < g["jmax"], i >= 0, i < g["imax"])
            raw = rawF["temp"](fid, rec, k, g["j0"] + j, g["i0"] + i)
            spec = z3.If(scaled_f(fid), offset_f["temp"](fid) + scale_f["temp"](fid) * raw, raw)
            out.append(("C02: scalar field == (offset + scale * raw) of the particle grid's own cells", z3.Implies(inb, result.fn(k, j, i) == spec)))
        else:
            out.append(("returns a 3-D field", False))
        return out


FORCING_IO_UNITS = [ReadVelocityImpl(True), ReadVelocityImpl(False), ReadFieldImpl()]


class ScanOrderCheck(Spec):
    """scan_file_times, the ordering check after the files have been read: SystemExit(4) exactly when the concatenated
    frame times are not strictly increasing (out of order or duplicated, within or across files)."""

    func = "ladim.ROMS.scan_file_times"
    name = "ROMS.scan_file_times[ordering check]"
    properties = ("C20", "C03")
    inline = ()

    def body_slice(self, node):
        """Structural, independent of local names: the slice starts after the statement that turns the collected
        frames into an array (the first assignment following the file loop)."""
        import ast

        loop = next((k for k, st in enumerate(node.body) if isinstance(st, ast.For)), None)
        if loop is None or loop + 2 > len(node.body):
            return None
        arr = node.body[loop + 1]
        if not (isinstance(arr, ast.Assign) and len(arr.targets) == 1 and isinstance(arr.targets[0], ast.Name)):
            return None
        self._frames_name = arr.targets[0].id
        # every other local the prefix assigns (e.g. the frame-count table) is handed over as an opaque table
        self._other_names = sorted({n.id for st in node.body[: loop + 1] for n in ast.walk(st) if isinstance(n, ast.Name) and isinstance(n.ctx, ast.Store)} - {self._frames_name})
        first = node.body[loop + 2]
        return node.body[loop + 2 :], f"lines {first.lineno}-{node.end_lineno} (the sortedness check; the file-reading loop above it is verified separately for fixed shapes)"

    def inputs(self, cx):
        n = z3.Int("nframes")
        cx.assume(n >= 1)
        return Args(files=None, _frames=sym_array("frame_time", (n,), "int"))

    def slice_env(self, cx, a):
        env = {nm: {} for nm in getattr(self, "_other_names", ["num_frames"])}
        env[getattr(self, "_frames_name", "all_frames")] = a._frames
        return env

    def call_args(self, a):
        return [a.files], {}

    def model(self, cx, a):
        return NotImplemented

    def raises(self, cx, a):
        # raise condition is existential: stated through the witness of np.any (see ensures for the converse)
        return []

    may_raise = ("SystemExit",)

    def ensures(self, cx, a, result):
        f = a._frames.fn
        n = a._frames.shape[0]
        ok = isinstance(result, tuple) and len(result) == 2 and result[0] is a._frames
        return [
            ("C20: a normal return means the frame times are strictly increasing over the concatenated files (no duplicate, none out of order)", ForallP(V.s_binop("-", n, 1), lambda k: f(k) < f(k + 1))),
            ("returns (all_frames, num_frames)", ok),
        ]


class ScanOrderCheckRaises(ScanOrderCheck):
    """The converse: strictly increasing frame times are never refused."""

    name = "ROMS.scan_file_times[ordering check, sorted input]"
    may_raise = ()

    def requires(self, cx, a):
        f = a._frames.fn
        n = a._frames.shape[0]
        return [("frames strictly increasing", ForallP(V.s_binop("-", n, 1), lambda k: f(k) < f(k + 1)))]


SCAN_UNITS = [ScanOrderCheck(), ScanOrderCheckRaises()]


# ---------------------------------------------------------------- scan_file_times: the file-reading loop
# The loop `for fname in files` runs over a list of symbolic length, which the generator cannot iterate. It is verified
# for FIXED file/frame-count shapes with symbolic frame times (every file read, in order, every frame of it appended,
# num_frames == frames per file); the ordering check is verified for all lengths by the slice above.


class TimeVar(ModelObject):
    def __init__(self, arr):
        self.arr = arr

    def pv_getitem(self, cx, idx):
        if isinstance(idx, slice) and idx.start is None and idx.stop is None:
            return self.arr
        raise Unsupported("partial read of ocean_time")

    def pv_getattr(self, cx, name):
        if name == "units":
            return "seconds since 1970-01-01 00:00:00"
        raise Unsupported(f"ocean_time.{name}")


class TimeFile(ModelObject):
    def __init__(self, arr, log, name):
        self.arr = arr
        log.append(name)

    def pv_getattr(self, cx, name):
        if name == "variables":
            return {"ocean_time": TimeVar(self.arr)}
        raise Unsupported(f"Dataset.{name}")


class ScanReadLoop(Spec):
    """scan_file_times, whole function, for a fixed shape: all_frames is the concatenation of the ocean_time of ALL files
    in the order given, num_frames maps every file to its frame count, and the call is refused exactly when the
    concatenation is not strictly increasing."""

    func = "ladim.ROMS.scan_file_times"
    properties = ("C20", "C03")
    inline = ()
    may_raise = ("SystemExit",)

    def __init__(self, counts):
        self.counts = tuple(counts)
        self.name = f"ROMS.scan_file_times[whole function, files with {', '.join(map(str, counts))} frames]"
        spec = self

        def dataset(interp, fname, *a, **kw):
            st = interp.cx.ghost.setdefault("scan_files", {})
            return TimeFile(st["arrays"][fname], st["opened"], fname)

        def num2date(interp, times, units, *a, **kw):
            return times  # assumed: an order-preserving conversion of the time values (seconds kept as integers)

        self.externals = {"netCDF4.Dataset": dataset, "cftime.num2date": num2date, "netCDF4.num2date": num2date}

    def inputs(self, cx):
        files = [f"file{k}" for k in range(len(self.counts))]
        arrays = {f: Arr((c,), (lambda f_: lambda j: z3.Int(f"t_{f_}_{j if isinstance(j, int) else 0}"))(f), "int") for f, c in zip(files, self.counts)}
        cx.ghost["scan_files"] = dict(arrays=arrays, opened=[])
        return Args(files=files)

    def model(self, cx, a):
        return NotImplemented

    def _concat(self, a):
        return [z3.Int(f"t_{f}_{j}") for f, c in zip(a.files, self.counts) for j in range(c)]

    def ensures(self, cx, a, result):
        exp = self._concat(a)
        out = [("C20: every file is opened exactly once, in the order given", cx.ghost["scan_files"]["opened"] == list(a.files))]
        ok = isinstance(result, tuple) and len(result) == 2 and isinstance(result[0], Arr) and result[0].shape == (len(exp),)
        out.append(("C20/C03: all_frames has one entry per frame of every file", ok))
        if ok:
            for k, e in enumerate(exp):
                out.append((f"C20/C03: all_frames[{k}] == the corresponding frame time of the concatenated files", V.s_cmp("==", result[0].at(k), e)))
            out.append(("C03: num_frames == frames per file", result[1] == dict(zip(a.files, self.counts))))
            out.append(("C20: a normal return means the concatenated frame times are strictly increasing", z3.And(*[exp[k] < exp[k + 1] for k in range(len(exp) - 1)])))
        return out


class ScanReadLoopSorted(ScanReadLoop):
    """The converse: strictly increasing frame times over all files are never refused."""

    may_raise = ()

    def __init__(self, counts):
        super().__init__(counts)
        self.name += " (sorted input)"

    def requires(self, cx, a):
        exp = self._concat(a)
        return [("frame times strictly increasing over the concatenated files", z3.And(*[exp[k] < exp[k + 1] for k in range(len(exp) - 1)]))]


SCAN_READ_UNITS = [ScanReadLoop((2, 1, 2)), ScanReadLoopSorted((2, 1, 2)), ScanReadLoop((1, 3))]


# ---------------------------------------------------------------- scan_file_times: the file loop for ANY number of files
# Induction over `for fname in files` (rule implemented by SymFileList.pv_for below):
#   invariant I(k):  all_frames == frames(file_0) ++ ... ++ frames(file_{k-1})  and  num_frames == {file_i: count_i, i < k}
#   (1) I(0): the two accumulators are empty when the loop is reached (the statements before the loop are executed);
#   (2) from an ARBITRARY iteration k whose accumulators are ghost objects standing for I(k), one execution of the REAL
#       loop body opens exactly file_k, extends the frame list once by every frame of file_k in file order (a symbolic
#       number count_k >= 0 of them) and stores count_k under file_k: that is I(k + 1) by the definition of concatenation.
# Assumed: Python's `for x in <list>` runs the body once per element, in order; the loop has no break/else (checked).
# The statement after the loop (element-wise conversion to datetime64) stays verified for fixed shapes only.


class LoopProved:
    def __init__(self, what):
        self.what = what


class SeqGhost(ModelObject):
    """The frame list at an arbitrary iteration (stands for the concatenation of the earlier files' frames); records
    what the body does to it."""

    def __init__(self):
        self.ops = []

    def pv_getattr(self, cx, name):
        me = self
        if name in ("extend", "append"):

            def f(interp, x):
                me.ops.append((name, x))

            f._pyvc_model = True
            return f
        raise Unsupported(f"the loop body uses the frame list through .{name} (only extend/append are modelled)")


class MapGhost(ModelObject):
    """The frame-count table at an arbitrary iteration; records the stores of the body."""

    def __init__(self):
        self.stores = []

    def pv_setitem(self, cx, idx, val):
        self.stores.append((idx, val))


class FileK:
    """the k-th element of `files` (an opaque, hashable file name)"""

    def __repr__(self):
        return "files[k]"


class SymFileList(ModelObject):
    """`files`: a list of symbolic length."""

    def pv_for(self, interp, st, env, mod):
        import ast

        cx = interp.cx
        if st.orelse or not isinstance(st.target, ast.Name):
            raise Unsupported("file loop with an else clause or a structured target")
        for n in ast.walk(ast.Module(body=st.body, type_ignores=[])):
            if isinstance(n, (ast.Break, ast.Continue, ast.Return, ast.While, ast.For, ast.Yield)):
                raise Unsupported("control flow inside the file loop")
        from pyvc.interp import PvDict

        lists = [nm for nm, v in env.items() if isinstance(v, list)]
        maps = [nm for nm, v in env.items() if isinstance(v, dict) and nm != "__class__"]
        if len(lists) != 1 or len(maps) != 1:
            raise Unsupported("file loop: expected one list and one dict accumulator before the loop")
        lname, mname = lists[0], maps[0]
        cx.oblige("loop invariant holds on entry: the frame list is empty before the first file", len(env[lname]) == 0, kind="invariant")
        cx.oblige("loop invariant holds on entry: the frame-count table is empty before the first file", len(env[mname]) == 0 and not getattr(env[mname], "sym_stores", []), kind="invariant")
        k = z3.Int("iteration_k")
        cx.assume(k >= 0)
        c = z3.Int("nframes_of_file_k")
        cx.assume(c >= 0)
        ft = z3.Function("frame_time_of_file", z3.IntSort(), z3.IntSort(), z3.IntSort())
        fk = FileK()
        seq, mp = SeqGhost(), MapGhost()
        env[lname], env[mname] = seq, mp
        env[st.target.id] = fk
        opened = []
        cx.ghost["scan_files"] = dict(arrays={fk: Arr((c,), lambda j: ft(k, V.to_z3(j)), "int")}, opened=opened)
        interp.exec_block(st.body, env, mod)
        cx.oblige("C20/C03 loop invariant preserved: iteration k opens exactly the k-th file, once", opened == [fk], kind="invariant")
        one = len(seq.ops) == 1 and seq.ops[0][0] == "extend" and isinstance(seq.ops[0][1], Arr) and seq.ops[0][1].ndim == 1
        cx.oblige("C20/C03 loop invariant preserved: the frame list is extended exactly once, by a sequence", one, kind="invariant")
        if one:
            new = seq.ops[0][1]
            cx.oblige("C20/C03 loop invariant preserved: as many entries are added as the k-th file has frames", V.to_z3(V.s_cmp("==", new.shape[0], c)), kind="invariant")
            cx.oblige_item("C20/C03 loop invariant preserved: the j-th added entry is the j-th frame time of the k-th file (every frame, in file order)", ForallP(c, lambda j: V.to_z3(V.s_cmp("==", new.at(j), ft(k, j)))), kind="invariant")
        st1 = len(mp.stores) == 1 and mp.stores[0][0] is fk
        cx.oblige("C03 loop invariant preserved: exactly one entry is stored in the frame-count table, under the k-th file", st1, kind="invariant")
        if st1:
            cx.oblige("C03 loop invariant preserved: num_frames[file_k] == number of frames of the k-th file", V.to_z3(V.s_cmp("==", mp.stores[0][1], c)), kind="invariant")
        from pyvc.interp import ReturnSignal

        raise ReturnSignal(LoopProved("file loop"))


class ScanReadLoopInductive(Spec):
    """scan_file_times, the file-reading loop for ANY number of files with ANY number of frames each (induction, see the
    comment above): all_frames is the concatenation of the ocean_time of all files in the order given and num_frames maps
    every file to its frame count."""

    func = "ladim.ROMS.scan_file_times"
    name = "ROMS.scan_file_times[file loop, induction over the files]"
    properties = ("C20", "C03")
    inline = ()

    def __init__(self):
        def dataset(interp, fname, *a, **kw):
            st = interp.cx.ghost["scan_files"]
            if fname not in st["arrays"]:
                interp.cx.oblige("the loop body opens the file of its own iteration", False, kind="invariant")
                raise Unsupported("Dataset() of something else than the loop's file")
            return TimeFile(st["arrays"][fname], st["opened"], fname)

        def num2date(interp, times, units, *a, **kw):
            return times  # assumed: an order-preserving conversion of the time values (seconds kept as integers)

        self.externals = {"netCDF4.Dataset": dataset, "cftime.num2date": num2date, "netCDF4.num2date": num2date}

    def inputs(self, cx):
        return Args(files=SymFileList())

    def model(self, cx, a):
        return NotImplemented

    def ensures(self, cx, a, result):
        return [("the function reaches a loop over `files` (verified by induction; what follows the loop is verified by the ordering-check slice and the fixed-shape units)", isinstance(result, LoopProved))]


SCAN_READ_UNITS = SCAN_READ_UNITS + [ScanReadLoopInductive()]


class GridInitMissingFile(GridInit):
    """A grid file that cannot be opened is a start-up error (SystemExit), not a traceback later on."""

    def __init__(self):
        super().__init__(False)
        self.name = "Grid.__init__[grid file cannot be opened]"

        def dataset(interp, fname, *a, **k):
            raise PyRaise("FileNotFoundError", (fname,))

        self.externals = {"netCDF4.Dataset": dataset}

    def raises(self, cx, a):
        return [(True, "SystemExit")]

    def model(self, cx, a):
        return NotImplemented

    def ensures(self, cx, a, result):
        return [("C20: a grid file that cannot be opened must stop the start-up (SystemExit)", False)]


GRID_MISSING_UNITS = [GridInitMissingFile()]
