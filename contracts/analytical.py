"""Contracts for ladim/analytical.py: the helpers apply explicit Runge-Kutta tableaux to sample_func."""
from __future__ import annotations

import z3

from pyvc import values as V
from pyvc.interp import ModelObject, Obj
from pyvc.spec import Args, Spec
from pyvc.values import Arr, sym_array

from .common import N

sampU = z3.Function("sampU", z3.RealSort(), z3.RealSort(), z3.RealSort())
sampV = z3.Function("sampV", z3.RealSort(), z3.RealSort(), z3.RealSort())


class SampleFunc(ModelObject):
    def pv_call(self, interp, args, kwargs):
        x, y = args
        if isinstance(x, Arr):
            fx, fy = x.fn, y.fn
            return (Arr(x.shape, lambda p: sampU(fx(p), fy(p)), "real"), Arr(x.shape, lambda p: sampV(fx(p), fy(p)), "real"))
        return (sampU(V.to_real(x), V.to_real(y)), sampV(V.to_real(x), V.to_real(y)))


def velocity_tuple(interp, *a, **k):
    return tuple(a)


class _Helper(Spec):
    properties = ("C01",)
    inline = ()

    def base_inputs(self, cx):
        n = N(cx)
        st = Obj(None, X=sym_array("X", (n,), "real"), Y=sym_array("Y", (n,), "real"))
        return Args(state=st, sample_func=SampleFunc())

    def tableau(self, a):
        raise NotImplementedError

    def model(self, cx, a):
        A, b, c = self.tableau(a)
        fx, fy = a.state.attrs["X"].fn, a.state.attrs["Y"].fn
        n = a.state.attrs["X"].shape[0]
        dt = V.to_real(a.dt) if a.get("dt") is not None else z3.RealVal(0)

        def stage(p):
            ku, kv = [], []
            for s in range(len(b)):
                xs = fx(p) + dt * sum((A[s][r] * ku[r] for r in range(s)), z3.RealVal(0))
                ys = fy(p) + dt * sum((A[s][r] * kv[r] for r in range(s)), z3.RealVal(0))
                ku.append(sampU(xs, ys))
                kv.append(sampV(xs, ys))
            return sum((b[s] * ku[s] for s in range(len(b))), z3.RealVal(0)), sum((b[s] * kv[s] for s in range(len(b))), z3.RealVal(0))

        return (Arr((n,), lambda p: stage(p)[0], "real"), Arr((n,), lambda p: stage(p)[1], "real"))

    def compare_roots(self, a, b, result):
        return [("state.X unchanged", a.state.attrs["X"], b.state.attrs["X"]), ("state.Y unchanged", a.state.attrs["Y"], b.state.attrs["Y"])]


R = z3.RealVal


class GetVelocity1(_Helper):
    func = "ladim.analytical.get_velocity1"
    name = "analytical.get_velocity1"

    def inputs(self, cx):
        a = self.base_inputs(cx)
        a.dt = None
        return a

    def tableau(self, a):
        return [[]], [R(1)], [R(0)]


class GetVelocity2(_Helper):
    """Two-stage family with parameter s != 0: c2 = a21 = s, b = (1 - 1/(2s), 1/(2s))."""

    func = "ladim.analytical.get_velocity2"
    name = "analytical.get_velocity2"

    def inputs(self, cx):
        a = self.base_inputs(cx)
        a.dt = z3.Real("dt")
        a.s = z3.Real("s")
        cx.assume(a.s != 0)
        return a

    def tableau(self, a):
        s = V.to_real(a.s)
        m = 1 / (2 * s)
        return [[], [s]], [1 - m, m], [R(0), s]


class GetVelocity4(_Helper):
    func = "ladim.analytical.get_velocity4"
    name = "analytical.get_velocity4"

    def inputs(self, cx):
        a = self.base_inputs(cx)
        a.dt = z3.Real("dt")
        return a

    def tableau(self, a):
        h = R("1/2")
        return [[], [h], [R(0), h], [R(0), R(0), R(1)]], [R("1/6"), R("1/3"), R("1/3"), R("1/6")], [R(0), h, h, R(1)]
