"""Contract for Output.create_netcdf (C06, C07): the file a record is written to has exactly the variables the
documented retrieval rule needs, over the right dimensions, and the per-file record budget is
min(numrec, records still to write). This is the implementation side of the callee contract ``CreateNetcdf`` that
``Output.write`` and ``Output.__init__`` are verified against.

netCDF4 is external. Assumed contract (stated here): ``Dataset(name, **args)`` creates an empty file;
``createDimension(name, None)`` an unlimited dimension; ``createVariable(name, type, dims, fill_value=...)`` a variable of
extent 0 over those dimensions; attribute assignment stores the attribute.
"""
from __future__ import annotations

import z3

from pyvc import values as V
from pyvc.interp import ModelObject, Obj
from pyvc.spec import Args, Spec
from pyvc.strings import FStr
from pyvc.values import Unsupported

from .timekeeper import make_timer


class NewVar(ModelObject):
    def __init__(self, name, datatype, dims, fill):
        self.name, self.datatype, self.dims, self.fill = name, datatype, tuple(dims), fill
        self.attributes = {}

    def pv_setattr(self, cx, name, val):
        self.attributes[name] = val


class NewDataset(ModelObject):
    def __init__(self, filename, kwargs):
        self.filename, self.kwargs = filename, kwargs
        self.dims, self.vars, self.attributes = {}, {}, {}
        self.order = []

    def pv_setattr(self, cx, name, val):
        self.attributes[name] = val

    def pv_getattr(self, cx, name):
        me = self
        if name == "createDimension":

            def f(interp, dname, size=None):
                me.dims[dname] = size
                return None

        elif name == "createVariable":

            def f(interp, vname, datatype, dimensions=(), fill_value=None, **kw):
                for d in dimensions:
                    if d not in me.dims:
                        interp.cx.oblige(f"netCDF createVariable({vname}): dimension {d} exists", False, kind="pre")
                v = NewVar(vname, datatype, dimensions, fill_value)
                me.vars[vname] = v
                return v

        else:
            raise Unsupported(f"Dataset.{name}")
        f._pyvc_model = True
        return f


def same_conf(x, y):
    """every entry of the configuration tree y is still in x with the same value (entries the code ADDS, e.g. defaults
    filled in, are not an issue for the next file; model leaves compare by kind)"""
    if isinstance(x, dict) or isinstance(y, dict):
        return isinstance(x, dict) and isinstance(y, dict) and all(k in x and same_conf(x[k], y[k]) for k in y)
    if isinstance(x, ModelObject) or isinstance(y, ModelObject):
        return type(x) is type(y) and getattr(x, "has_marker", None) == getattr(y, "has_marker", None)
    return type(x) is type(y) and x == y


class RefTimeString(ModelObject):
    """an attribute value containing the marker 'reference_time' (e.g. 'seconds since reference_time')"""

    def __init__(self, has_marker):
        self.has_marker = has_marker

    def pv_isinstance(self, tname):
        return tname == "str"

    def pv_contains(self, cx, item):
        if item == "reference_time":
            return self.has_marker
        raise Unsupported("substring test on an attribute value")

    def pv_getattr(self, cx, name):
        if name == "replace":
            me = self

            def replace(interp, old, new):
                if old != "reference_time":
                    raise Unsupported("replace of another substring")
                return ("<units with reference time>", new)

            replace._pyvc_model = True
            return replace
        raise Unsupported(f"str.{name}")


class CreateNetcdfImpl(Spec):
    func = "ladim.out_netcdf.Output.create_netcdf"
    properties = ("C06", "C07")
    inline = ()

    def __init__(self, layout, pvars=True):
        self.layout, self.pvars = layout, pvars
        self.name = f"Output.create_netcdf[{layout}{'' if pvars else ', no particle variables'}]"

        def dataset(interp, filename, *a, **kw):
            return NewDataset(filename, dict(kw))

        self.externals = {"netCDF4.Dataset": dataset}

    def _config(self):
        ivars = dict(
            X=dict(encoding=dict(datatype="f4"), attributes=dict(long_name="x position")),
            xi=dict(encoding=dict(datatype="i4"), attributes=dict(long_name="extra", units="1")),
        )
        if self.layout == "sparse":
            ivars = dict(pid=dict(encoding=dict(datatype="i4"), attributes=dict(long_name="particle identifier")), **ivars)
        pv = None
        if self.pvars:
            pv = dict(
                release_time=dict(encoding=dict(datatype="f8"), attributes=dict(long_name=RefTimeString(False), units=RefTimeString(True))),
                farmid=dict(encoding=dict(datatype="i4"), attributes=dict(long_name=RefTimeString(False))),
            )
        return ivars, pv

    def inputs(self, cx):
        cx.ghost["structured_fstrings"] = True
        timer = make_timer(cx)
        rc, numrec, num_records = z3.Ints("record_count numrec num_records")
        ivars, pv = self._config()
        out = Obj(
            "ladim.out_netcdf.Output",
            filename="<file name>",
            ncargs=dict(mode="w", format="NETCDF4"),
            numrec=numrec,
            num_records=num_records,
            record_count=rc,
            layout=self.layout,
            timer=timer,
            instance_variables=ivars,
            particle_variables=pv,
            global_attributes=dict(institution="<inst>", type="<type>"),
        )
        cx.assume(z3.And(numrec >= 1, rc >= 0, rc < num_records))
        return Args(self=out)

    def model(self, cx, a):
        return NotImplemented

    def ensures(self, cx, a, result):
        t = dict(a.self.attrs)
        out = []
        ok = isinstance(result, NewDataset)
        out.append(("C06/C07: returns the newly created dataset", ok))
        if not ok:
            return out
        # frame: create_netcdf runs once per output file and must leave the variable configuration as it found it
        ivars0, pv0 = self._config()
        out.append(("C07 frame: the configuration of the instance variables keeps every entry it had (the next file is created from it)", same_conf(t["instance_variables"], ivars0)))
        out.append(("C07 frame: the configuration of the particle variables keeps every entry it had", same_conf(t["particle_variables"], pv0)))
        t["instance_variables"], t["particle_variables"] = ivars0, pv0  # what the file must contain is stated on the configuration as given
        out.append(("C07: the file is created under the current file name with the configured netCDF arguments", result.filename == "<file name>" and result.kwargs == dict(mode="w", format="NETCDF4")))
        out.append(("C07: records this file will hold == min(numrec, records still to write)", V.s_cmp("==", t.get("local_num_records", -1), z3.If(t["numrec"] <= t["num_records"] - t["record_count"], t["numrec"], t["num_records"] - t["record_count"]))))
        dims = {"time": None, "particle": None}
        if self.layout == "sparse":
            dims["particle_instance"] = None
        out.append(("C06: dimensions time, particle (and particle_instance when sparse), all unlimited", result.dims == dims))
        idim = ("particle_instance",) if self.layout == "sparse" else ("time", "particle")
        exp = {"time": ("f8", ("time",))}
        if self.layout == "sparse":
            exp["particle_count"] = ("i", ("time",))
        for v, conf in t["instance_variables"].items():
            exp[v] = (conf["encoding"]["datatype"], idim)
        for v, conf in (t["particle_variables"] or {}).items():
            exp[v] = (conf["encoding"]["datatype"], ("particle",))
        out.append(("C06: exactly the variables time, [particle_count,] the configured instance variables and particle variables", set(result.vars) == set(exp)))
        for v, (dt, dm) in exp.items():
            nv = result.vars.get(v)
            if nv is None:
                continue
            out.append((f"C06: variable {v}: configured data type over {dm}", nv.datatype == dt and nv.dims == dm))
        tv = result.vars.get("time")
        if tv is not None:
            u = tv.attributes.get("units")
            ref = a.self.attrs["timer"].attrs["reference_time"]
            good = isinstance(u, FStr) and len(u.parts) == 2 and u.parts[0] == "seconds since " and getattr(u.parts[1], "number", None) is not None and z3.is_true(z3.simplify(u.parts[1].number == ref))
            out.append(("C06: time:units == 'seconds since <reference time>' (the time coordinate is relative to the reference time)", bool(good)))
        for v, conf in t["instance_variables"].items():
            nv = result.vars.get(v)
            if nv is not None:
                out.append((f"C06: instance variable {v} carries its configured attributes", nv.attributes == conf["attributes"]))
        if self.pvars:
            rt = result.vars.get("release_time")
            if rt is not None:
                u = rt.attributes.get("units")
                ref = a.self.attrs["timer"].attrs["reference_time"]
                good = isinstance(u, tuple) and len(u) == 2 and u[0] == "<units with reference time>"
                out.append(("C06: a particle variable's units 'reference_time' marker is replaced by the actual reference time", bool(good)))
                out.append(("C06: float particle variables use NaN as fill value (unset entries are recognisable)", rt.fill is V.NAN or (V.is_z3(rt.fill) is False and rt.fill != rt.fill) or rt.fill is V.NAN))
            fi = result.vars.get("farmid")
            if fi is not None:
                out.append(("C06: integer particle variables keep the default fill value", fi.fill is None))
        out.append(("C07: global attributes stored", result.attributes == t["global_attributes"]))
        # frame: the cursors are not touched
        for k in ("record_count", "numrec", "num_records"):
            out.append((f"frame: {k} unchanged", V.s_cmp("==", t[k], z3.Int(k))))
        return out


CREATE_UNITS = [CreateNetcdfImpl("sparse"), CreateNetcdfImpl("dense"), CreateNetcdfImpl("sparse", pvars=False)]
