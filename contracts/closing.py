"""Contracts for the close methods (C07: all files closed and readable; C19: modules closed once)."""
from __future__ import annotations

from pyvc.interp import Obj
from pyvc.spec import Args, Spec

from .output import NcFile, NcVar


class OutputClose(Spec):
    """Output.close: afterwards the current file is closed; a file that is already closed (the last record closed it)
    is not closed a second time."""

    func = "ladim.out_netcdf.Output.close"
    properties = ("C07", "C19")
    inline = ()

    def __init__(self, is_open):
        self.is_open = is_open
        self.name = f"Output.close[file {'still open' if is_open else 'already closed by the last record'}]"

    def inputs(self, cx):
        f = NcFile({"time": NcVar("time", 1)})
        f.open = self.is_open
        return Args(self=Obj("ladim.out_netcdf.Output", nc=f))

    def model(self, cx, a):
        return NotImplemented

    def ensures(self, cx, a, result):
        f = a.self.attrs["nc"]
        return [("C07: the output file is closed afterwards", f.open is False),
                ("C07/C19: close is issued exactly when the file was still open (never twice)", f.events.count("close") == (1 if self.is_open else 0))]


class ForcingClose(Spec):
    """Forcing.close closes the forcing file that is open."""

    func = "ladim.ROMS.Forcing.close"
    name = "Forcing.close"
    properties = ("C19",)
    inline = ()

    def inputs(self, cx):
        f = NcFile({})
        return Args(self=Obj("ladim.ROMS.Forcing", _nc=f))

    def model(self, cx, a):
        return NotImplemented

    def ensures(self, cx, a, result):
        f = a.self.attrs["_nc"]
        return [("C19: the open forcing file is closed, once", f.open is False and f.events.count("close") == 1)]


CLOSE_UNITS = [OutputClose(True), OutputClose(False), ForcingClose()]
