"""Contracts for ladim/configure.py (C18): configure_v2 defaults and the v1 -> v2 translation, checked for every
presence pattern of the optional keys with opaque leaf values (the dictionaries' structure is concrete, the leaves symbolic)."""
from __future__ import annotations

import itertools

import z3

from pyvc import values as V
from pyvc.spec import Args, Spec


def _leaf(name):
    return f"<{name}>"


class ConfigureV2(Spec):
    """configure_v2: omitted optional sections behave as empty ones; grid module/file default to the forcing's."""

    func = "ladim.configure.configure_v2"
    properties = ("C18", "C20")
    inline = ()

    def __init__(self, present, tracker_none, release_none, grid_keys, missing=None):
        self.present = present  # which of state, grid, ibm, warm_start are given
        self.tracker_none, self.release_none, self.grid_keys, self.missing = tracker_none, release_none, grid_keys, missing
        self.name = f"configure_v2[sections given: {sorted(present)}; tracker {'empty' if tracker_none else 'given'}; release {'empty' if release_none else 'given'}; grid keys {sorted(grid_keys)}{'; missing ' + missing if missing else ''}]"

    def build(self):
        c = dict(
            time=dict(start=_leaf("start"), stop=_leaf("stop"), dt=z3.Int("dt")),
            forcing=dict(module="ladim.ROMS", filename="data/forcing_0001.nc"),
            tracker=None if self.tracker_none else dict(advection="RK4", diffusion=z3.Real("diffusion")),
            release=None if self.release_none else dict(release_file="release.rls"),
            output=dict(filename="out.nc", output_period=z3.Int("period"), instance_variables=dict()),
        )
        if "state" in self.present:
            c["state"] = dict(instance_variables=dict(age="float"))
        if "grid" in self.present:
            c["grid"] = {k: {"module": "my_grid", "filename": "grid.nc", "subgrid": _leaf("subgrid")}[k] for k in self.grid_keys}
        if "ibm" in self.present:
            c["ibm"] = dict(module="my_ibm")
        if "warm_start" in self.present:
            c["warm_start"] = dict()
        if self.missing:
            c.pop(self.missing)
        return c

    def inputs(self, cx):
        return Args(config=self.build())

    def raises(self, cx, a):
        return [(True, "KeyError")] if self.missing else []

    def model(self, cx, a):
        if self.missing:
            return NotImplemented
        c = a.config
        for k in ("state", "grid", "ibm", "warm_start"):
            c.setdefault(k, dict())
        if c["tracker"] is None:
            c["tracker"] = dict()
        if c["release"] is None:
            c["release"] = dict(release_file="")
        c["grid"].setdefault("module", c["forcing"]["module"])
        c["grid"].setdefault("filename", c["forcing"]["filename"])
        return None


def v2_units():
    units = []
    for r in range(0, 5):
        for present in itertools.combinations(["state", "grid", "ibm", "warm_start"], r):
            gk_opts = [()] if "grid" not in present else [(), ("module",), ("filename",), ("module", "filename", "subgrid")]
            for gk in gk_opts:
                units.append(ConfigureV2(set(present), False, False, gk))
    units.append(ConfigureV2(set(), True, True, ()))
    units.append(ConfigureV2({"grid"}, True, False, ("filename",)))
    for m in ("tracker", "time", "release", "output", "forcing"):
        units.append(ConfigureV2({"grid"}, False, False, ("module", "filename"), missing=m))
    return units


class ConfigureV1(Spec):
    """configure_v1 produces the version-2 configuration the documented key correspondence prescribes."""

    func = "ladim.configure.configure_v1"
    properties = ("C18",)
    inline = ()

    def __init__(self, gridfile, inputfile, subgrid, extra, ibm, continuous, reference, pvars):
        self.o = dict(gridfile=gridfile, inputfile=inputfile, subgrid=subgrid, extra=extra, ibm=ibm, continuous=continuous, reference=reference, pvars=pvars)
        self.name = "configure_v1[" + ", ".join(f"{k}={v}" for k, v in self.o.items()) + "]"

    def build(self):
        o = self.o
        c = dict(
            time_control=dict(start_time=_leaf("start"), stop_time=_leaf("stop")),
            numerics=dict(dt=z3.Int("dt"), advection="RK4", diffusion=z3.Real("diffusion")),
            files=dict(particle_release_file="release.rls", output_file="out.nc"),
            gridforce=dict(module="ladim1.gridforce.ROMS"),
            particle_release=dict(variables=["mult", "release_time", "X", "Y", "Z", "farmid", "super"]),
            output_variables=dict(outper=z3.Int("period"), instance=["pid", "X"], particle=["release_time"] if o["pvars"] else [],
                                  pid=dict(ncformat="i4", long_name="particle identifier"), X=dict(ncformat="f4", long_name="x"),
                                  release_time=dict(ncformat="f8", long_name="release time", units="seconds since reference_time")),
        )
        if o["reference"]:
            c["time_control"]["reference_time"] = _leaf("reference")
        {"gridforce": lambda: c["gridforce"].update(input_file="data/forcing_0001.nc"), "files": lambda: c["files"].update(input_file="data/forcing_0001.nc")}[o["inputfile"]]()
        if o["gridfile"] == "gridforce":
            c["gridforce"]["gridfile"] = "grid.nc"
        elif o["gridfile"] == "files":
            c["files"]["gridfile"] = "grid.nc"
        if o["subgrid"]:
            c["gridforce"]["subgrid"] = _leaf("subgrid")
        if o["extra"]:
            c["gridforce"]["extra_forcing"] = ["temp"]
        if o["ibm"]:
            c["ibm"] = dict(ibm_module="my_ibm", variables=["age"], lifespan=z3.Int("lifespan"))
        if o["continuous"]:
            c["particle_release"].update(release_type="continuous", release_frequency=z3.Int("release_frequency"))
        if o["pvars"]:
            c["particle_release"].update(particle_variables=["release_time", "farmid"], release_time="time", farmid="int")
        return c

    def inputs(self, cx):
        return Args(config=self.build())

    def model(self, cx, a):
        """The documented v1 -> v2 correspondence, written independently of the code."""
        o = self.o
        c = a.config
        gf = "data/forcing_0001.nc"
        out = dict()
        out["time"] = dict(start=_leaf("start"), stop=_leaf("stop"), dt=z3.Int("dt"))
        if o["reference"]:
            out["time"]["reference"] = _leaf("reference")
        out["grid"] = dict(module="ladim.ROMS", filename="grid.nc" if o["gridfile"] else gf)
        if o["subgrid"]:
            out["grid"]["subgrid"] = _leaf("subgrid")
        out["forcing"] = dict(module="ladim.ROMS", filename=gf)
        if o["extra"]:
            out["forcing"]["extra_forcing"] = ["temp"]
        ivars = dict(age="float") if o["ibm"] else dict()
        pvars = dict(release_time="time", farmid="int") if o["pvars"] else dict()
        out["state"] = dict(instance_variables=ivars, particle_variables=pvars, default_values={k: 0 for k in ivars})
        out["tracker"] = dict(advection="RK4")
        if cx.decide(z3.Real("diffusion") != 0):
            out["tracker"]["diffusion"] = z3.Real("diffusion")
        out["release"] = dict(release_file="release.rls", names=["mult", "release_time", "X", "Y", "Z", "farmid", "super"])
        if o["continuous"]:
            out["release"].update(continuous=True, release_frequency=z3.Int("release_frequency"))
        out["ibm"] = dict(module="my_ibm", lifespan=z3.Int("lifespan")) if o["ibm"] else dict()
        out["warm_start"] = dict()
        iv = dict(pid=dict(encoding=dict(datatype="i4"), attributes=dict(long_name="particle identifier")), X=dict(encoding=dict(datatype="f4"), attributes=dict(long_name="x")))
        pv = dict(release_time=dict(encoding=dict(datatype="f8"), attributes=dict(long_name="release time", units="seconds since reference_time"))) if o["pvars"] else dict()
        out["output"] = dict(filename="out.nc", output_period=z3.Int("period"), instance_variables=iv, particle_variables=pv, ncargs=dict(data_model="NETCDF3_CLASSIC"))
        return out

    def compare_roots(self, a, b, result):
        # frame: the parsed version-1 dictionary is only READ (a YAML file may share one mapping between several keys
        # through an anchor/alias: popping or changing entries in place would leak from one variable to the next)
        return [("C18: the version-1 input dictionary is not modified (it may contain mappings shared through YAML aliases)", a.config, self.build())]


def v1_units():
    units = []
    # the grid file and the forcing file may each be named in the gridforce or in the files section, independently
    for gridfile in (None, "gridforce", "files"):
        for inputfile in ("gridforce", "files"):
            for subgrid in (False, True):
                for ibm, continuous in ((False, False), (True, True), (True, False)):
                    units.append(ConfigureV1(gridfile, inputfile, subgrid, ibm, ibm, continuous, subgrid, ibm))
    units.append(ConfigureV1(None, "files", True, False, False, False, False, True))
    return units


# ---------------------------------------------------------------- configure(): the dispatcher
# pathlib / tomli / yaml are external. Assumed: Path.exists(), Path.suffix, Path.open() as a context manager;
# tomli.load / yaml.safe_load return the parsed dictionary or raise TOMLDecodeError / YAMLError.

from pyvc.interp import ModelObject  # noqa: E402
from pyvc.values import PyRaise, Unsupported  # noqa: E402


class ConfPath(ModelObject):
    def __init__(self, suffix):
        self.suffix = suffix

    def pv_getattr(self, cx, name):
        if name == "suffix":
            return self.suffix
        if name == "exists":
            f = lambda interp: z3.Bool("config_file_exists")  # noqa: E731
        elif name == "open":
            me = self

            def f(interp, mode="r", encoding=None):
                return ("<open file>", me, mode)

        else:
            raise Unsupported(f"Path.{name}")
        f._pyvc_model = True
        return f


class Configure(Spec):
    """configure(): missing file, unparsable file, unknown version and a version-2 file with a missing mandatory
    section are configuration errors (SystemExit 3); otherwise the dictionary is handed to the translator of its
    version (explicit ``version`` key, else 1 exactly when it has a ``time_control`` section) and that result returned."""

    func = "ladim.configure.configure"
    properties = ("C18", "C20")
    inline = ()

    def __init__(self, suffix, version_key, v1_shape):
        self.suffix, self.version_key, self.v1_shape = suffix, version_key, v1_shape
        self.name = f"configure[{suffix or 'no suffix'} file, version key {version_key!r}, {'time_control section' if v1_shape else 'no time_control section'}]"
        spec = self
        self.log = []

        def path(interp, name):
            return ConfPath(spec.suffix)

        def parsed():
            d = dict(time_control=dict()) if spec.v1_shape else dict(time=dict())
            if spec.version_key is not None:
                d["version"] = spec.version_key
            return d

        def toml_load(interp, fid):
            interp.cx.trace.append(("parse", "toml", fid[2] if isinstance(fid, tuple) else None))
            if interp.cx.fork(z3.Bool("file_parses")):
                return parsed()
            raise PyRaise("TOMLDecodeError", ())

        def yaml_load(interp, fid):
            interp.cx.trace.append(("parse", "yaml", fid[2] if isinstance(fid, tuple) else None))
            if interp.cx.fork(z3.Bool("file_parses")):
                return parsed()
            raise PyRaise("YAMLError", ())

        def v2(interp, args, kwargs):
            interp.cx.trace.append(("configure_v2", args[0]))
            if interp.cx.fork(z3.Bool("mandatory_sections_present")):
                args[0]["_v2_done"] = True
                return None
            raise PyRaise("KeyError", ("forcing",))

        def v1(interp, args, kwargs):
            interp.cx.trace.append(("configure_v1", args[0]))
            return dict(_translated_from=args[0])

        self.externals = {"pathlib.Path": path, "tomli.load": toml_load, "yaml.safe_load": yaml_load}
        self.callees = {"ladim.configure.configure_v2": v2, "ladim.configure.configure_v1": v1}

    def inputs(self, cx):
        return Args(config_file="<configuration file>")

    def expected_version(self):
        if self.version_key is not None and str(self.version_key) != "0":
            return str(self.version_key)[0]
        return "1" if self.v1_shape else "2"

    def raises(self, cx, a):
        ev = self.expected_version()
        cond = z3.Or(z3.Not(z3.Bool("config_file_exists")), z3.Not(z3.Bool("file_parses")))
        if ev == "2":
            cond = z3.Or(cond, z3.Not(z3.Bool("mandatory_sections_present")))
        elif ev != "1":
            cond = z3.BoolVal(True)
        return [(cond, "SystemExit")]

    def model(self, cx, a):
        return NotImplemented

    def ensures(self, cx, a, result):
        ev = self.expected_version()
        tr = list(cx.trace)
        parse = [e for e in tr if e[0] == "parse"]
        out = [("C18: the file is parsed once, as TOML exactly when its suffix is .toml (binary mode), as YAML otherwise", len(parse) == 1 and parse[0][1] == ("toml" if self.suffix == ".toml" else "yaml") and (parse[0][2] == "rb" if self.suffix == ".toml" else True))]
        calls = [e[0] for e in tr if e[0].startswith("configure_v")]
        out.append((f"C18: the dictionary goes to the version-{ev} translator and to no other", calls == [f"configure_v{ev}"]))
        if ev == "2":
            out.append(("C18: a version-2 dictionary is completed in place and returned", isinstance(result, dict) and result.get("_v2_done") is True))
        else:
            out.append(("C18: a version-1 file yields the translated version-2 dictionary", isinstance(result, dict) and "_translated_from" in result))
        return out


CONFIGURE_UNITS = [Configure(sfx, vk, v1s) for sfx in (".yaml", ".toml", "") for vk, v1s in ((None, False), (None, True), (2, False), ("2.0", True), (1, True), ("1.2", False), (3, False), (0, True))]


# ---------------------------------------------------------------- the grid file defaulted from a WILDCARD forcing name
# Ghost directory (fixed contents per unit, stated in the unit name). Assumed contracts, as documented for the standard
# library: Path(dir).glob(name) yields every entry of dir matching name, hidden ones (leading dot) included, in
# arbitrary order - this is also what the forcing module's find_files uses, so its sorted first element is "the first
# forcing file"; glob.glob(pattern) yields the matches EXCEPT hidden entries when the name part starts with a wildcard.

WILD_PATTERN = "data/*_avg.nc"
WILD_LISTINGS = {"a hidden first match": ["run_avg.nc", ".spinup_avg.nc", "b_avg.nc"], "ordinary matches": ["run_avg.nc", "a_avg.nc"], "no match": []}


class WildPath(ModelObject):
    def __init__(self, value):
        self.value = value.value if isinstance(value, WildPath) else value

    def pv_str(self, cx):
        return self.value

    def __eq__(self, other):
        return isinstance(other, (str, WildPath)) and (other.value if isinstance(other, WildPath) else other) == self.value

    def __hash__(self):
        return hash(self.value)

    def __lt__(self, other):
        return self.value < (other.value if isinstance(other, WildPath) else other)

    def __repr__(self):
        return f"Path({self.value!r})"

    def pv_compare(self, cx, actual, label, kind):
        # a file name is compared by its text (str or Path: both are accepted by the grid module)
        got = actual.value if isinstance(actual, WildPath) else actual
        cx.oblige(f"{label} == {self.value!r} (the first forcing file as the forcing module's own search sorts it; got {got!r})", isinstance(got, str) and got == self.value, kind=kind)

    def pv_getattr(self, cx, name):
        d, _, base = self.value.rpartition("/")
        if name == "name":
            return base
        if name == "parent":
            return WildPath(d or ".")
        if name == "glob":
            me = self

            def glob(interp, pat):
                lst = interp.cx.ghost["wild_listing"]
                if me.value != "data" or pat != "*_avg.nc":
                    raise Unsupported("Path.glob of another directory or pattern than the forcing file name's")
                return [WildPath(f"data/{f}") for f in lst]

            glob._pyvc_model = True
            return glob
        raise Unsupported(f"Path.{name}")


def _wild_externals():
    def path(interp, x):
        return WildPath(x) if isinstance(x, (str, WildPath)) else x

    def glob_glob(interp, pat, **kw):
        if kw or (pat.value if isinstance(pat, WildPath) else pat) != WILD_PATTERN:
            raise Unsupported("glob.glob of another pattern than the forcing file name")
        return [f"data/{f}" for f in interp.cx.ghost["wild_listing"] if not f.startswith(".")]

    return {"pathlib.Path": path, "glob.glob": glob_glob}


def _first_forcing_file(listing):
    return WildPath(sorted(f"data/{f}" for f in listing)[0] if listing else WILD_PATTERN)


class ConfigureV2Wild(ConfigureV2):
    """configure_v2 without a grid file and a wildcard forcing name: the grid file is the FIRST forcing file, i.e. the
    first in sorted order of what Path.glob (the forcing module's own file search) matches; the pattern itself when
    nothing matches."""

    def __init__(self, listing):
        super().__init__(set(), False, False, ())
        self.listing = listing
        self.name = f"configure_v2[no grid section, wildcard forcing name, directory with {listing}: {WILD_LISTINGS[listing]}]"
        self.externals = _wild_externals()

    def build(self):
        c = super().build()
        c["forcing"]["filename"] = WILD_PATTERN
        return c

    def inputs(self, cx):
        cx.ghost["wild_listing"] = list(WILD_LISTINGS[self.listing])
        return Args(config=self.build())

    def model(self, cx, a):
        super().model(cx, a)
        a.config["grid"]["filename"] = _first_forcing_file(WILD_LISTINGS[self.listing])
        return None


class ConfigureV1Wild(ConfigureV1):
    """the same for a legacy file without gridfile"""

    def __init__(self, listing, inputfile):
        super().__init__(None, inputfile, False, False, False, False, False, False)
        self.listing = listing
        self.name = f"configure_v1[no gridfile, wildcard input_file in {inputfile}, directory with {listing}: {WILD_LISTINGS[listing]}]"
        self.externals = _wild_externals()

    def build(self):
        c = super().build()
        c[self.o["inputfile"]]["input_file"] = WILD_PATTERN
        return c

    def inputs(self, cx):
        cx.ghost["wild_listing"] = list(WILD_LISTINGS[self.listing])
        return Args(config=self.build())

    def model(self, cx, a):
        out = super().model(cx, a)
        out["forcing"]["filename"] = WILD_PATTERN
        out["grid"]["filename"] = _first_forcing_file(WILD_LISTINGS[self.listing])
        return out


WILD_UNITS = [ConfigureV2Wild(k) for k in WILD_LISTINGS] + [ConfigureV1Wild(k, sec) for k in ("a hidden first match", "ordinary matches") for sec in ("gridforce", "files")]
