"""Contracts for ladim/out_netcdf.py (C06, C07). The NetCDF file is ghost state: per variable a content
function over its index and the extent of its unlimited axis.

Assumed netCDF4 contract: ``v[a:b] = arr`` sets v[a+k] = arr[k], extends the unlimited axis to b and leaves the
rest; ``v[r] = x`` sets one element (extent max(extent, r+1)); ``v[r, mask] = arr`` sets row r at the true positions
in order; ``v[:n] = arr`` as the slice rule.
"""
from __future__ import annotations

import z3

from pyvc import values as V
from pyvc.interp import ForallP, ModelObject, Obj, UnivFact
from pyvc.numpy_model import make_filtered
from pyvc.spec import Args, Spec
from pyvc.values import Arr, Filtered, PyRaise, Unsupported, sym_array

from .common import make_state
from .state import EXTRA_I, EXTRA_P, Compactify
from .timekeeper import make_timer, time_at

R = z3.RealVal


class NcVar(ModelObject):
    def __init__(self, name, ndim, kind="real", prefix=""):
        self.name = name
        self.ndim = ndim
        self.kind = kind
        sort = {"real": z3.RealSort(), "int": z3.IntSort()}[kind]
        self.decl = z3.Function(f"{prefix}file_{name}", *([z3.IntSort()] * ndim), sort)
        d = self.decl
        self.fn = lambda *idx: V.app(d, *idx)
        self.extent = z3.Int(f"{prefix}extent_{name}")
        self.nwrites = 0

    def pv_setattr(self, cx, name, val):
        return None

    def pv_getattr(self, cx, name):
        raise Unsupported(f"netCDF variable attribute {name}: no assumed contract")

    def _cast(self, x):
        return V.cast_kind(x, self.kind) if self.kind == "real" else V.as_num(x)

    def pv_setitem(self, cx, idx, val):
        self.nwrites += 1
        old = self.fn
        if self.ndim == 1:
            if isinstance(idx, slice):
                a = 0 if idx.start is None else idx.start
                b = idx.stop
                if b is None:
                    raise Unsupported("open-ended slice write to a netCDF variable")
                if isinstance(val, Arr):
                    c = V.s_cmp("==", val.shape[0], V.s_binop("-", b, a))
                    if c is not True:
                        cx.oblige(f"netCDF slice write to {self.name}: len(value) == stop - start", c, kind="pre")
                    fv = val.fn
                    cast = self._cast
                    self.fn = V.memo(lambda i: V.s_ite(V.s_and(V.s_cmp("<=", a, i), V.s_cmp("<", i, b)), cast(fv(V.s_binop("-", i, a))), old(i)))
                else:
                    cast = self._cast
                    self.fn = V.memo(lambda i: V.s_ite(V.s_and(V.s_cmp("<=", a, i), V.s_cmp("<", i, b)), cast(val), old(i)))
                cx.oblige(f"netCDF slice write to {self.name}: 0 <= start <= stop", V.s_and(V.s_cmp("<=", 0, a), V.s_cmp("<=", a, b)), kind="index")
                self.extent = V.s_max(self.extent, b)
                return
            r = idx
            cx.oblige(f"netCDF element write to {self.name}: index >= 0", V.s_cmp(">=", r, 0), kind="index")
            cast = self._cast
            if isinstance(val, Arr):
                raise Unsupported("array stored into one netCDF element")
            self.fn = V.memo(lambda i: V.s_ite(V.s_cmp("==", i, r), cast(val), old(i)))
            self.extent = V.s_max(self.extent, V.s_binop("+", r, 1))
            return
        if self.ndim == 2 and isinstance(idx, tuple) and len(idx) == 2:
            r, sel = idx
            cx.oblige(f"netCDF row write to {self.name}: record index >= 0", V.s_cmp(">=", r, 0), kind="index")
            cast = self._cast
            if isinstance(sel, Arr) and sel.kind == "bool":
                if not isinstance(val, Filtered):
                    raise Unsupported("dense row write of an uncompressed array")
                mfn = sel.fn
                sfn = val.src_fn
                cx.oblige(f"dense write to {self.name}: value compressed with a mask of the same length", V.s_cmp("==", val.mask.shape[0], sel.shape[0]), kind="pre")
                vm = val.mask.fn
                p = cx.fresh("p")
                cx.oblige(f"dense write to {self.name}: selection mask equals the value's mask", z3.Implies(z3.And(p >= 0, p < V.to_z3(sel.shape[0])), V.to_z3(mfn(p)) == V.to_z3(vm(p))), kind="pre")
                self.fn = V.memo(lambda t, q: V.s_ite(V.s_and(V.s_cmp("==", t, r), V.s_and(V.s_and(V.s_cmp(">=", q, 0), V.s_cmp("<", q, sel.shape[0])), mfn(q))), cast(sfn(q)), old(t, q)))
                self.extent = V.s_max(self.extent, V.s_binop("+", r, 1))
                return
            if isinstance(sel, slice) and sel.start is None and sel.stop is None and isinstance(val, Arr):
                fv = val.fn
                nv = val.shape[0]
                self.fn = V.memo(lambda t, q: V.s_ite(V.s_and(V.s_cmp("==", t, r), V.s_and(V.s_cmp(">=", q, 0), V.s_cmp("<", q, nv))), cast(fv(q)), old(t, q)))
                self.extent = V.s_max(self.extent, V.s_binop("+", r, 1))
                return
        raise Unsupported(f"netCDF write form on {self.name}")

    def pv_compare(self, cx, actual, label, kind):
        if not isinstance(actual, NcVar) or actual.ndim != self.ndim:
            cx.oblige(f"{label}: netCDF variable", False, kind=kind)
            return
        idx = [cx.fresh("r") for _ in range(self.ndim)]
        cx.oblige(f"{label}: file content equals the specified content at every index", V.s_cmp("==", actual.fn(*idx), self.fn(*idx)), kind=kind)
        cx.oblige(f"{label}: extent of the unlimited axis", V.s_cmp("==", actual.extent, self.extent), kind=kind)


class NcFile(ModelObject):
    def __init__(self, variables, prefix=""):
        self.variables = variables
        self.open = True
        self.events = []

    def pv_getattr(self, cx, name):
        if name == "variables":
            return self.variables
        me = self
        if name == "sync":
            f = lambda interp: None  # noqa: E731
        elif name == "close":

            def f(interp):
                cx.oblige("netCDF close: the file is open", me.open is True, kind="pre")
                me.open = False
                me.events.append("close")

        elif name == "isopen":
            f = lambda interp: me.open  # noqa: E731
        else:
            raise Unsupported(f"netCDF dataset attribute {name}: no assumed contract")
        f._pyvc_model = True
        return f

    def pv_compare(self, cx, actual, label, kind):
        if not isinstance(actual, NcFile):
            cx.oblige(f"{label}: an open netCDF dataset", False, kind=kind)
            return
        cx.oblige(f"{label}: open/closed state", actual.open == self.open, kind=kind)
        cx.oblige(f"{label}: set of variables", set(actual.variables) == set(self.variables), kind=kind)
        for k in self.variables:
            if k in actual.variables:
                self.variables[k].pv_compare(cx, actual.variables[k], f"{label}.{k}", kind)


INSTANCE_OUT = ["pid", "X", "xi"]  # instance variables configured for output (generic: an id, a position, an extra)
PARTICLE_OUT = ["xp"]


def make_file(layout, prefix=""):
    vs = {"time": NcVar("time", 1, prefix=prefix)}
    if layout == "sparse":
        vs["particle_count"] = NcVar("particle_count", 1, "int", prefix=prefix)
        for v in INSTANCE_OUT:
            vs[v] = NcVar(v, 1, "int" if v == "pid" else "real", prefix=prefix)
    else:
        for v in INSTANCE_OUT:
            if v != "pid":
                vs[v] = NcVar(v, 2, prefix=prefix)
    for v in PARTICLE_OUT:
        vs[v] = NcVar(v, 1, prefix=prefix)
    return NcFile(vs, prefix)


ll_lon = z3.Function("xy2ll_lon", z3.RealSort(), z3.RealSort(), z3.RealSort())
ll_lat = z3.Function("xy2ll_lat", z3.RealSort(), z3.RealSort(), z3.RealSort())


def xy2ll_model(interp, X, Y):
    """grid.xy2ll as the output module sees it (its own contract: contracts/sample.XY2LL): pointwise in the position."""
    fx, fy = X.fn, Y.fn
    return (Arr(X.shape, lambda k: ll_lon(fx(k), fy(k)), "real"), Arr(X.shape, lambda k: ll_lat(fx(k), fy(k)), "real"))


xy2ll_model._pyvc_model = True


class FileNames(ModelObject):
    """The filename generator: ghost counter of names handed out."""

    def __init__(self):
        self.taken = 0

    def pv_next(self, cx):
        self.taken += 1
        return f"<file name #{self.taken}>"

    def pv_compare(self, cx, actual, label, kind):
        cx.oblige(f"{label}: number of file names taken == {self.taken}", isinstance(actual, FileNames) and actual.taken == self.taken, kind=kind)


def make_output(cx, layout, n=None):
    timer = make_timer(cx)
    n = n if n is not None else z3.Int("n")
    state = make_state(cx, n, extra_instance=EXTRA_I, extra_particle=EXTRA_P)
    cx.assume(V.to_z3(n) >= 0)
    cx.assume(state.attrs["npid"] >= V.to_z3(n))
    rc, lrc, ic, lic, numrec, num_records, lnr = z3.Ints("record_count local_record_count instance_count local_instance_count numrec num_records local_num_records")
    ivars = {v: dict() for v in INSTANCE_OUT if not (layout == "dense" and v == "pid")}
    out = Obj(
        "ladim.out_netcdf.Output",
        modules=dict(time=timer, state=state),
        timer=timer,
        layout=layout,
        instance_variables=ivars,
        particle_variables={v: dict() for v in PARTICLE_OUT},
        skip_initial=False,
        record_count=rc,
        local_record_count=lrc,
        instance_count=ic,
        local_instance_count=lic,
        numrec=numrec,
        num_records=num_records,
        local_num_records=lnr,
        nc=make_file(layout),
        lonlat=False,
        time_unit="s",
        nctime=z3.Real("out_nctime"),
        output_period=z3.Int("output_period"),
        output_period_step=z3.Int("output_period_step"),
        filenames=FileNames(),
        filename="<file name #0>",
        multifile=True,
    )
    # established by __init__ (proved there: OutputInitRecords): period in steps >= 1, stored period = +-steps*dt
    ta = timer.attrs
    cx.assume(z3.And(out.attrs["output_period_step"] >= 1, out.attrs["output_period"] == z3.If(ta["time_reversal"], -1, 1) * out.attrs["output_period_step"] * ta["dt"]))
    return out


class WritePV(Spec):
    """write_particle_variables: for EVERY pid released so far (0 <= pid < npid) file.pv[pid] == state.pv[pid]."""

    func = "ladim.out_netcdf.Output.write_particle_variables"
    properties = ("C06", "C07", "C08")
    inline = ("ladim.state.State.__getattr__", "ladim.state.State.__getitem__", "ladim.state.State.__len__")

    def __init__(self, layout="sparse", time_typed=False):
        self.layout = layout
        self.time_typed = time_typed
        self.name = f"Output.write_particle_variables[{layout}{', time-typed particle variable' if time_typed else ''}]"

    def inputs(self, cx):
        out = make_output(cx, self.layout)
        st = out.attrs["modules"]["state"]
        if self.time_typed:
            from pyvc.numpy_model import DType

            npid = st.attrs["npid"]
            st.attrs["variables"]["xp"] = sym_array("st_xp_time", (npid,), "int")
            st.attrs["dtypes"]["xp"] = DType("int", "M8[s]")
        return Args(self=out, state=st)

    def requires(self, cx, a):
        from .state import wf_items

        st = a.state
        items = [(lab, f) for lab, f in wf_items(st) if "len(" in lab or "pid" in lab]
        return items

    def model(self, cx, a):
        st = a.state
        npid = st.attrs["npid"]
        nc = a.self.attrs["nc"]
        ref = a.self.attrs["timer"].attrs["reference_time"]
        for v in PARTICLE_OUT:
            arr = st.attrs["variables"][v]
            fn = arr.fn
            if self.time_typed:
                # time-typed variables are stored as seconds since the reference time
                nc.variables[v].pv_setitem(cx, slice(None, npid), Arr((npid,), lambda p: z3.ToReal(fn(p) - ref), "real"))
            else:
                nc.variables[v].pv_setitem(cx, slice(None, npid), Arr((npid,), fn, arr.kind))
        return None

    def compare_roots(self, a, b, result):
        return [("C06: particle variables stored at index pid for every particle released so far" + (" (time-typed: seconds since the reference time)" if self.time_typed else ""), a.self.attrs["nc"], b.self.attrs["nc"])]


class CreateNetcdf(Spec):
    """create_netcdf as seen by write: a fresh empty file; local_num_records = min(numrec, num_records - record_count)."""

    func = "ladim.out_netcdf.Output.create_netcdf"

    def model(self, cx, a):
        t = a.self.attrs
        t["_ghost_files_created"] = t.get("_ghost_files_created", 0) + 1
        k = t["_ghost_files_created"]
        t["local_num_records"] = V.s_min(t["numrec"], V.s_binop("-", t["num_records"], t["record_count"]))
        f = make_file(t["layout"], prefix=f"new{k}_")
        for v in f.variables.values():
            v.extent = 0
        return f


class TimerNcTime(Spec):
    func = "ladim.timekeeper.TimeKeeper.nctime"

    def model(self, cx, a):
        t = a.self.attrs
        return z3.ToReal(t["time"] - t["reference_time"])


class Write(Spec):
    """Output.write: one faithful record, cursors advanced, roll-over to the next file when the file is full."""

    func = "ladim.out_netcdf.Output.write"
    properties = ("C06", "C07", "C05", "C14")
    inline = ("ladim.state.State.__getattr__", "ladim.state.State.__getitem__", "ladim.state.State.__len__")

    def __init__(self, layout, lonlat=False):
        self.layout = layout
        self.lonlat = lonlat
        self.name = f"Output.write[{layout}{', lon/lat requested' if lonlat else ''}]"
        self.callees = {
            "ladim.state.State.compactify": Compactify(),
            "ladim.out_netcdf.Output.write_particle_variables": WritePV(layout),
            "ladim.out_netcdf.Output.create_netcdf": CreateNetcdf(),
            "ladim.timekeeper.TimeKeeper.nctime": TimerNcTime(),
        }

    def inputs(self, cx):
        out = make_output(cx, self.layout)
        if self.lonlat:
            out.attrs["lonlat"] = True
            out.attrs["xy2ll"] = xy2ll_model
            for nm in ("lon", "lat"):
                out.attrs["nc"].variables[nm] = NcVar(nm, 1 if self.layout == "sparse" else 2)
        return Args(self=out, state=out.attrs["modules"]["state"])

    def call_args(self, a):
        return [a.self, a.state], {}

    def requires(self, cx, a):
        from .state import monotone_fact, wf_items

        t = a.self.attrs
        nc = t["nc"]
        st = a.state
        monotone_fact(cx, st)
        items = list(wf_items(st))
        items += [
            ("cursor invariant: 0 <= local_record_count < local_num_records <= numrec", z3.And(t["local_record_count"] >= 0, t["local_record_count"] < t["local_num_records"], t["local_num_records"] <= t["numrec"])),
            ("cursor invariant: 0 <= record_count < num_records", z3.And(t["record_count"] >= 0, t["record_count"] < t["num_records"])),
            ("cursor invariant: local_num_records == min(numrec, num_records - (record_count - local_record_count))", t["local_num_records"] == z3.If(t["numrec"] < t["num_records"] - (t["record_count"] - t["local_record_count"]), t["numrec"], t["num_records"] - (t["record_count"] - t["local_record_count"]))),
            ("cursor invariant: time axis holds local_record_count records", nc.variables["time"].extent == t["local_record_count"]),
            ("local_instance_count >= 0", t["local_instance_count"] >= 0),
        ]
        if self.layout == "sparse":
            items.append(("cursor invariant: particle_count holds local_record_count records", nc.variables["particle_count"].extent == t["local_record_count"]))
            for v in INSTANCE_OUT + (["lon", "lat"] if self.lonlat else []):
                items.append((f"cursor invariant: {v} holds local_instance_count instances", nc.variables[v].extent == t["local_instance_count"]))
        if self.layout == "dense":
            items.append(("dense layout: the state is never compactified, index == pid", ForallP(st.attrs["variables"]["pid"].shape[0], lambda k: st.attrs["variables"]["pid"].fn(k) == k)))
        return items

    def model(self, cx, a):
        t = a.self.attrs
        st = a.state
        nc = t["nc"]
        v = st.attrs["variables"]
        timer = t["timer"].attrs
        lrc = t["local_record_count"]
        nc.variables["time"].pv_setitem(cx, lrc, z3.ToReal(timer["time"] - timer["reference_time"]))
        alive = v["alive"]
        if self.layout == "sparse":
            Compactify().model(cx, Args(self=st))
            v = st.attrs["variables"]
            count = v["pid"].shape[0]
            start = t["local_instance_count"]
            nc.variables["particle_count"].pv_setitem(cx, lrc, count)
            for name in INSTANCE_OUT:
                nc.variables[name].pv_setitem(cx, slice(start, V.s_binop("+", start, count)), v[name])
            if self.lonlat:
                fx, fy = v["X"].fn, v["Y"].fn
                nc.variables["lon"].pv_setitem(cx, slice(start, V.s_binop("+", start, count)), Arr((count,), lambda k: ll_lon(fx(k), fy(k)), "real"))
                nc.variables["lat"].pv_setitem(cx, slice(start, V.s_binop("+", start, count)), Arr((count,), lambda k: ll_lat(fx(k), fy(k)), "real"))
            t["instance_count"] = V.s_binop("+", t["instance_count"], count)
            t["local_instance_count"] = V.s_binop("+", start, count)
        else:
            for name in INSTANCE_OUT:
                if name == "pid":
                    continue
                nc.variables[name].pv_setitem(cx, (lrc, alive), make_filtered(cx, v[name], alive))
        t["record_count"] = t["record_count"] + 1
        t["local_record_count"] = lrc + 1
        t["nctime"] = t["nctime"] + z3.ToReal(t["output_period"])
        if cx.decide(t["local_record_count"] == t["local_num_records"]):
            WritePV(self.layout).model(cx, Args(self=a.self, state=st))
            nc.open = False
            nc.events.append("close")
            if cx.decide(t["record_count"] < t["num_records"]):
                t["filename"] = t["filenames"].pv_next(cx)
                t["nc"] = CreateNetcdf().model(cx, Args(self=a.self))
                t["local_instance_count"] = 0
                t["local_record_count"] = 0
        return None

    def compare_roots(self, a, b, result):
        ta, tb = a.self.attrs, b.self.attrs
        keys = ["record_count", "local_record_count", "instance_count", "local_instance_count", "local_num_records", "filenames", "nctime"]
        out = [(f"C07: cursor {k}", ta[k], tb[k]) for k in keys]
        out.append(("C06: the file written to", a._file0, b._file0))
        out.append(("C07: the current file after the record", ta["nc"], tb["nc"]))
        out.append(("C05/C06: state after the record", a.state.attrs["variables"], b.state.attrs["variables"]))
        return out

    def ensures(self, cx, a, result):
        t = a.self.attrs
        out = []
        if self.layout == "sparse":
            st = a.state
            v = st.attrs["variables"]
            pid = v["pid"].fn
            n = v["pid"].shape[0]
            out.append(("C05: pids of the record strictly increasing with pid[k] >= k", ForallP(n, lambda k: z3.And(pid(k) >= k, z3.Implies(k >= 1, pid(k - 1) < pid(k))))))
            pre = make_state(cx, z3.Int("n"), extra_instance=EXTRA_I, extra_particle=EXTRA_P).attrs["variables"]
            f0 = make_filtered(cx, pre["alive"], pre["alive"])
            out.append(("C06: the record holds only alive particles", ForallP(n, lambda k: (v["alive"].fn(k), [f0.g(k) == f0.g(k)]))))
        return out


def _wrap_inputs(cls):
    orig = cls.inputs

    def inputs(self, cx):
        a = orig(self, cx)
        a._file0 = a.self.attrs["nc"]
        return a

    cls.inputs = inputs


_wrap_inputs(Write)


class OutputUpdate(Spec):
    """Output.update writes exactly when step is a multiple of the output period (in steps)."""

    func = "ladim.out_netcdf.Output.update"
    name = "Output.update"
    properties = ("C07", "C19")
    inline = ()

    def inputs(self, cx):
        out = Obj("ladim.out_netcdf.Output", modules=dict(time=Obj(None, step=z3.Int("step"), time=z3.Int("t")), state=Obj(None)), output_period_step=z3.Int("ops"), skip_initial=z3.Bool("skip_initial"))
        out.attrs["_ghost_writes"] = 0
        cx.assume(z3.And(out.attrs["output_period_step"] >= 1, out.attrs["modules"]["time"].attrs["step"] >= 0))
        return Args(self=out)

    callees = {}

    def __init__(self):
        spec = self

        def write(interp, args, kwargs):
            args[0].attrs["_ghost_writes"] += 1
            return None

        self.callees = {"ladim.out_netcdf.Output.write": write}

    def model(self, cx, a):
        return NotImplemented

    def ensures(self, cx, a, result):
        t = a.self.attrs
        step, ops = t["modules"]["time"].attrs["step"], t["output_period_step"]
        due = z3.And(step - ops * (step / ops) == 0, z3.Not(z3.And(t["skip_initial"], step == 0)))
        w = t["_ghost_writes"]
        return [("C07/C08: a record is written iff step is a multiple of the output period in steps (and it is not the skipped initial record)", z3.And(z3.Implies(due, w == 1), z3.Implies(z3.Not(due), w == 0)) if False else (z3.If(due, z3.IntVal(1), z3.IntVal(0)) == w))]


class OutputInitRecords(Spec):
    """Record arithmetic of Output.__init__: output_period_step == period/dt, num_records == number of output times in [start, stop)."""

    func = "ladim.out_netcdf.Output.__init__"
    properties = ("C07", "C10")
    inline = ("ladim.timekeeper.normalize_period", "ladim.output.BaseOutput.__init__")

    def __init__(self, numrec_given):
        self.numrec_given = numrec_given
        self.name = f"Output.__init__[numrec {'> 0' if numrec_given else '== 0'}]"

        def create(interp, args, kwargs):
            args[0].attrs["local_num_records"] = V.s_min(args[0].attrs["numrec"], V.s_binop("-", args[0].attrs["num_records"], args[0].attrs["record_count"]))
            return make_file("sparse")

        def fgen(interp, args, kwargs):
            return FileNames()

        def step2nctime(interp, args, kwargs):
            return z3.Real("nct0")

        def cf_units(interp, args, kwargs):
            return "<units>"

        self.callees = {
            "ladim.out_netcdf.Output.create_netcdf": create,
            "ladim.out_netcdf.filename_generator": fgen,
            "ladim.timekeeper.TimeKeeper.step2nctime": step2nctime,
            "ladim.timekeeper.TimeKeeper.cf_units": cf_units,
        }

    def inputs(self, cx):
        timer = make_timer(cx)
        period = z3.Int("period")
        ops = z3.Int("ops_given")
        nsteps = z3.Int("nsteps_given")
        t = timer.attrs
        # valid combination: period a positive multiple of dt, duration a whole number of steps
        cx.assume(z3.And(ops >= 1, period == ops * t["dt"], nsteps >= 1, z3.If(t["time_reversal"], t["start_time"] - t["stop_time"], t["stop_time"] - t["start_time"]) == nsteps * t["dt"]))
        a = Args(
            self=Obj("ladim.out_netcdf.Output"),
            modules=dict(time=timer, grid=Obj(None)),
            filename="out.nc",
            output_period=period,
            instance_variables=dict(pid=dict(), X=dict()),
            particle_variables=None,
            layout="sparse",
            ncargs=None,
            numrec=z3.Int("numrec") if self.numrec_given else 0,
            skip_initial=z3.Bool("skip_initial"),
            global_attributes=None,
        )
        if self.numrec_given:
            cx.assume(a.numrec >= 1)
        a._ops, a._nsteps = ops, nsteps
        return a

    def call_args(self, a):
        keys = ["modules", "filename", "output_period", "instance_variables", "particle_variables", "layout", "ncargs", "numrec", "skip_initial", "global_attributes"]
        return [a.self], {k: a[k] for k in keys}

    def model(self, cx, a):
        return NotImplemented

    def ensures(self, cx, a, result):
        t = a.self.attrs
        ops, nsteps = a._ops, a._nsteps
        ceil = (nsteps + ops - 1) / ops - z3.If(a.skip_initial, 1, 0)
        out = [
            ("C07: output period in steps == period / dt", V.s_cmp("==", t.get("output_period_step", -1), ops)),
            ("C07/C08: number of records == number of output times start + k*period in [start, stop) == ceil(Nsteps / period_steps), minus the skipped initial one", V.s_cmp("==", t.get("num_records", -1), ceil)),
            ("C07: cursors start at zero", z3.And(*[V.to_z3(V.s_cmp("==", t.get(k, -1), 0)) for k in ("record_count", "instance_count", "local_record_count", "local_instance_count")])),
            ("C10: stored output period is negative exactly when time is reversed", V.s_cmp("==", t.get("output_period", 0), z3.If(a.modules["time"].attrs["time_reversal"], -a.output_period, a.output_period))),
        ]
        return out


OUTPUT_UNITS = [Write("sparse"), Write("dense"), Write("sparse", lonlat=True), WritePV("sparse"), WritePV("sparse", time_typed=True), OutputUpdate(), OutputInitRecords(True), OutputInitRecords(False)]
