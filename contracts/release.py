"""Contracts for ladim/release.py (C04): update / __next__ over abstract release groups.

pandas is external: a release group is a ghost table (rows with a multiplicity and column values); the assumed
pandas/numpy contracts are: ``to_records(index=False).repeat(mult)`` repeats row i mult[i] times keeping the row
order, ``DataFrame(records)`` keeps columns and rows, ``drop('mult', axis=1, inplace=True)`` removes that column,
``**frame`` passes each remaining column as a keyword.
"""
from __future__ import annotations

import z3

from pyvc import values as V
from pyvc.interp import ModelObject, Obj, UnivFact
from pyvc.spec import Args, Spec
from pyvc.values import Arr, PyRaise, Unsupported

from .roms_forcing import SymSeq

COLS = ["X", "Y", "Z", "extra"]


class Group(ModelObject):
    """Release group g: nrows(g) rows; col(g, name, i); mult(g, i) >= 0; cum(g, i) = sum of mult over rows < i."""

    def __init__(self, cx, g, cols=None, with_mult=True, repeated=False):
        self.g = V.to_z3(g)
        self.cols = list(cols if cols is not None else COLS)
        self.with_mult = with_mult
        self.repeated = repeated  # rows already repeated mult times
        self.cx = cx

    nrows_f = z3.Function("grp_nrows", z3.IntSort(), z3.IntSort())
    mult_f = z3.Function("grp_mult", z3.IntSort(), z3.IntSort(), z3.IntSort())
    cum_f = z3.Function("grp_cum", z3.IntSort(), z3.IntSort(), z3.IntSort())
    rep_f = z3.Function("grp_rep", z3.IntSort(), z3.IntSort(), z3.IntSort())
    col_f = {c: z3.Function(f"grp_{c}", z3.IntSort(), z3.IntSort(), z3.RealSort()) for c in COLS}

    def total(self):
        return Group.cum_f(self.g, Group.nrows_f(self.g))

    def length(self):
        return self.total() if self.repeated else Group.nrows_f(self.g)

    def column(self, name):
        g = self.g
        f = Group.col_f[name]
        if self.repeated:
            return Arr((self.total(),), lambda k: f(g, Group.rep_f(g, V.to_z3(k))), "real")
        return Arr((Group.nrows_f(g),), lambda i: f(g, V.to_z3(i)), "real")

    def pv_len(self, cx):
        return self.length()

    def pv_getattr(self, cx, name):
        me = self
        if name == "mult":
            if not self.with_mult:
                raise PyRaise("AttributeError", ("mult",))
            return MultCol(self)
        if name == "to_records":

            def to_records(interp, index=True):
                if index is not False:
                    raise Unsupported("to_records(index=True)")
                return Records(me)

            to_records._pyvc_model = True
            return to_records
        if name == "drop":

            def drop(interp, label, axis=0, inplace=False):
                if label != "mult" or axis != 1 or inplace is not True:
                    raise Unsupported("DataFrame.drop form")
                if not me.with_mult:
                    raise PyRaise("KeyError", ("mult",))
                me.with_mult = False
                return None

            drop._pyvc_model = True
            return drop
        raise Unsupported(f"DataFrame.{name}")

    def pv_mapping(self, cx):
        d = {c: self.column(c) for c in self.cols}
        if self.with_mult:
            g = self.g
            d["mult"] = Arr((self.length(),), lambda k: Group.mult_f(g, Group.rep_f(g, V.to_z3(k)) if self.repeated else V.to_z3(k)), "int")
        return d

    def pv_compare(self, cx, actual, label, kind):
        ok = isinstance(actual, Group) and actual.repeated == self.repeated and actual.with_mult == self.with_mult and actual.cols == self.cols
        cx.oblige(f"{label}: a frame with the rows {'repeated mult times' if self.repeated else 'as in the file'}, columns {self.cols}{' + mult' if self.with_mult else ''}", ok, kind=kind)
        if ok:
            cx.oblige(f"{label}: rows of the group scheduled for this step", actual.g == self.g, kind=kind)


class MultCol(ModelObject):
    """The mult column of a group (a pandas Series): supports max()/sum() as symbolic reductions."""

    def __init__(self, grp):
        self.grp = grp

    def pv_getattr(self, cx, name):
        g = self.grp.g
        if name == "max":

            def mx(interp):
                m = cx.fresh("maxmult")
                w = cx.fresh("argmaxmult")
                n = Group.nrows_f(g)
                cx.assume(z3.Implies(n > 0, z3.And(w >= 0, w < n, Group.mult_f(g, w) == m)))
                cx.univ.append(UnivFact(1, lambda i: z3.Implies(z3.And(i >= 0, i < n), Group.mult_f(g, i) <= m)))
                return m

            mx._pyvc_model = True
            return mx
        if name == "sum":
            f = lambda interp: self.grp.total()  # noqa: E731
            f._pyvc_model = True
            return f
        raise Unsupported(f"Series.{name}")


class Records(ModelObject):
    def __init__(self, grp):
        self.grp = grp

    def pv_getattr(self, cx, name):
        me = self
        if name == "repeat":

            def repeat(interp, m):
                if not (isinstance(m, MultCol) and m.grp is me.grp):
                    raise Unsupported("repeat by something else than the group's own mult column")
                return Records(Group(cx, me.grp.g, me.grp.cols, me.grp.with_mult, repeated=True))

            repeat._pyvc_model = True
            return repeat
        raise Unsupported(f"recarray.{name}")


def dataframe_model(interp, data=None, **kw):
    if isinstance(data, Records):
        g = data.grp
        return Group(interp.cx, g.g, g.cols, g.with_mult, g.repeated)
    raise Unsupported("pd.DataFrame of something else than release records")


class GroupList(ModelObject):
    """self._B: the list of release groups; _B[k] is ghost group number k."""

    def __init__(self, cx, n):
        self.n = n
        self.cx = cx

    def pv_getitem(self, cx, idx):
        cx.oblige("index into the release groups in range", z3.And(V.to_z3(idx) >= 0, V.to_z3(idx) < V.to_z3(self.n)), kind="index")
        return Group(cx, idx)

    def pv_len(self, cx):
        return self.n


class StateSink(ModelObject):
    """The state as the release sees it: append(**columns) is recorded."""

    def __init__(self):
        self.appended = []

    def pv_getattr(self, cx, name):
        if name != "append":
            raise Unsupported(f"state.{name}")
        me = self

        def append(interp, **cols):
            me.appended.append(cols)

        append._pyvc_model = True
        return append


def make_releaser(cx):
    steps = SymSeq(cx, "rsteps")
    idx = z3.Int("_index")
    cnt = z3.Int("_particle_count")
    step = z3.Int("step")
    sink = StateSink()
    r = Obj(
        "ladim.release.ParticleReleaser",
        steps=steps,
        times=Obj(None),
        _B=GroupList(cx, steps.len),
        _index=idx,
        _particle_count=cnt,
        modules=dict(time=Obj(None, step=step), state=sink),
    )
    r.attrs["times"] = TimesLen(steps)
    return r


class TimesLen(ModelObject):
    def __init__(self, steps):
        self.steps = steps

    def pv_len(self, cx):
        return self.steps.len


class ReleaseUpdate(Spec):
    """update: when the model step is a release step, exactly the rows of the group scheduled for that step are
    appended, each repeated mult times in row order, without the mult column; otherwise nothing is appended."""

    func = "ladim.release.ParticleReleaser.update"
    name = "ParticleReleaser.update"
    properties = ("C04", "C14")
    inline = ("ladim.release.ParticleReleaser.__next__",)
    externals = {"pandas.DataFrame": dataframe_model}

    def inputs(self, cx):
        return Args(self=make_releaser(cx))

    def requires(self, cx, a):
        t = a.self.attrs
        steps, idx = t["steps"], t["_index"]
        step = t["modules"]["time"].attrs["step"]
        d = steps.decl
        # class invariant of the releaser: groups are consumed in step order: _index == #{k : steps[k] < step}
        cx.univ.append(UnivFact(1, lambda k: z3.Implies(z3.And(k >= 0, k < steps.len), (d(k) < step) == (k < idx)), decls=[d]))
        return [("0 <= _index <= number of release times", z3.And(idx >= 0, idx <= steps.len)), ("_particle_count >= 0", t["_particle_count"] >= 0)]

    def model(self, cx, a):
        return NotImplemented

    def ensures(self, cx, a, result):
        t = a.self.attrs
        steps, idx0 = t["steps"], z3.Int("_index")
        step = t["modules"]["time"].attrs["step"]
        sink = t["modules"]["state"]
        is_rel = steps.pv_contains(cx, step)
        out = []
        n_app = len(sink.appended)
        out.append(("C04: particles are appended iff the step is a release step", (n_app == 1) == True if cx.decide(is_rel) else n_app == 0))  # noqa: E712
        if n_app == 1:
            cols = sink.appended[0]
            exp = Group(cx, idx0, repeated=True, with_mult=False).pv_mapping(cx)
            out.append(("C04: appended columns are the row's position and extra columns, without mult", set(cols) == set(exp)))
            out.append(("C04: the group released at this step is the one scheduled for this step (steps[_index] == step)", steps.at(idx0) == step))
            for c in sorted(exp):
                if c in cols and isinstance(cols[c], Arr):
                    k = z3.Int("k_row")
                    out.append((f"C04: column {c}: every row repeated mult times in file-row order", z3.And(V.to_z3(V.s_cmp("==", cols[c].shape[0], exp[c].shape[0])), z3.Implies(z3.And(k >= 0, k < V.to_z3(exp[c].shape[0])), cols[c].fn(k) == exp[c].fn(k)))))
            out.append(("C04: counters: _index advanced by one, _particle_count by the number of new particles", z3.And(t["_index"] == idx0 + 1, t["_particle_count"] == z3.Int("_particle_count") + Group(cx, idx0).total())))
        else:
            out.append(("C04: counters unchanged when nothing is released", z3.And(t["_index"] == idx0, t["_particle_count"] == z3.Int("_particle_count"))))
        # invariant for the next step
        d = steps.decl
        k2 = z3.Int("k_any")
        out.append(("C04: releaser invariant kept: _index == #{k : steps[k] < step + 1}", z3.Implies(z3.And(k2 >= 0, k2 < steps.len), (steps.at(k2) < step + 1) == (k2 < t["_index"]))))
        return out


class RepeatLemma:
    pass


RELEASE_UNITS = [ReleaseUpdate()]
