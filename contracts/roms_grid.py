"""Contracts for the particle-facing methods of ladim.ROMS.Grid."""
from __future__ import annotations

import z3

from pyvc import values as V
from pyvc.interp import ForallP
from pyvc.spec import Args, Spec
from pyvc.values import Arr, sym_array

from .common import HALF_R, N, at_sea, cell_index, in_valid, make_grid, particle_arrays, valid_pos


def cell_in_bounds(grid, X, Y):
    """forall p: the nearest-cell indices of (X[p], Y[p]) address an element of the (jmax, imax) arrays."""
    fx, fy = X.fn, Y.fn
    g = grid.attrs

    def body(p):
        J, I = cell_index(grid, fx(p), fy(p))
        return z3.And(I >= 0, I < g["imax"], J >= 0, J < g["jmax"])

    return ForallP(X.shape[0], body)


class _GridXY(Spec):
    properties = ("C09", "C17")

    def inputs(self, cx):
        n = N(cx)
        a = Args(self=make_grid(cx))
        a.update(particle_arrays(n, ["X", "Y"]))
        return a

    def requires(self, cx, a):
        return [
            ("len(Y) == len(X)", V.s_cmp("==", a.Y.shape[0], a.X.shape[0])),
            ("nearest-cell index inside the loaded arrays", cell_in_bounds(a.self, a.X, a.Y)),
        ]

    def lookup(self, a, name):
        grid = a.self
        arr = grid.attrs[name]
        f, fx, fy = arr.fn, a.X.fn, a.Y.fn
        return lambda p: f(*cell_index(grid, fx(p), fy(p)))


class Metric(_GridXY):
    """Grid spacing (dx, dy) of the particle's own cell."""

    func = "ladim.ROMS.Grid.metric"
    name = "Grid.metric"
    properties = ("C01", "C17")

    def model(self, cx, a):
        n = a.X.shape[0]
        return (Arr((n,), self.lookup(a, "dx"), "real"), Arr((n,), self.lookup(a, "dy"), "real"))


class Depth(_GridXY):
    func = "ladim.ROMS.Grid.depth"
    name = "Grid.depth"
    properties = ("C15", "C17")

    def model(self, cx, a):
        return Arr((a.X.shape[0],), self.lookup(a, "H"), "real")


class AtSea(_GridXY):
    func = "ladim.ROMS.Grid.atsea"
    name = "Grid.atsea"

    def model(self, cx, a):
        m = self.lookup(a, "M")
        return Arr((a.X.shape[0],), lambda p: m(p) > 0, "bool")


class OnLand(_GridXY):
    func = "ladim.ROMS.Grid.onland"
    name = "Grid.onland"

    def model(self, cx, a):
        m = self.lookup(a, "M")
        return Arr((a.X.shape[0],), lambda p: m(p) < 1, "bool")


class InGrid(Spec):
    """True exactly for positions in the valid region (half a cell inside the velocity limits)."""

    func = "ladim.ROMS.Grid.ingrid"
    name = "Grid.ingrid"
    properties = ("C09", "C17")

    def inputs(self, cx):
        n = N(cx)
        a = Args(self=make_grid(cx))
        a.update(particle_arrays(n, ["X", "Y"]))
        return a

    def requires(self, cx, a):
        return [("len(Y) == len(X)", V.s_cmp("==", a.Y.shape[0], a.X.shape[0]))]

    def model(self, cx, a):
        fx, fy = a.X.fn, a.Y.fn
        grid = a.self
        return Arr((a.X.shape[0],), lambda p: in_valid(grid, fx(p), fy(p)), "bool")


GRID_SPECS = [Metric(), Depth(), AtSea(), OnLand(), InGrid()]
GRID_CALLEES = {s.func: s for s in GRID_SPECS}
