"""Contract for ParticleReleaser.__init__ (discrete release) over a ghost release table (C04, C20, C10).

pandas is external. Assumed contracts (stated here, exercised by the bounded sweep on the real library):
* ``df[df.index <op> t]`` keeps exactly the rows whose time satisfies the comparison, in order;
* ``len(df)`` is the number of rows; ``df.index.unique()`` lists the distinct times in order of first appearance;
* ``df.groupby(df.index)`` iterates over (time, rows of that time) in ASCENDING time (``sort=False``: first appearance);
* ``list.reverse()`` reverses.
The table is sorted in simulation order (the property's quantifier), so first appearance == simulation order.
"""
from __future__ import annotations

import z3

from pyvc import values as V
from pyvc.interp import ModelObject, Obj, UnivFact
from pyvc.spec import Args, Spec
from pyvc.values import PyRaise, Unsupported

from .timekeeper import make_timer, time2step_spec

row_time_decl = z3.Function("row_time", z3.IntSort(), z3.IntSort())


def row_time(r):
    """time of file row r (applications are logged: they trigger the instantiation of the quantified facts)"""
    return V.app(row_time_decl, r)

nrows = z3.Int("table_nrows")


class Table(ModelObject):
    """Rows r in [0, nrows) of the file with pred(r), in file order."""

    def __init__(self, cx, pred, columns):
        self.cx, self.pred, self.columns = cx, pred, set(columns)
        self.extra_cols = {}
        self._len = None

    def pv_getattr(self, cx, name):
        if name == "columns":
            return set(self.columns)
        if name == "index":
            return Index(self)
        if name == "mult":
            return Opaque("mult column")
        if name == "groupby":
            me = self

            def groupby(interp, key, sort=True):
                if not (isinstance(key, Index) and key.table is me):
                    raise Unsupported("groupby by something else than the table's own index")
                return GroupBy(me, sort)

            groupby._pyvc_model = True
            return groupby
        raise Unsupported(f"DataFrame.{name}")

    def pv_setitem(self, cx, key, val):
        self.columns.add(key)
        self.extra_cols[key] = val

    def pv_getitem(self, cx, key):
        if isinstance(key, Mask) and key.table is self:
            p0, p1 = self.pred, key.pred
            t = Table(cx, lambda r: z3.And(p0(r), p1(r)), self.columns)
            t.extra_cols = dict(self.extra_cols)
            return t
        raise Unsupported("DataFrame item access form")

    def pv_len(self, cx):
        if self._len is None:
            c = cx.fresh("nrows_kept")
            w = cx.fresh("row")
            pred = self.pred
            cx.assume(z3.And(c >= 0, z3.Implies(c > 0, z3.And(w >= 0, w < nrows, pred(w)))))
            cx.univ.append(UnivFact(1, lambda r: z3.Implies(z3.And(c == 0, r >= 0, r < nrows), z3.Not(pred(r))), decls=[row_time_decl]))
            self._len = c
        return self._len


class Opaque(ModelObject):
    def __init__(self, what):
        self.what = what

    def pv_getattr(self, cx, name):
        if name == "sum":
            f = lambda interp: z3.Int("sum_of_" + self.what.replace(" ", "_"))  # noqa: E731
            f._pyvc_model = True
            return f
        raise Unsupported(f"{self.what}.{name}")


class Index(ModelObject):
    def __init__(self, table):
        self.table = table

    def compare(self, op, other):
        o = V.to_z3(other)
        f = {"<=": lambda r: row_time(r) <= o, ">=": lambda r: row_time(r) >= o, "<": lambda r: row_time(r) < o, ">": lambda r: row_time(r) > o}[op]
        return Mask(self.table, f)

    def pv_getattr(self, cx, name):
        if name == "unique":
            f = lambda interp: UniqueTimes(cx, self.table)  # noqa: E731
            f._pyvc_model = True
            return f
        raise Unsupported(f"Index.{name}")


class Mask(ModelObject):
    def __init__(self, table, pred):
        self.table, self.pred = table, pred


class UniqueTimes(ModelObject):
    """Distinct times of the kept rows in order of first appearance (= simulation order for a sorted table)."""

    def __init__(self, cx, table):
        self.table = table

    def pv_len(self, cx):
        return z3.Int("n_release_times")

    def pv_for(self, interp, st, env, mod):
        return _append_loop(self, interp, st, env, mod)

    def pv_comprehension(self, interp, node, env, mod):
        import ast

        gen = node.generators[0]
        if gen.ifs or not isinstance(gen.target, ast.Name):
            raise Unsupported("comprehension over the release times")
        me = self

        def f(t):
            e2 = dict(env)
            e2[gen.target.id] = t
            return interp.eval(node.elt, e2, mod)

        return MappedTimes(me, f)


def _append_loop(times, interp, st, env, mod):
    """``for t in times: L.append(expr(t))`` with L an empty list: the loop form of ``L = [expr(t) for t in times]``."""
    import ast

    body = st.body
    ok = (len(body) == 1 and isinstance(body[0], ast.Expr) and isinstance(body[0].value, ast.Call) and isinstance(body[0].value.func, ast.Attribute)
          and body[0].value.func.attr == "append" and isinstance(body[0].value.func.value, ast.Name) and len(body[0].value.args) == 1
          and isinstance(st.target, ast.Name) and not st.orelse)
    if not ok:
        raise Unsupported("loop over the release times other than `for t in times: L.append(f(t))`")
    lname = body[0].value.func.value.id
    if not (isinstance(env.get(lname), list) and len(env[lname]) == 0):
        raise Unsupported("append loop over the release times into a non-empty list")
    arg, tname = body[0].value.args[0], st.target.id

    def f(t):
        e2 = dict(env)
        e2[tname] = t
        return interp.eval(arg, e2, mod)

    env[lname] = MappedTimes(times, f)


class MappedTimes(ModelObject):
    def __init__(self, times, f):
        self.times, self.f = times, f


class GroupBy(ModelObject):
    def __init__(self, table, sort):
        self.table, self.sort = table, sort

    def pv_comprehension(self, interp, node, env, mod):
        import ast

        gen = node.generators[0]
        tgt = gen.target
        second = (isinstance(tgt, ast.Name) and ast.unparse(node.elt) == f"{tgt.id}[1]") or (
            isinstance(tgt, ast.Tuple) and len(tgt.elts) == 2 and isinstance(tgt.elts[1], ast.Name) and isinstance(node.elt, ast.Name) and node.elt.id == tgt.elts[1].id)
        if not second or gen.ifs or len(node.generators) != 1:
            raise Unsupported("comprehension over groupby other than the list of the groups' frames")
        return GroupSeq(self.table, "ascending-time" if self.sort is True else "first-appearance")


class GroupSeq(ModelObject):
    """The list _B; ``order``: which distinct time the k-th group belongs to."""

    def __init__(self, table, order):
        self.table, self.order, self.reversed = table, order, False

    def pv_getattr(self, cx, name):
        if name == "reverse":
            me = self

            def reverse(interp):
                me.reversed = not me.reversed

            reverse._pyvc_model = True
            return reverse
        raise Unsupported(f"list.{name}")


class ReleaserInit(Spec):
    """ParticleReleaser.__init__, discrete release, cold start: keeps exactly the rows of the window
    [start, stop] (mirrored when reversed); refuses (SystemExit) exactly when no row is left; the k-th group of _B
    belongs to the k-th release time in SIMULATION order, which is the order update() consumes them in."""

    func = "ladim.release.ParticleReleaser.__init__"
    properties = ("C04", "C20", "C10")
    inline = ("ladim.timekeeper.TimeKeeper.time2step",)

    def __init__(self, has_mult, sorted_table=True):
        self.has_mult = has_mult
        self.sorted_table = sorted_table  # False: the rows of the file may come in ANY order (e.g. a chronological file used for a reversed run)
        self.name = f"ParticleReleaser.__init__[discrete, cold start, mult column {'given' if has_mult else 'defaulted'}{'' if sorted_table else ', file rows in any order'}]"
        spec = self

        def read_release_file(interp, args, kwargs):
            cols = {"X", "Y", "Z"} | ({"mult"} if spec.has_mult else set())
            return Table(interp.cx, lambda r: z3.BoolVal(True), cols)

        def clean_position(interp, args, kwargs):
            return None

        self.callees = {"ladim.release.ParticleReleaser.read_release_file": read_release_file, "ladim.release.ParticleReleaser.clean_position": clean_position}

    def inputs(self, cx):
        timer = make_timer(cx)
        t = timer.attrs
        cx.assume(nrows >= 0)
        rev = t["time_reversal"]
        # the property's quantifier: rows sorted in simulation order
        if self.sorted_table:
            u = UnivFact(2, lambda a, b: z3.Implies(z3.And(a >= 0, a < b, b < nrows), z3.If(rev, row_time(a) >= row_time(b), row_time(a) <= row_time(b))), decls=[row_time_decl])
            u.pairs = True
            cx.univ.append(u)
        state = Obj(None, dtypes=dict(pid="int", X="float"))
        a = Args(self=Obj("ladim.release.ParticleReleaser"), modules=dict(time=timer, grid=Obj(None), state=state), release_file="release.rls")
        return a

    def call_args(self, a):
        return [a.self], dict(modules=a.modules, release_file=a.release_file)

    def window(self, a):
        t = a.modules["time"].attrs
        s, e, rev = t["start_time"], t["stop_time"], t["time_reversal"]
        return lambda r: z3.If(rev, z3.And(e <= row_time(r), row_time(r) <= s), z3.And(s <= row_time(r), row_time(r) <= e))

    def window_strict(self, a):
        """the simulated window of C04: start inclusive, stop exclusive"""
        t = a.modules["time"].attrs
        s, e, rev = t["start_time"], t["stop_time"], t["time_reversal"]
        return lambda r: z3.If(rev, z3.And(e < row_time(r), row_time(r) <= s), z3.And(s <= row_time(r), row_time(r) < e))

    may_raise = ("SystemExit",)

    def model(self, cx, a):
        return NotImplemented

    def ensures(self, cx, a, result):
        me = a.self.attrs
        t = a.modules["time"].attrs
        rev = t["time_reversal"]
        df = me.get("_df")
        out = []
        if not isinstance(df, Table):
            return [("the release table is kept", False)]
        r = z3.Int("row_any")
        win = self.window(a)
        strict = self.window_strict(a)
        out.append(("C04: every row whose release time lies in the simulated window (start inclusive, stop exclusive) is kept", z3.Implies(z3.And(r >= 0, r < nrows, strict(r)), V.to_z3(df.pred(r)))))
        out.append(("C04: no row outside the window is kept (a row at exactly the stop time may be: the time loop never reaches that step)", z3.Implies(z3.And(r >= 0, r < nrows, V.to_z3(df.pred(r))), win(r))))
        out.append(("C04: a mult column exists (defaulted to 1)", "mult" in df.columns))
        out.append(("C20: a normal return means at least one row lies in the window", z3.Implies(z3.And(r >= 0, r < nrows, win(r)), z3.BoolVal(True)) if False else (df.pv_len(cx) > 0)))
        B = me.get("_B")
        ok = isinstance(B, GroupSeq)
        out.append(("C04: _B holds one group per release time", ok))
        if ok:
            # order of consumption = increasing step = simulation order of the distinct times
            asc_time_first = (B.order == "ascending-time" and not B.reversed)
            desc_time_first = (B.order == "ascending-time" and B.reversed)
            sim_order = (B.order == "first-appearance" and not B.reversed and self.sorted_table)  # first appearance == simulation order ONLY for a table sorted in simulation order
            out.append(("C04/C10/C14: the groups are in simulation order: ascending time forward, descending time reversed (the order update() consumes them), whatever the order of the file rows", z3.If(rev, z3.BoolVal(desc_time_first or sim_order), z3.BoolVal(asc_time_first or sim_order))))
        st = me.get("steps")
        okst = isinstance(st, MappedTimes) and isinstance(st.times, UniqueTimes) and st.times.table is df
        out.append(("C04: steps are the model steps of the distinct release times of the kept rows", okst))
        if okst:
            tt = z3.Int("t_any")
            val = st.f(tt)
            out.append(("C04: step of a release time == time2step(time)", V.s_cmp("==", val, time2step_spec(a.modules["time"], tt))))
        out.append(("C04: release cursor starts at the first group, nothing counted yet", z3.And(V.to_z3(V.s_cmp("==", me.get("_index", -1), 0)), V.to_z3(V.s_cmp("==", me.get("_particle_count", -1), 0)))))
        return out


class ReleaserInitRefuses(ReleaserInit):
    """The converse for C20: if no row of the file lies in the window the constructor does not return."""

    may_raise = ("SystemExit",)

    def __init__(self, has_mult=True):
        super().__init__(has_mult)
        self.name = "ParticleReleaser.__init__[no row in the window]"

    def requires(self, cx, a):
        win = self.window_strict(a)  # C04: the window is start inclusive, stop exclusive
        cx.univ.append(UnivFact(1, lambda r: z3.Implies(z3.And(r >= 0, r < nrows), z3.Not(win(r))), decls=[row_time_decl]))
        return []

    def ensures(self, cx, a, result):
        return [("C20: no release row inside the window: the constructor must refuse (SystemExit), not return", False)]


RELEASE_INIT_UNITS = [ReleaserInit(True), ReleaserInit(False), ReleaserInitRefuses()]
RELEASE_ANY_ORDER = ReleaserInit(True, sorted_table=False)


# ---------------------------------------------------------------- clean_position, read_release_file


class Column(ModelObject):
    """A column of the release table. ``name`` identifies a column of the file; ``fn`` (row -> real term) carries the
    VALUES, so that element-wise pandas operations on a column (assumed contracts: arithmetic and comparison with a
    scalar or another column act row by row, ``where(cond, other)`` keeps the value where cond holds and takes other
    elsewhere, ``.values`` / ``.to_numpy()`` / ``.astype(float)`` / ``.copy()`` keep the values) are decided by value,
    not by name."""

    def __init__(self, table, name, values=None, fn=None, kind="real"):
        self.table, self.name, self.values, self.kind = table, name, values, kind
        if fn is None and values is None:
            f = z3.Function(f"relcol_{name}", z3.IntSort(), z3.RealSort())
            fn = lambda r: f(r)  # noqa: E731
        self.fn = fn

    @staticmethod
    def _at(x, r):
        if isinstance(x, Column):
            if x.fn is None:
                raise Unsupported("arithmetic on a converted column")
            return x.fn(r)
        from fractions import Fraction

        if isinstance(x, (int, float, Fraction)) and not isinstance(x, bool):
            x = V.to_z3(x)
        if z3.is_expr(x):
            return z3.ToReal(x) if z3.is_int(x) else x
        raise Unsupported(f"column operation with {type(x).__name__}")

    def pv_binop(self, cx, op, other):
        me = self
        ops = {"+": lambda a, b: a + b, "-": lambda a, b: a - b, "*": lambda a, b: a * b}
        if op not in ops:
            raise Unsupported(f"column operator {op}")
        return Column(None, f"({self.name} {op} ...)", fn=lambda r: ops[op](me._at(me, r), me._at(other, r)))

    def compare(self, op, other):
        me = self
        ops = {"<": lambda a, b: a < b, "<=": lambda a, b: a <= b, ">": lambda a, b: a > b, ">=": lambda a, b: a >= b, "==": lambda a, b: a == b, "!=": lambda a, b: a != b}
        return Column(None, f"({self.name} {op} ...)", fn=lambda r: ops[op](me._at(me, r), me._at(other, r)), kind="bool")

    def pv_getattr(self, cx, name):
        me = self
        if self.fn is None:
            raise Unsupported(f"Series.{name} on a converted column")
        if name == "values":
            return self
        if name in ("to_numpy", "copy", "astype"):
            def same(interp, *a, **k):
                if name == "astype" and not (a and a[0] in (float, "float", "float64", "f8")):
                    raise Unsupported("Series.astype to something else than float")
                return me

            same._pyvc_model = True
            return same
        if name in ("where", "mask"):
            def where(interp, cond, other=None, **k):
                if not (isinstance(cond, Column) and cond.kind == "bool") or other is None or k:
                    raise Unsupported(f"Series.{name}: only (boolean column, replacement) is modelled")
                keep = (lambda r: cond.fn(r)) if name == "where" else (lambda r: z3.Not(cond.fn(r)))
                return Column(None, f"{name}({me.name})", fn=lambda r: z3.If(keep(r), me._at(me, r), me._at(other, r)))

            where._pyvc_model = True
            return where
        raise Unsupported(f"Series.{name}: no assumed contract")


class PosTable(Table):
    """A release table as clean_position sees it (columns matter, rows do not)."""

    def pv_getitem(self, cx, key):
        if isinstance(key, str):
            if key not in self.columns:
                raise PyRaise("KeyError", (key,))
            return self.extra_cols.get(key, Column(self, key))
        return super().pv_getitem(cx, key)

    def pv_getattr(self, cx, name):
        if name == "rename":
            me = self

            def rename(interp, columns=None, inplace=False):
                if inplace is not True:
                    raise Unsupported("rename without inplace")
                for old, new in columns.items():
                    if old in me.columns:
                        me.columns.discard(old)
                        me.columns.add(new)
                        me.extra_cols[new] = me.extra_cols.pop(old, Column(me, old))

            rename._pyvc_model = True
            return rename
        return super().pv_getattr(cx, name)


class CleanPosition(Spec):
    """clean_position: X, Y given -> untouched; only lon, lat -> X, Y = grid.ll2xy(lon, lat) (in this order);
    no position -> SystemExit; a grid that cannot convert -> SystemExit."""

    func = "ladim.release.ParticleReleaser.clean_position"
    properties = ("C04", "C16", "C20")
    inline = ()

    def __init__(self, cols, grid_converts=True):
        self.cols, self.grid_converts = tuple(cols), grid_converts
        self.name = f"ParticleReleaser.clean_position[columns {sorted(cols)}{'' if grid_converts else ', grid without ll2xy'}]"

    def inputs(self, cx):
        tab = PosTable(cx, lambda r: z3.BoolVal(True), set(self.cols) | {"mult", "Z"})
        grid = GridLL() if self.grid_converts else Obj(None)
        return Args(self=Obj("ladim.release.ParticleReleaser", _df=tab), grid=grid)

    def raises(self, cx, a):
        has_xy = "X" in self.cols and "Y" in self.cols
        has_ll = "lon" in self.cols and "lat" in self.cols
        return [((not has_xy) and ((not has_ll) or not self.grid_converts), "SystemExit")]

    def model(self, cx, a):
        return NotImplemented

    def ensures(self, cx, a, result):
        df = a.self.attrs["_df"]
        has_xy = "X" in self.cols and "Y" in self.cols
        if has_xy:
            return [("C04: given grid coordinates are used as they are (no conversion, no column touched)", df.columns == set(self.cols) | {"mult", "Z"} and not df.extra_cols)]
        x, y = df.extra_cols.get("X"), df.extra_cols.get("Y")
        ok = isinstance(x, Column) and isinstance(y, Column) and x.name == "ll2xy->X" and y.name == "ll2xy->Y" and x.values == y.values and isinstance(x.values, tuple) and all(isinstance(c, Column) and c.fn is not None for c in x.values)
        out = [("C04/C16: a release given by longitude/latitude starts at X, Y = grid.ll2xy(.., ..), X from the first and Y from the second result of one call", ok)]
        if ok:
            r = z3.Int("release_row")
            lon, lat = Column(None, "lon"), Column(None, "lat")
            out.append(("C16: the longitude handed to ll2xy is the longitude GIVEN in the release file, for every row", x.values[0].fn(r) == lon.fn(r)))
            out.append(("C16: the latitude handed to ll2xy is the latitude GIVEN in the release file, for every row", x.values[1].fn(r) == lat.fn(r)))
        return out + [
            ("C04: the position columns are named X and Y afterwards (lon/lat replaced)", {"X", "Y"} <= df.columns and "lon" not in df.columns and "lat" not in df.columns),
        ]


class GridLL(ModelObject):
    def pv_getattr(self, cx, name):
        if name == "ll2xy":

            def ll2xy(interp, lon, lat):
                tag = (lon, lat)
                return (Column(None, "ll2xy->X", tag), Column(None, "ll2xy->Y", tag))

            ll2xy._pyvc_model = True
            return ll2xy
        raise Unsupported(f"grid.{name}: not part of the modelled grid interface")


class ReadReleaseFile(Spec):
    """read_release_file: an unreadable or missing release file stops with SystemExit(3); otherwise the parsed
    table is returned; whitespace separated, release_time parsed as the index, names from the configuration."""

    func = "ladim.release.ParticleReleaser.read_release_file"
    properties = ("C04", "C20")
    inline = ()

    def __init__(self, outcome):
        self.outcome = outcome
        self.name = f"ParticleReleaser.read_release_file[read_csv {outcome}]"
        spec = self

        def read_csv(interp, path, **kw):
            spec._kw = kw
            if spec.outcome != "succeeds":
                raise PyRaise(spec.outcome)
            return Table(interp.cx, lambda r: z3.BoolVal(True), {"X", "Y", "Z"})

        self.externals = {"pandas.read_csv": read_csv}

    def inputs(self, cx):
        return Args(rls_file="release.rls", datatypes=dict(), names=["release_time", "X", "Y", "Z"])

    def raises(self, cx, a):
        return [(self.outcome != "succeeds", "SystemExit")]

    def model(self, cx, a):
        return NotImplemented

    def ensures(self, cx, a, result):
        kw = getattr(self, "_kw", {})
        return [
            ("C04: the table read by pandas is returned", isinstance(result, Table)),
            ("C04: whitespace separated, release_time parsed as dates and used as the index, column names from the configuration", kw.get("sep") == r"\s+" and kw.get("index_col") == "release_time" and kw.get("parse_dates") == ["release_time"] and kw.get("names") == a.names and "delim_whitespace" not in kw),
        ]


RELEASE_INIT_UNITS += [CleanPosition({"X", "Y"}), CleanPosition({"X", "Y", "lon", "lat"}), CleanPosition({"lon", "lat"}), CleanPosition({"lon"}), CleanPosition(set()), CleanPosition({"lon", "lat"}, grid_converts=False),
                       ReadReleaseFile("succeeds"), ReadReleaseFile("ValueError"), ReadReleaseFile("FileNotFoundError")]
