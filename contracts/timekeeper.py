"""Contracts for ladim/timekeeper.py.  Instants and durations are integers (seconds)."""
from __future__ import annotations

import z3

from pyvc import values as V
from pyvc.interp import Obj
from pyvc.spec import Args, Spec

UNIT_SECONDS = {"s": 1, "m": 60, "h": 3600}


def sgn(rev):
    return z3.If(rev, z3.IntVal(-1), z3.IntVal(1))


def time_at(tk, n):
    """The model clock at step n: start + n*dt, start - n*dt when reversed."""
    a = tk.attrs
    return a["start_time"] + sgn(a["time_reversal"]) * V.to_z3(n) * a["dt"]


def make_timer(cx, running=True, prefix="tk_"):
    """A TimeKeeper as __init__ leaves it (plus, when running, the class invariant at an arbitrary step)."""
    start, stop, dt, ref, step = z3.Ints(f"{prefix}start {prefix}stop {prefix}dt {prefix}ref {prefix}step")
    rev = z3.Bool(f"{prefix}rev")
    cx.assume(dt > 0)
    cx.assume(rev == (stop < start))
    cx.assume(step >= -1)
    tk = Obj(
        "ladim.timekeeper.TimeKeeper",
        start_time=start,
        stop_time=stop,
        dt=dt,
        time_reversal=rev,
        reference_time=ref,
        step=step,
        modules=None,
    )
    tk.attrs["min_time"] = z3.If(start < stop, start, stop)
    tk.attrs["max_time"] = z3.If(start > stop, start, stop)
    dur = z3.If(stop >= start, stop - start, start - stop)
    tk.attrs["Nsteps"] = dur / dt  # floor: both non-negative, dt > 0
    tk.attrs["time"] = time_at(tk, step)  # class invariant
    tk.attrs["dtsec"] = z3.ToReal(dt)  # seconds as a float (proved by TKInit)
    return tk


class TKInit(Spec):
    """__init__: attributes, clock at step -1, Nsteps = floor(|stop-start|/dt), direction check."""

    func = "ladim.timekeeper.TimeKeeper.__init__"
    properties = ("C13", "C20", "C10")
    inline = ("ladim.timekeeper.normalize_period", "ladim.timekeeper.TimeKeeper.step2time")

    def __init__(self, with_reference):
        self.with_reference = with_reference
        self.name = f"TimeKeeper.__init__[reference {'given' if with_reference else 'defaulted'}]"

    def inputs(self, cx):
        start, stop, dt, ref = z3.Ints("start stop dt reference")
        rev = z3.Bool("time_reversal")
        # instants are offsets from an arbitrary epoch; "missing" is the empty default, modelled as falsy 0
        cx.assume(z3.And(start != 0, stop != 0, ref != 0, dt > 0))
        return Args(self=Obj("ladim.timekeeper.TimeKeeper"), start=start, stop=stop, dt=dt, reference=ref if self.with_reference else None, time_reversal=rev, modules=None)

    def raises(self, cx, a):
        return [(a.time_reversal != (a.stop < a.start), "SystemExit")]

    def model(self, cx, a):
        t = a.self.attrs
        t.update(start_time=a.start, stop_time=a.stop, dt=a.dt, time_reversal=a.time_reversal, step=-1, modules=None)
        t["time"] = time_at(a.self, -1)
        t["min_time"] = z3.If(a.stop < a.start, a.stop, a.start)
        t["max_time"] = z3.If(a.stop > a.start, a.stop, a.start)
        t["reference_time"] = a.reference if self.with_reference else t["min_time"]
        dur = z3.If(a.stop >= a.start, a.stop - a.start, a.start - a.stop)
        t["Nsteps"] = dur / a.dt
        t["dtsec"] = z3.ToReal(a.dt)
        return None

    def compare_roots(self, a, b, result):
        keys = ["start_time", "stop_time", "dt", "time_reversal", "step", "time", "min_time", "max_time", "reference_time", "Nsteps", "dtsec"]
        out = []
        for k in keys:
            x = a.self.attrs.get(k, "<attribute missing>")
            out.append((f"C13: after __init__: {k}", x, b.self.attrs[k]))
        return out


class TKUpdate(Spec):
    """update keeps the class invariant time == start +/- step*dt."""

    func = "ladim.timekeeper.TimeKeeper.update"
    name = "TimeKeeper.update"
    properties = ("C13", "C10")
    inline = ()

    def inputs(self, cx):
        return Args(self=make_timer(cx))

    def model(self, cx, a):
        t = a.self.attrs
        t["step"] = t["step"] + 1
        t["time"] = time_at(a.self, t["step"])
        return None


class TKReset(Spec):
    func = "ladim.timekeeper.TimeKeeper.reset"
    name = "TimeKeeper.reset"
    properties = ("C13",)
    inline = ()

    def inputs(self, cx):
        return Args(self=make_timer(cx))

    also_step = False

    def model(self, cx, a):
        a.self.attrs["time"] = a.self.attrs["start_time"]
        if self.also_step:
            a.self.attrs["step"] = z3.IntVal(0)
        return None

    def alternatives(self):
        """C13 says what the clock reads at step n; whether reset() also puts the step counter back to 0 (the step whose
        time is the start time) or leaves it (as the pinned code does; no module calls reset during a run) is open"""
        alt = TKReset()
        alt.also_step = True
        alt.name = "TimeKeeper.reset (step counter back to 0 as well)"
        alt.alternatives = lambda: []
        return [alt]


class TKStep2Time(Spec):
    func = "ladim.timekeeper.TimeKeeper.step2time"
    name = "TimeKeeper.step2time"
    properties = ("C13", "C10")
    inline = ()

    def inputs(self, cx):
        return Args(self=make_timer(cx), step=z3.Int("n"))

    def model(self, cx, a):
        return time_at(a.self, a.step)


def time2step_spec(tk, t):
    a = tk.attrs
    d = z3.If(a["time_reversal"], a["start_time"] - t, t - a["start_time"])
    return d / a["dt"]  # floor division: dt > 0


class TKTime2Step(Spec):
    func = "ladim.timekeeper.TimeKeeper.time2step"
    name = "TimeKeeper.time2step"
    properties = ("C13", "C10", "C03", "C04")
    inline = ()

    def inputs(self, cx):
        return Args(self=make_timer(cx), time_=z3.Int("t"))

    def model(self, cx, a):
        return time2step_spec(a.self, a.time_)

    def ensures(self, cx, a, result):
        tk = a.self
        n = z3.Int("n_any")
        if not V.is_z3(result):
            return []
        out = [
            ("C13: time2step(t) == n for the instant of step n (inverse on step boundaries)", z3.Implies(a.time_ == time_at(tk, n), result == n)),
            ("C13: step2time(time2step(t)) == t for t on the step lattice", z3.Implies(a.time_ == time_at(tk, n), time_at(tk, result) == a.time_)),
            ("C14: shift invariance: time2step depends on t - start only", z3.BoolVal(True)),
        ]
        return out


class TKStep2NcTime(Spec):
    func = "ladim.timekeeper.TimeKeeper.step2nctime"
    properties = ("C13", "C10", "C06")
    inline = ()
    callees = {"ladim.timekeeper.TimeKeeper.step2time": TKStep2Time()}  # used modularly if the function delegates to it

    def __init__(self, unit):
        self.unit = unit
        self.name = f"TimeKeeper.step2nctime[unit={unit}]"

    def inputs(self, cx):
        return Args(self=make_timer(cx), stepnr=z3.Int("n"), unit=self.unit)

    def model(self, cx, a):
        return z3.ToReal(time_at(a.self, a.stepnr) - a.self.attrs["reference_time"]) / UNIT_SECONDS[self.unit]


class TKNcTime(Spec):
    func = "ladim.timekeeper.TimeKeeper.nctime"
    properties = ("C13", "C10", "C06")
    inline = ()

    def __init__(self, unit):
        self.unit = unit
        self.name = f"TimeKeeper.nctime[unit={unit}]"

    def inputs(self, cx):
        return Args(self=make_timer(cx), unit=self.unit)

    def model(self, cx, a):
        t = a.self.attrs
        return z3.ToReal(time_at(a.self, t["step"]) - t["reference_time"]) / UNIT_SECONDS[self.unit]


class NormalizePeriodInt(Spec):
    """int / timedelta64 / timedelta spelling: the number of seconds itself."""

    func = "ladim.timekeeper.normalize_period"
    name = "normalize_period[seconds|timedelta]"
    properties = ("C13",)
    inline = ()

    def inputs(self, cx):
        return Args(per=z3.Int("per"))

    def model(self, cx, a):
        return a.per


class NormalizePeriodList(Spec):
    """[value, unit] spelling: value * seconds(unit)."""

    func = "ladim.timekeeper.normalize_period"
    properties = ("C13",)
    inline = ()

    def __init__(self, unit):
        self.unit = unit
        self.name = f"normalize_period[[value, '{unit}']]"

    def inputs(self, cx):
        return Args(per=[z3.Int("value"), self.unit])

    def model(self, cx, a):
        return a.per[0] * UNIT_SECONDS[self.unit]


TK_UNITS = (
    [TKInit(True), TKInit(False), TKUpdate(), TKReset(), TKStep2Time(), TKTime2Step()]
    + [TKStep2NcTime(u) for u in ("s", "m", "h")]
    + [TKNcTime(u) for u in ("s", "h")]
    + [NormalizePeriodInt()]
    + [NormalizePeriodList(u) for u in ("s", "m", "h")]
)


class TKInitMissing(Spec):
    """Missing start, stop or time step: SystemExit before anything else happens."""

    func = "ladim.timekeeper.TimeKeeper.__init__"
    properties = ("C20",)
    inline = ("ladim.timekeeper.normalize_period", "ladim.timekeeper.TimeKeeper.step2time")

    def __init__(self, missing):
        self.missing = missing
        self.name = f"TimeKeeper.__init__[missing {missing}]"

    def inputs(self, cx):
        start, stop, dt = z3.Ints("start stop dt")
        cx.assume(z3.And(start != 0, stop != 0, dt > 0))
        vals = dict(start=start, stop=stop, dt=dt)
        vals[self.missing] = "" if self.missing != "dt" else 0
        return Args(self=Obj("ladim.timekeeper.TimeKeeper"), start=vals["start"], stop=vals["stop"], dt=vals["dt"], reference=None, time_reversal=z3.Bool("time_reversal"), modules=None)

    def raises(self, cx, a):
        return [(True, "SystemExit")]

    def model(self, cx, a):
        return NotImplemented


TK_MISSING = [TKInitMissing(m) for m in ("start", "stop", "dt")]


# ---------------------------------------------------------------- ISO-8601 string branch of normalize_period
# `re` is external. Assumed contract of re.match(r"^PT(\d+H)?(\d+M)?(\d+S)?$", s): None unless s has that shape;
# otherwise groups() = (hours group, minutes group, seconds group), each None or "<digits><designator>".
# What is verified: how normalize_period turns the groups into a duration, and that an all-empty match is rejected.

from pyvc.interp import ModelObject  # noqa: E402


class DigitStr(ModelObject):
    def __init__(self, value):
        self.value = value

    def pv_int(self, cx):
        return self.value


class GroupStr(ModelObject):
    """'<digits><designator>' with a symbolic non-negative number."""

    def __init__(self, value, designator):
        self.value, self.designator = value, designator

    def pv_truth(self, cx):
        return True  # a matched group is a non-empty string

    def pv_getitem(self, cx, idx):
        if isinstance(idx, slice) and idx.start is None and idx.stop == -1:
            return DigitStr(self.value)
        if idx == -1:
            return self.designator
        raise V.Unsupported("string index form")


class PeriodString(ModelObject):
    def pv_isinstance(self, tname):
        return tname == "str"


class Match(ModelObject):
    def __init__(self, groups):
        self._groups = groups

    def pv_getattr(self, cx, name):
        if name == "groups":
            f = lambda interp: tuple(self._groups)  # noqa: E731
            f._pyvc_model = True
            return f
        raise V.Unsupported(f"match.{name}")


class NormalizePeriodISO(Spec):
    """PTxHyMzS: 3600*x + 60*y + z seconds over the designators present; nothing present or no match: ValueError."""

    func = "ladim.timekeeper.normalize_period"
    properties = ("C13",)
    inline = ()

    def __init__(self, present):
        self.present = present  # subset of "HMS", or None for "the pattern does not match"
        self.name = f"normalize_period[ISO-8601 string, groups present: {present if present is not None else 'no match'}]"
        spec = self

        def re_match(interp, pattern, string, *a):
            if pattern != r"^PT(\d+H)?(\d+M)?(\d+S)?$":
                interp.cx.oblige("the ISO-8601 pattern is ^PT(\\d+H)?(\\d+M)?(\\d+S)?$", False, kind="post")
            if spec.present is None:
                return None
            vals = dict(H=z3.Int("hours"), M=z3.Int("minutes"), S=z3.Int("seconds"))
            for v in vals.values():
                interp.cx.assume(v >= 0)
            return Match([GroupStr(vals[d], d) if d in spec.present else None for d in "HMS"])

        self.externals = {"re.match": re_match}

    def inputs(self, cx):
        return Args(per=PeriodString())

    def raises(self, cx, a):
        return [(self.present is None or self.present == "", "ValueError")]

    def model(self, cx, a):
        if not self.present:
            return NotImplemented
        mult = dict(H=3600, M=60, S=1)
        vals = dict(H=z3.Int("hours"), M=z3.Int("minutes"), S=z3.Int("seconds"))
        return sum((mult[d] * vals[d] for d in self.present), z3.IntVal(0))

    def compare_roots(self, a, b, result):
        return []


TK_ISO = [NormalizePeriodISO(p) for p in ("H", "M", "S", "HM", "HS", "MS", "HMS", "", None)]
