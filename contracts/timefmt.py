"""Contracts for the string-valued clock functions (C13): cf_units, step2isotime, duration2iso.

Strings are structured (pyvc/strings.py): ``Num(n)`` is ``str(n)`` / ``format(n, 'd')`` of a symbolic integer. A time
(datetime64[s]) is an integer number of seconds in the model, so ``str(time)`` is ``Num(seconds)``: assumed that numpy
prints different instants differently (ISO-8601 text of the instant).
"""
from __future__ import annotations

import z3

from pyvc import values as V
from pyvc.interp import ModelObject
from pyvc.spec import Args, Spec
from pyvc.strings import FStr, Num
from pyvc.values import Unsupported

from .timekeeper import TKStep2Time, make_timer, time_at


def same_string(cx, got, exp, label):
    """obligations: two structured strings are equal part by part"""
    gp = got.parts if isinstance(got, FStr) else [got] if got != "" else []
    ep = exp.parts if isinstance(exp, FStr) else [exp] if exp != "" else []
    out = [(f"{label}: same literal text and the same number of numeric fields", len(gp) == len(ep) and all((isinstance(g, str) and g == e) or (isinstance(g, Num) and isinstance(e, Num)) for g, e in zip(gp, ep)))]
    if len(gp) == len(ep):
        for k, (g, e) in enumerate(zip(gp, ep)):
            if isinstance(g, Num) and isinstance(e, Num):
                out.append((f"{label}: numeric field {k} has the specified value", V.to_z3(V.s_cmp("==", g.number, e.number))))
    return out


class CfUnits(Spec):
    """cf_units(unit) == '<seconds|minutes|hours|days> since <reference time>'"""

    func = "ladim.timekeeper.TimeKeeper.cf_units"
    properties = ("C13", "C06")
    inline = ()

    def __init__(self, unit):
        self.unit = unit
        self.name = f"TimeKeeper.cf_units[unit={unit}]"

    def inputs(self, cx):
        cx.ghost["structured_fstrings"] = True
        return Args(self=make_timer(cx), unit=self.unit)

    def model(self, cx, a):
        return NotImplemented

    def ensures(self, cx, a, result):
        word = dict(s="seconds", m="minutes", h="hours", d="days")[self.unit]
        exp = FStr([word + " since ", Num(a.self.attrs["reference_time"])])
        return same_string(cx, result, exp, "C13/C06: CF units name the unit and the reference time")


class Step2IsoTime(Spec):
    """step2isotime(n) is the text of the instant start +- n*dt"""

    func = "ladim.timekeeper.TimeKeeper.step2isotime"
    name = "TimeKeeper.step2isotime"
    properties = ("C13", "C10")
    inline = ()
    callees = {"ladim.timekeeper.TimeKeeper.step2time": TKStep2Time()}  # used modularly if the function delegates to it

    def inputs(self, cx):
        cx.ghost["structured_fstrings"] = True
        return Args(self=make_timer(cx), stepnr=z3.Int("stepnr"))

    def model(self, cx, a):
        return NotImplemented

    def ensures(self, cx, a, result):
        exp = FStr([Num(time_at(a.self, a.stepnr))])
        return same_string(cx, result, exp, "C13/C10: step2isotime(n) is the text of start + n*dt (start - n*dt when reversed)")


class Duration(ModelObject):
    """a numpy.timedelta64 of ``seconds`` whole seconds"""

    def __init__(self, seconds):
        self.seconds = seconds

    def pv_isinstance(self, tname):
        return tname in ("timedelta64", "numpy.timedelta64", "np.timedelta64")

    def pv_binop(self, cx, op, other):
        if op == "/":
            if isinstance(self.seconds, int) and isinstance(other, (int, float)):
                from fractions import Fraction

                return Fraction(self.seconds) / Fraction(other)  # concrete mode (encoder validation)
            o = V.to_z3(other)
            return z3.ToReal(self.seconds) / (z3.ToReal(o) if z3.is_int(o) else o)
        raise Unsupported("timedelta operator")

    def pv_truth(self, cx):
        return self.seconds != 0


class Duration2Iso(Spec):
    """duration2iso: 'P[dD][T[hH][mM][sS]]' with d*86400 + h*3600 + m*60 + s == the duration, 0 <= h < 24,
    0 <= m, s < 60, a component printed exactly when it is non-zero; 'PT0S' for a zero duration."""

    func = "ladim.timekeeper.duration2iso"
    name = "timekeeper.duration2iso"
    properties = ("C13",)
    inline = ()
    max_paths = 200

    def inputs(self, cx):
        cx.ghost["structured_fstrings"] = True
        sec = z3.Int("duration_seconds")
        cx.assume(sec >= 0)
        return Args(duration=Duration(sec))

    def model(self, cx, a):
        return NotImplemented

    def ensures(self, cx, a, result):
        sec = a.duration.seconds
        d, rem = sec / 86400, sec % 86400
        h, rem2 = rem / 3600, rem % 3600
        m, s = rem2 / 60, rem2 % 60
        out = [("C13: the components add up to the duration and are in range", z3.And(d * 86400 + h * 3600 + m * 60 + s == sec, h >= 0, h < 24, m >= 0, m < 60, s >= 0, s < 60))]
        if cx.decide(sec == 0):
            return out + same_string(cx, result, "PT0S", "C13: zero duration")
        parts = ["P"]
        if cx.decide(d != 0):
            parts += [Num(d), "D"]
        if cx.decide(rem != 0):
            parts.append("T")
        if cx.decide(h != 0):
            parts += [Num(h), "H"]
        if cx.decide(m != 0):
            parts += [Num(m), "M"]
        if cx.decide(s != 0):
            parts += [Num(s), "S"]
        return out + same_string(cx, result, FStr(parts), "C13: ISO-8601 duration text")


TIMEFMT_UNITS = [CfUnits(u) for u in "smhd"] + [Step2IsoTime(), Duration2Iso()]
