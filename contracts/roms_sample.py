"""Contracts for the sampling kernels of ladim/ROMS.py: z2s, z2s_kernel, trilinear, sample3D, sample3DUV."""
from __future__ import annotations

import z3

from pyvc import values as V
from pyvc.interp import ForallIdx, ForallP, UnivFact
from pyvc.spec import Args, Spec
from pyvc.values import Arr, sym_array

from .common import N, particle_arrays

R = z3.RealVal


def field3(name, cx, dims=("kmax", "jm", "im")):
    k, j, i = z3.Ints(" ".join(dims))
    cx.assume(z3.And(k >= 1, j >= 1, i >= 1))
    return sym_array(name, (k, j, i), "real")


def floor_pos(x):
    """int(x) for x >= 0 (truncation == floor)."""
    return z3.ToInt(x)


def lerp_inst(w, u, v, lo, hi):
    """Instance of the lemma: 0 <= w <= 1 and u, v in [lo, hi]  =>  w*u + (1-w)*v in [lo, hi]."""
    t = w * u + (1 - w) * v
    return z3.Implies(z3.And(w >= 0, w <= 1, lo <= u, u <= hi, lo <= v, v <= hi), z3.And(lo <= t, t <= hi))


def trilin_spec(F, x, y, k, a):
    """Bilinear between the four surrounding nodes, linear between levels k-1 (weight a) and k."""
    i, j = V.s_trunc(x), V.s_trunc(y)
    p, q = x - z3.ToReal(i), y - z3.ToReal(j)

    def col(jj, ii):
        return a * F(k - 1, jj, ii) + (1 - a) * F(k, jj, ii)

    return (1 - p) * (1 - q) * col(j, i) + p * (1 - q) * col(j, i + 1) + (1 - p) * q * col(j + 1, i) + p * q * col(j + 1, i + 1)


class Trilinear(Spec):
    func = "ladim.ROMS.trilinear"
    name = "ROMS.trilinear"
    properties = ("C02", "C17", "C14")
    inline = ()

    def inputs(self, cx):
        n = N(cx)
        a = Args(F=field3("F", cx))
        a.update(particle_arrays(n, ["X", "Y"]))
        a.K = sym_array("K", (n,), "int")
        a.A = sym_array("A", (n,), "real")
        return a

    def requires(self, cx, a):
        n = a.X.shape[0]
        kmax, jm, im = a.F.shape
        fx, fy, fk = a.X.fn, a.Y.fn, a.K.fn
        return [
            ("len(Y) == len(X)", V.s_cmp("==", a.Y.shape[0], n)),
            ("len(K) == len(X)", V.s_cmp("==", a.K.shape[0], n)),
            ("len(A) == len(X)", V.s_cmp("==", a.A.shape[0], n)),
            ("0 <= X < imax-1, 0 <= Y < jmax-1 (interior of the field array)", ForallP(n, lambda p: z3.And(fx(p) >= 0, fx(p) < z3.ToReal(im - 1), fy(p) >= 0, fy(p) < z3.ToReal(jm - 1)))),
            ("1 <= K < kmax", ForallP(n, lambda p: z3.And(fk(p) >= 1, fk(p) < kmax))),
        ]

    def model(self, cx, a):
        F, fx, fy, fk, fa = a.F.fn, a.X.fn, a.Y.fn, a.K.fn, a.A.fn
        return Arr((a.X.shape[0],), lambda p: trilin_spec(F, fx(p), fy(p), fk(p), fa(p)), "real")

    def ensures(self, cx, a, result):
        if not isinstance(result, Arr):
            return []
        n = a.X.shape[0]
        F, fx, fy, fk, fa = a.F.fn, a.X.fn, a.Y.fn, a.K.fn, a.A.fn
        r = result.fn
        lo, hi = z3.Reals("node_lo node_hi")
        a0, b0, c0, a1, b1, c1 = z3.Reals("lin_a0 lin_b0 lin_c0 lin_a1 lin_b1 lin_c1")

        def nodes(p):
            i, j, k = V.s_trunc(fx(p)), V.s_trunc(fy(p)), fk(p)
            return [(kk, jj, ii) for kk in (k - 1, k) for jj in (j, j + 1) for ii in (i, i + 1)], k

        def convex(p):
            nd, k = nodes(p)
            inside = z3.And(*[z3.And(lo <= F(*t), F(*t) <= hi) for t in nd])
            # proof by three nested applications of the lerp-bound lemma (contracts/lemmas.LerpBound)
            x, y, w = fx(p), fy(p), fa(p)
            i, j = V.s_trunc(x), V.s_trunc(y)
            pp, qq = x - z3.ToReal(i), y - z3.ToReal(j)
            col = lambda jj, ii: w * F(k - 1, jj, ii) + (1 - w) * F(k, jj, ii)  # noqa: E731
            hints = [lerp_inst(w, F(k - 1, jj, ii), F(k, jj, ii), lo, hi) for jj in (j, j + 1) for ii in (i, i + 1)]
            x0 = (1 - pp) * col(j, i) + (1 - (1 - pp)) * col(j, i + 1)
            x1 = (1 - pp) * col(j + 1, i) + (1 - (1 - pp)) * col(j + 1, i + 1)
            hints += [lerp_inst(1 - pp, col(j, i), col(j, i + 1), lo, hi), lerp_inst(1 - pp, col(j + 1, i), col(j + 1, i + 1), lo, hi), lerp_inst(1 - qq, x0, x1, lo, hi)]
            final = (1 - qq) * x0 + (1 - (1 - qq)) * x1
            hints.append(final == trilin_spec(F, x, y, k, w))  # polynomial identity (proved as lemma NestedLerpIdentity)
            return z3.Implies(z3.And(w >= 0, w <= 1, inside), z3.And(lo <= r(p), r(p) <= hi)), hints

        def exact(p):
            nd, k = nodes(p)
            lin = z3.And(*[F(kk, jj, ii) == z3.If(kk == k, a1 + b1 * z3.ToReal(ii) + c1 * z3.ToReal(jj), a0 + b0 * z3.ToReal(ii) + c0 * z3.ToReal(jj)) for kk, jj, ii in nd])
            x, y, w = fx(p), fy(p), fa(p)
            return z3.Implies(lin, r(p) == w * (a0 + b0 * x + c0 * y) + (1 - w) * (a1 + b1 * x + c1 * y))

        return [
            ("C02: convex combination: the result lies within the range of the eight surrounding node values (0 <= A <= 1)", ForallP(n, convex)),
            ("C02: exact for fields linear in x and y on the two levels", ForallP(n, exact)),
        ]


class Z2sKernel(Spec):
    """Level lookup: 1 <= K < kmax, 0 <= A <= 1, A*zr[K-1] + (1-A)*zr[K] == clamp(-Z, zr[0], zr[-1]) in the particle's own column."""

    func = "ladim.ROMS.z2s_kernel"
    name = "ROMS.z2s_kernel"
    properties = ("C02", "C12", "C17", "C14")
    inline = ()

    def inputs(self, cx):
        n = N(cx)
        a = Args(I=sym_array("I", (n,), "int"), J=sym_array("J", (n,), "int"), Z=sym_array("Z", (n,), "real"))
        a.z_rho = field3("z_rho", cx)
        return a

    def requires(self, cx, a):
        n = a.I.shape[0]
        kmax, jm, im = a.z_rho.shape
        fi, fj = a.I.fn, a.J.fn
        zr = a.z_rho.fn
        out = [
            ("len(J) == len(I)", V.s_cmp("==", a.J.shape[0], n)),
            ("len(Z) == len(I)", V.s_cmp("==", a.Z.shape[0], n)),
            ("at least two levels", kmax >= 2),
            ("cell index inside the arrays", ForallP(n, lambda p: z3.And(fi(p) >= 0, fi(p) < im, fj(p) >= 0, fj(p) < jm))),
        ]
        return out

    def sorted_columns(self, cx, a):
        """z_rho strictly increasing along k in every column (postcondition of sdepth, C12)."""
        d = a.z_rho.decl
        kmax = a.z_rho.shape[0]
        f = a.z_rho.fn
        jm, im = a.z_rho.shape[1], a.z_rho.shape[2]
        inb = lambda j, i: z3.And(j >= 0, j < jm, i >= 0, i < im)  # noqa: E731
        return [
            ("columns of z_rho strictly increasing (k, k+1)", ForallIdx(3, lambda k, j, i: z3.Implies(z3.And(k >= 0, k + 1 < kmax, inb(j, i)), f(k, j, i) < f(k + 1, j, i)), decls=[d])),
            ("columns of z_rho strictly increasing (k-1, k)", ForallIdx(3, lambda k, j, i: z3.Implies(z3.And(k >= 1, k < kmax, inb(j, i)), f(k - 1, j, i) < f(k, j, i)), decls=[d])),
        ]

    def fresh_result(self, cx, a):
        n = a.I.shape[0]
        tag = cx.fresh_n = cx.fresh_n + 1
        return (sym_array(f"K_lvl{tag}", (n,), "int"), sym_array(f"A_lvl{tag}", (n,), "real"))

    def model(self, cx, a):
        return NotImplemented

    def ensures(self, cx, a, result):
        if not (isinstance(result, tuple) and len(result) == 2 and all(isinstance(r, Arr) for r in result)):
            return [("returns the pair (K, A)", False)]
        K, A = result
        n = a.I.shape[0]
        kmax = a.z_rho.shape[0]
        zr, fi, fj, fz, fk, fa = a.z_rho.fn, a.I.fn, a.J.fn, a.Z.fn, K.fn, A.fn

        def level(p):
            return z3.And(fk(p) >= 1, fk(p) < kmax)

        def weight(p):
            return z3.And(fa(p) >= 0, fa(p) <= 1)

        def depth(p):
            col = lambda k: zr(k, fj(p), fi(p))  # noqa: E731
            z = -fz(p)
            bot, top = col(0), col(kmax - 1)
            clamp = z3.If(z < bot, bot, z3.If(z > top, top, z))
            return fa(p) * col(fk(p) - 1) + (1 - fa(p)) * col(fk(p)) == clamp

        return [
            ("shape: len(K) == len(A) == len(I)", z3.And(V.to_z3(V.s_cmp("==", K.shape[0], n)), V.to_z3(V.s_cmp("==", A.shape[0], n)))),
            ("C12/C17: level index 1 <= K < kmax", ForallP(n, level)),
            ("C12: weight 0 <= A <= 1", ForallP(n, weight)),
            ("C12/C02: A*z[K-1] + (1-A)*z[K] equals the particle depth clamped to the level range of its own column", ForallP(n, depth)),
        ]


class Z2sKernelSorted(Z2sKernel):
    """The kernel under the precondition that the columns are sorted (as sdepth guarantees)."""

    def requires(self, cx, a):
        return super().requires(cx, a) + self.sorted_columns(cx, a)


class Z2s(Spec):
    """z2s: the level lookup in the particle's own cell I = round(X), J = round(Y)."""

    func = "ladim.ROMS.z2s"
    name = "ROMS.z2s"
    properties = ("C02", "C12", "C17", "C14")
    inline = ()

    def inputs(self, cx):
        n = N(cx)
        a = Args(z_rho=field3("z_rho", cx))
        a.update(particle_arrays(n, ["X", "Y", "Z"]))
        return a

    def requires(self, cx, a):
        n = a.X.shape[0]
        kmax, jm, im = a.z_rho.shape
        fx, fy = a.X.fn, a.Y.fn
        return [
            ("len(Y) == len(X)", V.s_cmp("==", a.Y.shape[0], n)),
            ("len(Z) == len(X)", V.s_cmp("==", a.Z.shape[0], n)),
            ("at least two levels", kmax >= 2),
            ("nearest cell inside the arrays: -1/2 < X < imax - 1/2, -1/2 < Y < jmax - 1/2", ForallP(n, lambda p: z3.And(fx(p) > R("-1/2"), fx(p) < z3.ToReal(im) - R("1/2"), fy(p) > R("-1/2"), fy(p) < z3.ToReal(jm) - R("1/2")))),
        ] + Z2sKernel.sorted_columns(self, cx, a)

    def fresh_result(self, cx, a):
        n = a.X.shape[0]
        cx.fresh_n += 1
        return (sym_array(f"K_lvl{cx.fresh_n}", (n,), "int"), sym_array(f"A_lvl{cx.fresh_n}", (n,), "real"))

    def model(self, cx, a):
        return NotImplemented

    def ensures(self, cx, a, result):
        fx, fy = a.X.fn, a.Y.fn
        n = a.X.shape[0]
        b = Args(I=Arr((n,), lambda p: V.s_round(fx(p)), "int"), J=Arr((n,), lambda p: V.s_round(fy(p)), "int"), Z=a.Z, z_rho=a.z_rho)
        return Z2sKernel.ensures(self, cx, b, result)


Z2s.callees = {"ladim.ROMS.z2s_kernel": Z2sKernelSorted()}


class Sample3DNearest(Spec):
    """Scalar forcing (C02): the value of the particle's own grid cell at ONE OF the two s-levels that bracket the
    particle, K-1 or K (the pinned code takes K; the property leaves the choice open). K, A are what z2s returns."""

    func = "ladim.ROMS.sample3D"
    name = "ROMS.sample3D[nearest]"
    properties = ("C02", "C17", "C14")
    inline = ()

    def inputs(self, cx):
        n = N(cx)
        a = Args(F=field3("F", cx))
        a.update(particle_arrays(n, ["X", "Y"]))
        a.K = sym_array("K", (n,), "int")
        a.A = sym_array("A", (n,), "real")
        a.method = "nearest"
        return a

    def requires(self, cx, a):
        n = a.X.shape[0]
        kmax, jm, im = a.F.shape
        fx, fy, fk, fa = a.X.fn, a.Y.fn, a.K.fn, a.A.fn
        return [
            ("len(Y) == len(X)", V.s_cmp("==", a.Y.shape[0], n)),
            ("len(K) == len(X)", V.s_cmp("==", a.K.shape[0], n)),
            ("len(A) == len(X)", V.s_cmp("==", a.A.shape[0], n)),
            ("nearest cell inside the arrays", ForallP(n, lambda p: z3.And(fx(p) > R("-1/2"), fx(p) < z3.ToReal(im) - R("1/2"), fy(p) > R("-1/2"), fy(p) < z3.ToReal(jm) - R("1/2")))),
            ("1 <= K < kmax and 0 <= A <= 1 (the postcondition of z2s)", ForallP(n, lambda p: z3.And(fk(p) >= 1, fk(p) < kmax, fa(p) >= 0, fa(p) <= 1))),
        ]

    def model(self, cx, a):
        return NotImplemented

    def fresh_result(self, cx, a):
        """at a call site: per particle one of the two admissible values, which one is not known (an arbitrary function of
        the particle index)"""
        F, fx, fy, fk = a.F.fn, a.X.fn, a.Y.fn, a.K.fn
        cx.fresh_n += 1
        choice = z3.Function(f"scalar_level_choice!{cx.fresh_n}", z3.IntSort(), z3.BoolSort())
        own = lambda k, p: F(k, V.s_round(fy(p)), V.s_round(fx(p)))  # noqa: E731
        return Arr((a.X.shape[0],), lambda p: z3.If(choice(V.to_z3(p)), V.to_z3(own(fk(p), p)), V.to_z3(own(fk(p) - 1, p))), "real")

    def ensures(self, cx, a, result):
        F, fx, fy, fk = a.F.fn, a.X.fn, a.Y.fn, a.K.fn
        n = a.X.shape[0]
        ok = isinstance(result, Arr) and result.ndim == 1
        out = [("result is one value per particle", V.s_cmp("==", result.shape[0], n) if ok else False)]
        if ok:
            r = result.fn
            own = lambda k, p: F(k, V.s_round(fy(p)), V.s_round(fx(p)))  # noqa: E731
            out.append(("C02: scalar forcing is the value of the particle's own cell at one of the two bracketing levels (K-1 or K)",
                        ForallP(n, lambda p: z3.Or(V.to_z3(V.s_cmp("==", r(p), own(fk(p), p))), V.to_z3(V.s_cmp("==", r(p), own(fk(p) - 1, p)))))))
            from pyvc.spec import own_index_only

            pp = z3.Int("p_own")
            out.append(("C14: element p of the result depends on particle p's own data only", own_index_only(r(pp), pp, {"X", "Y", "K", "A"})))
        return out


class Sample3DBilinear(Trilinear):
    func = "ladim.ROMS.sample3D"
    name = "ROMS.sample3D[bilinear]"
    callees = {"ladim.ROMS.trilinear": Trilinear()}

    def inputs(self, cx):
        a = super().inputs(cx)
        a.method = "bilinear"
        return a

    def ensures(self, cx, a, result):
        return []


class Sample3DUV(Spec):
    """U sampled at X + 1/2 (u-points sit half a cell to the left), V at Y + 1/2."""

    func = "ladim.ROMS.sample3DUV"
    name = "ROMS.sample3DUV"
    properties = ("C02", "C17", "C14")
    inline = ("ladim.ROMS.sample3D",)
    callees = {"ladim.ROMS.trilinear": Trilinear()}

    def inputs(self, cx):
        n = N(cx)
        kmax, jm, im = z3.Ints("kmax jm im")
        cx.assume(z3.And(kmax >= 1, jm >= 1, im >= 1))
        a = Args(U=sym_array("U", (kmax, jm, im + 1), "real"), V=sym_array("V", (kmax, jm + 1, im), "real"))
        a.update(particle_arrays(n, ["X", "Y"]))
        a.K = sym_array("K", (n,), "int")
        a.A = sym_array("A", (n,), "real")
        a.method = "bilinear"
        return a

    def requires(self, cx, a):
        n = a.X.shape[0]
        kmax, jm, im1 = a.U.shape
        im = a.V.shape[2]
        fx, fy, fk = a.X.fn, a.Y.fn, a.K.fn
        return [
            ("len(Y) == len(X)", V.s_cmp("==", a.Y.shape[0], n)),
            ("len(K) == len(X)", V.s_cmp("==", a.K.shape[0], n)),
            ("len(A) == len(X)", V.s_cmp("==", a.A.shape[0], n)),
            ("U is (kmax, jmax, imax+1), V is (kmax, jmax+1, imax)", z3.And(im1 == im + 1, a.V.shape[1] == jm + 1, a.V.shape[0] == kmax)),
            # local coordinates x = X - i0 in [0.01, imax - 1.01]: the clipped forcing domain of the tracker
            ("position inside the clipped forcing domain (local coordinates)", ForallP(n, lambda p: z3.And(fx(p) >= 0, fx(p) < z3.ToReal(im) - 1, fy(p) >= 0, fy(p) < z3.ToReal(jm) - 1))),
            ("1 <= K < kmax", ForallP(n, lambda p: z3.And(fk(p) >= 1, fk(p) < kmax))),
        ]

    def model(self, cx, a):
        U, Vf, fx, fy, fk, fa = a.U.fn, a.V.fn, a.X.fn, a.Y.fn, a.K.fn, a.A.fn
        n = a.X.shape[0]
        h = R("1/2")
        return (
            Arr((n,), lambda p: trilin_spec(U, fx(p) + h, fy(p), fk(p), fa(p)), "real"),
            Arr((n,), lambda p: trilin_spec(Vf, fx(p), fy(p) + h, fk(p), fa(p)), "real"),
        )


SAMPLE_UNITS = [Trilinear(), Z2sKernelSorted(), Z2s(), Sample3DNearest(), Sample3DBilinear(), Sample3DUV()]
