"""Contracts for ladim/sample.py (C16): sample2D; and Grid.xy2ll / ll2xy."""
from __future__ import annotations

import z3

from pyvc import values as V
from pyvc.interp import ForallIdx, ForallP, Obj
from pyvc.spec import Args, Spec
from pyvc.values import Arr, sym_array

from .common import N, make_grid, particle_arrays
from .roms_sample import lerp_inst

R = z3.RealVal


def bilin_terms(F, M, x, y, outside):
    """Corner indices, weights (mask applied when M is given) for the position (x, y); I = J = 0 when outside."""
    i = z3.If(outside, z3.IntVal(0), V.s_trunc(x))
    j = z3.If(outside, z3.IntVal(0), V.s_trunc(y))
    p, q = x - z3.ToReal(V.s_trunc(x)), y - z3.ToReal(V.s_trunc(y))
    corners = [(j, i, (1 - p) * (1 - q)), (j + 1, i, (1 - p) * q), (j, i + 1, p * (1 - q)), (j + 1, i + 1, p * q)]
    if M is not None:
        corners = [(jj, ii, z3.ToReal(M(jj, ii)) * w) for jj, ii, w in corners]
    return corners


def masked_term_inst(m, w, f, f2):
    """Instance of the lemma: m in {0, 1} and (m == 1 => f == f2)  =>  (m*w)*f == (m*w)*f2."""
    return z3.Implies(z3.And(z3.Or(m == 0, m == 1), z3.Implies(m == 1, f == f2)), (m * w) * f == (m * w) * f2)


def sample2d_spec(F, M, x, y, jmax, imax, undef, outside_value):
    out = z3.Or(x < 0, x >= z3.ToReal(imax - 1), y < 0, y >= z3.ToReal(jmax - 1))
    cs = bilin_terms(F, M, x, y, out)
    if M is None:
        val = sum((w * F(jj, ii) for jj, ii, w in cs), R(0))
    else:
        sw = sum((w for _j, _i, w in cs), R(0))
        val = z3.If(sw == 0, undef, sum((w * F(jj, ii) for jj, ii, w in cs), R(0)) / sw)
    if outside_value is None:
        return val, out
    return z3.If(out, outside_value, val), out


class Sample2D(Spec):
    """sample2D: bilinear interpolation between the four surrounding nodes (weights renormalised over the unmasked
    ones, undef_value when all four are masked); outside the grid: ValueError, or the substitute value (any real, incl. 0)."""

    func = "ladim.sample.sample2D"
    properties = ("C16", "C17")
    inline = ()

    def __init__(self, with_mask, with_outside):
        self.with_mask, self.with_outside = with_mask, with_outside
        self.name = f"sample.sample2D[{'mask' if with_mask else 'no mask'}, outside_value {'given' if with_outside else 'None'}]"
        self.expect_raises = not with_outside

    def inputs(self, cx):
        n = N(cx)
        jmax, imax = z3.Ints("jmax imax")
        cx.assume(z3.And(jmax >= 2, imax >= 2))
        a = Args(F=sym_array("F", (jmax, imax), "real"))
        a.update(particle_arrays(n, ["X", "Y"]))
        a.mask = sym_array("M", (jmax, imax), "int") if self.with_mask else None
        a.undef_value = z3.Real("undef_value")
        a.outside_value = z3.Real("outside_value") if self.with_outside else None
        return a

    def requires(self, cx, a):
        r = [("len(Y) == len(X)", V.s_cmp("==", a.Y.shape[0], a.X.shape[0]))]
        if self.with_mask:
            M = a.mask.fn
            jmax, imax = a.F.shape
            r.append(("mask is 0/1", ForallIdx(2, lambda j, i: z3.Implies(z3.And(j >= 0, j < jmax, i >= 0, i < imax), z3.Or(M(j, i) == 0, M(j, i) == 1)), decls=[a.mask.decl])))
        return r

    @property
    def may_raise(self):
        # outside_value None: ValueError when a point is outside (the normal-return clause below states the converse)
        return () if self.with_outside else ("ValueError",)

    def model(self, cx, a):
        F = a.F.fn
        M = a.mask.fn if self.with_mask else None
        fx, fy = a.X.fn, a.Y.fn
        jmax, imax = a.F.shape
        return Arr((a.X.shape[0],), lambda p: sample2d_spec(F, M, fx(p), fy(p), jmax, imax, a.undef_value, a.outside_value)[0], "real")

    def ensures(self, cx, a, result):
        if not isinstance(result, Arr):
            return []
        F = a.F.fn
        fx, fy = a.X.fn, a.Y.fn
        jmax, imax = a.F.shape
        n = a.X.shape[0]
        r = result.fn
        out = []

        def outside(p):
            return z3.Or(fx(p) < 0, fx(p) >= z3.ToReal(imax - 1), fy(p) < 0, fy(p) >= z3.ToReal(jmax - 1))

        if not self.with_outside:
            out.append(("C16: a normal return means no point was outside the grid (otherwise ValueError)", ForallP(n, lambda p: z3.Not(outside(p)))))
        else:
            out.append(("C16: outside the grid the result is the requested substitute value, for every real value incl. 0.0", ForallP(n, lambda p: z3.Implies(outside(p), r(p) == a.outside_value))))
        if not self.with_mask:
            lo, hi = z3.Reals("corner_lo corner_hi")
            ca, cb, cc, cd = z3.Reals("bl_a bl_b bl_c bl_d")

            def convex(p):
                x, y = fx(p), fy(p)
                i, j = V.s_trunc(x), V.s_trunc(y)
                pp, qq = x - z3.ToReal(i), y - z3.ToReal(j)
                f00, f01, f10, f11 = F(j, i), F(j + 1, i), F(j, i + 1), F(j + 1, i + 1)
                inside = z3.And(*[z3.And(lo <= f, f <= hi) for f in (f00, f01, f10, f11)])
                x0 = (1 - pp) * f00 + (1 - (1 - pp)) * f10
                x1 = (1 - pp) * f01 + (1 - (1 - pp)) * f11
                final = (1 - qq) * x0 + (1 - (1 - qq)) * x1
                hints = [lerp_inst(1 - pp, f00, f10, lo, hi), lerp_inst(1 - pp, f01, f11, lo, hi), lerp_inst(1 - qq, x0, x1, lo, hi), final == (1 - pp) * (1 - qq) * f00 + (1 - pp) * qq * f01 + pp * (1 - qq) * f10 + pp * qq * f11]
                return z3.Implies(z3.And(z3.Not(outside(p)), inside), z3.And(lo <= r(p), r(p) <= hi)), hints

            def exact(p):
                x, y = fx(p), fy(p)
                i, j = V.s_trunc(x), V.s_trunc(y)
                bil = lambda jj, ii: ca + cb * z3.ToReal(ii) + cc * z3.ToReal(jj) + cd * z3.ToReal(ii) * z3.ToReal(jj)  # noqa: E731
                lin = z3.And(*[F(jj, ii) == bil(jj, ii) for jj in (j, j + 1) for ii in (i, i + 1)])
                return z3.Implies(z3.And(z3.Not(outside(p)), lin), r(p) == ca + cb * x + cc * y + cd * x * y)

            out.append(("C16: inside the grid the result is a convex combination of the four corner values", ForallP(n, convex)))
            out.append(("C16: exact on bilinear fields a + b*i + c*j + d*i*j", ForallP(n, exact)))
        return out


class Sample2DPlain(Spec):
    """sample2D as used by Grid.xy2ll (no mask, no substitute): callee model."""

    func = "ladim.sample.sample2D"

    def requires(self, cx, a):
        jmax, imax = a.F.shape
        fx, fy = a.X.fn, a.Y.fn
        return [("position inside the field: 0 <= x < imax-1, 0 <= y < jmax-1", ForallP(a.X.shape[0], lambda p: z3.And(fx(p) >= 0, fx(p) < z3.ToReal(imax - 1), fy(p) >= 0, fy(p) < z3.ToReal(jmax - 1))))]

    def model(self, cx, a):
        F, fx, fy = a.F.fn, a.X.fn, a.Y.fn
        jmax, imax = a.F.shape
        return Arr((a.X.shape[0],), lambda p: sample2d_spec(F, None, fx(p), fy(p), jmax, imax, R(0), None)[0], "real")


class XY2LL(Spec):
    """Grid.xy2ll: (bilinear lon, bilinear lat) at the particle position in local coordinates."""

    func = "ladim.ROMS.Grid.xy2ll"
    name = "Grid.xy2ll"
    properties = ("C16",)
    inline = ()
    callees = {"ladim.sample.sample2D": Sample2DPlain()}

    def inputs(self, cx):
        n = N(cx)
        a = Args(self=make_grid(cx))
        a.update(particle_arrays(n, ["X", "Y"]))
        return a

    def requires(self, cx, a):
        from .common import valid_pos

        g = a.self.attrs
        return [("grid has a non-empty valid region", z3.And(g["imax"] >= 3, g["jmax"] >= 3)), ("positions in the valid region", valid_pos(a.self, a.X, a.Y))]

    def model(self, cx, a):
        g = a.self.attrs
        fx, fy = a.X.fn, a.Y.fn
        i0, j0 = z3.ToReal(g["i0"]), z3.ToReal(g["j0"])
        n = a.X.shape[0]
        lon, lat = g["lon"].fn, g["lat"].fn
        jm, im = g["jmax"], g["imax"]
        return (
            Arr((n,), lambda p: sample2d_spec(lon, None, fx(p) - i0, fy(p) - j0, jm, im, R(0), None)[0], "real"),
            Arr((n,), lambda p: sample2d_spec(lat, None, fx(p) - i0, fy(p) - j0, jm, im, R(0), None)[0], "real"),
        )


binvX = z3.Function("bilin_inv_0", z3.RealSort(), z3.RealSort(), z3.RealSort())
binvY = z3.Function("bilin_inv_1", z3.RealSort(), z3.RealSort(), z3.RealSort())


def bilin_inv_model(interp, args, kwargs):
    """bilin_inv(f, g, F, G) -> (x, y): first-axis and second-axis coordinate (uninterpreted; bounded natively)."""
    f, g = args[0], args[1]
    ff, gf = f.fn, g.fn
    n = f.shape[0]
    return (Arr((n,), lambda p: binvX(ff(p), gf(p)), "real"), Arr((n,), lambda p: binvY(ff(p), gf(p)), "real"))


class LL2XY(Spec):
    """Grid.ll2xy: axis convention: bilin_inv works on (row, column) = (y, x); the result is shifted to global coordinates."""

    func = "ladim.ROMS.Grid.ll2xy"
    name = "Grid.ll2xy"
    properties = ("C16",)
    inline = ()
    callees = {"ladim.sample.bilin_inv": bilin_inv_model}

    def inputs(self, cx):
        n = N(cx)
        a = Args(self=make_grid(cx))
        a.update(particle_arrays(n, ["lon", "lat"]))
        return a

    def model(self, cx, a):
        g = a.self.attrs
        fl, fa = a.lon.fn, a.lat.fn
        n = a.lon.shape[0]
        # bilin_inv returns (first-axis coordinate, second-axis coordinate) of the (jmax, imax) arrays = (y, x)
        return (
            Arr((n,), lambda p: binvY(fl(p), fa(p)) + z3.ToReal(g["i0"]), "real"),
            Arr((n,), lambda p: binvX(fl(p), fa(p)) + z3.ToReal(g["j0"]), "real"),
        )


SAMPLE2D_UNITS = [Sample2D(False, False), Sample2D(False, True), Sample2D(True, False), Sample2D(True, True), XY2LL(), LL2XY()]


class BilinInvStep(Spec):
    """One iteration of bilin_inv's loop (verified as a slice: the loop body):
    the cell of the current estimate is kept inside the arrays, and the update is the exact Newton step of the
    bilinear system of that cell:  Fx*dx + Fy*dy == Fs - f,  Gx*dx + Gy*dy == Gs - g  with (dx, dy) = old - new.
    For arrays that are affine in the indices one step lands on the exact solution."""

    func = "ladim.sample.bilin_inv"
    name = "sample.bilin_inv[one Newton iteration]"
    properties = ("C16", "C17")
    inline = ()

    def body_slice(self, node):
        import ast

        loops = [st for st in node.body if isinstance(st, ast.For)]
        if len(loops) != 1:
            return None
        return loops[0].body, f"the loop body, lines {loops[0].body[0].lineno}-{loops[0].end_lineno} (one iteration from an arbitrary estimate; set-up and the fixed iteration count are not part of the claim)"

    def inputs(self, cx):
        n = N(cx)
        imax, jmax = z3.Ints("imax jmax")
        cx.assume(z3.And(imax >= 2, jmax >= 2))
        a = Args(f=sym_array("f", (n,), "real"), g=sym_array("g", (n,), "real"), F=sym_array("F", (imax, jmax), "real"), G=sym_array("G", (imax, jmax), "real"))
        a._x0, a._y0 = sym_array("x_est", (n,), "real"), sym_array("y_est", (n,), "real")
        a._env = dict(f=a.f, g=a.g, F=a.F, G=a.G, imax=imax, jmax=jmax, x=sym_array("x_est", (n,), "real"), y=sym_array("y_est", (n,), "real"), tol=z3.Real("tol"), maxiter=7)
        return a

    def slice_env(self, cx, a):
        return a._env

    def call_args(self, a):
        return [a.f, a.g, a.F, a.G], {}

    def model(self, cx, a):
        return NotImplemented

    def ensures(self, cx, a, result):
        env = a._env
        n = a.f.shape[0]
        x1, y1 = env["x"], env["y"]
        x0, y0 = a._x0.fn, a._y0.fn
        F, G, f, g = a.F.fn, a.G.fn, a.f.fn, a.g.fn
        imax, jmax = z3.Ints("imax jmax")
        if result == "<break>":
            # converged: the estimate is returned unchanged
            return [("C16: on convergence the estimate is left as it is", ForallP(n, lambda p: z3.And(x1.fn(p) == x0(p), y1.fn(p) == y0(p))))]

        def cell(p):
            i = V.s_trunc(x0(p))
            j = V.s_trunc(y0(p))
            i = z3.If(i < 0, 0, z3.If(i > imax - 2, imax - 2, i))
            j = z3.If(j < 0, 0, z3.If(j > jmax - 2, jmax - 2, j))
            return i, j

        def newton(p):
            i, j = cell(p)
            pp, qq = x0(p) - z3.ToReal(i), y0(p) - z3.ToReal(j)

            def bil(A):
                return (1 - pp) * (1 - qq) * A(i, j) + pp * (1 - qq) * A(i + 1, j) + (1 - pp) * qq * A(i, j + 1) + pp * qq * A(i + 1, j + 1)

            def ddx(A):
                return (1 - qq) * (A(i + 1, j) - A(i, j)) + qq * (A(i + 1, j + 1) - A(i, j + 1))

            def ddy(A):
                return (1 - pp) * (A(i, j + 1) - A(i, j)) + pp * (A(i + 1, j + 1) - A(i + 1, j))

            return dict(Fs=bil(F), Gs=bil(G), Fx=ddx(F), Fy=ddy(F), Gx=ddx(G), Gy=ddy(G))

        names = ("Fs", "Gs", "Fx", "Fy", "Gx", "Gy")
        ok_env = all(isinstance(env.get(k), Arr) for k in names + ("det",))
        if not ok_env:
            return [("C16: the iteration computes the bilinear estimates Fs, Gs, the Jacobian Fx, Fy, Gx, Gy and det", False)]

        def quantity(k):
            return lambda p: env[k].fn(p) == newton(p)[k]

        def detq(p):
            return env["det"].fn(p) == env["Fx"].fn(p) * env["Gy"].fn(p) - env["Fy"].fn(p) * env["Gx"].fn(p)

        def step(p):
            # generalisation: the code's Fs, ..., det are replaced by arbitrary reals (sound: proves more), which leaves
            # the 2x2 Newton algebra for the solver
            gen = {k: z3.Real(f"gen_{k}") for k in names + ("det",)}
            subs = [(env[k].fn(p), gen[k]) for k in ("det",) + names]
            xs = z3.substitute(V.to_z3(x1.fn(p)), *subs)
            ys = z3.substitute(V.to_z3(y1.fn(p)), *subs)
            dx, dy = x0(p) - xs, y0(p) - ys
            hyp = z3.And(gen["det"] != 0, gen["det"] == gen["Fx"] * gen["Gy"] - gen["Fy"] * gen["Gx"])
            return z3.Implies(hyp, z3.And(gen["Fx"] * dx + gen["Fy"] * dy == gen["Fs"] - f(p), gen["Gx"] * dx + gen["Gy"] * dy == gen["Gs"] - g(p)))

        return [
            *[(f"C16: {k} is the {'bilinear estimate' if k in ('Fs', 'Gs') else 'Jacobian entry'} of the (clipped) cell of the current estimate", ForallP(n, quantity(k))) for k in names],
            ("C16: det is the determinant of that Jacobian", ForallP(n, detq)),
            ("C16: the update is the exact Newton step: J*(old - new) == residual (for every value of the estimates and a non-singular Jacobian)", ForallP(n, step)),
        ]


SAMPLE2D_UNITS.append(BilinInvStep())
