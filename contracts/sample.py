"""Contracts for ladim/sample.py (C16): sample2D; and Grid.xy2ll / ll2xy."""
from __future__ import annotations

import z3

from pyvc import values as V
from pyvc.interp import ForallIdx, ForallP, Obj
from pyvc.spec import Args, Spec
from pyvc.values import Arr, sym_array

from .common import N, make_grid, particle_arrays
from .roms_sample import lerp_inst

R = z3.RealVal


def bilin_terms(F, M, x, y, outside):
    """Corner indices, weights (mask applied when M is given) for the position (x, y); I = J = 0 when outside."""
    i = z3.If(outside, z3.IntVal(0), V.s_trunc(x))
    j = z3.If(outside, z3.IntVal(0), V.s_trunc(y))
    p, q = x - z3.ToReal(V.s_trunc(x)), y - z3.ToReal(V.s_trunc(y))
    corners = [(j, i, (1 - p) * (1 - q)), (j + 1, i, (1 - p) * q), (j, i + 1, p * (1 - q)), (j + 1, i + 1, p * q)]
    if M is not None:
        corners = [(jj, ii, z3.ToReal(M(jj, ii)) * w) for jj, ii, w in corners]
    return corners


def masked_term_inst(m, w, f, f2):
    """Instance of the lemma: m in {0, 1} and (m == 1 => f == f2)  =>  (m*w)*f == (m*w)*f2."""
    return z3.Implies(z3.And(z3.Or(m == 0, m == 1), z3.Implies(m == 1, f == f2)), (m * w) * f == (m * w) * f2)


def sample2d_spec(F, M, x, y, jmax, imax, undef, outside_value):
    out = z3.Or(x < 0, x >= z3.ToReal(imax - 1), y < 0, y >= z3.ToReal(jmax - 1))
    cs = bilin_terms(F, M, x, y, out)
    if M is None:
        val = sum((w * F(jj, ii) for jj, ii, w in cs), R(0))
    else:
        sw = sum((w for _j, _i, w in cs), R(0))
        val = z3.If(sw == 0, undef, sum((w * F(jj, ii) for jj, ii, w in cs), R(0)) / sw)
    if outside_value is None:
        return val, out
    return z3.If(out, outside_value, val), out


class Sample2D(Spec):
    """sample2D: bilinear interpolation between the four surrounding nodes (weights renormalised over the unmasked
    ones, undef_value when all four are masked); outside the grid: ValueError, or the substitute value (any real, incl. 0)."""

    func = "ladim.sample.sample2D"
    properties = ("C16", "C17")
    inline = ()

    def __init__(self, with_mask, with_outside):
        self.with_mask, self.with_outside = with_mask, with_outside
        self.name = f"sample.sample2D[{'mask' if with_mask else 'no mask'}, outside_value {'given' if with_outside else 'None'}]"
        self.expect_raises = not with_outside

    def inputs(self, cx):
        n = N(cx)
        jmax, imax = z3.Ints("jmax imax")
        cx.assume(z3.And(jmax >= 2, imax >= 2))
        a = Args(F=sym_array("F", (jmax, imax), "real"))
        a.update(particle_arrays(n, ["X", "Y"]))
        a.mask = sym_array("M", (jmax, imax), "int") if self.with_mask else None
        a.undef_value = z3.Real("undef_value")
        a.outside_value = z3.Real("outside_value") if self.with_outside else None
        return a

    def requires(self, cx, a):
        r = [("len(Y) == len(X)", V.s_cmp("==", a.Y.shape[0], a.X.shape[0]))]
        if self.with_mask:
            M = a.mask.fn
            jmax, imax = a.F.shape
            r.append(("mask is 0/1", ForallIdx(2, lambda j, i: z3.Implies(z3.And(j >= 0, j < jmax, i >= 0, i < imax), z3.Or(M(j, i) == 0, M(j, i) == 1)), decls=[a.mask.decl])))
        return r

    @property
    def may_raise(self):
        # outside_value None: ValueError when a point is outside (the normal-return clause below states the converse)
        return () if self.with_outside else ("ValueError",)

    def model(self, cx, a):
        F = a.F.fn
        M = a.mask.fn if self.with_mask else None
        fx, fy = a.X.fn, a.Y.fn
        jmax, imax = a.F.shape
        return Arr((a.X.shape[0],), lambda p: sample2d_spec(F, M, fx(p), fy(p), jmax, imax, a.undef_value, a.outside_value)[0], "real")

    def ensures(self, cx, a, result):
        if not isinstance(result, Arr):
            return []
        F = a.F.fn
        fx, fy = a.X.fn, a.Y.fn
        jmax, imax = a.F.shape
        n = a.X.shape[0]
        r = result.fn
        out = []

        def outside(p):
            return z3.Or(fx(p) < 0, fx(p) >= z3.ToReal(imax - 1), fy(p) < 0, fy(p) >= z3.ToReal(jmax - 1))

        if not self.with_outside:
            out.append(("C16: a normal return means no point was outside the grid (otherwise ValueError)", ForallP(n, lambda p: z3.Not(outside(p)))))
        else:
            out.append(("C16: outside the grid the result is the requested substitute value, for every real value incl. 0.0", ForallP(n, lambda p: z3.Implies(outside(p), r(p) == a.outside_value))))
        if not self.with_mask:
            lo, hi = z3.Reals("corner_lo corner_hi")
            ca, cb, cc, cd = z3.Reals("bl_a bl_b bl_c bl_d")

            def convex(p):
                x, y = fx(p), fy(p)
                i, j = V.s_trunc(x), V.s_trunc(y)
                pp, qq = x - z3.ToReal(i), y - z3.ToReal(j)
                f00, f01, f10, f11 = F(j, i), F(j + 1, i), F(j, i + 1), F(j + 1, i + 1)
                inside = z3.And(*[z3.And(lo <= f, f <= hi) for f in (f00, f01, f10, f11)])
                x0 = (1 - pp) * f00 + (1 - (1 - pp)) * f10
                x1 = (1 - pp) * f01 + (1 - (1 - pp)) * f11
                final = (1 - qq) * x0 + (1 - (1 - qq)) * x1
                hints = [lerp_inst(1 - pp, f00, f10, lo, hi), lerp_inst(1 - pp, f01, f11, lo, hi), lerp_inst(1 - qq, x0, x1, lo, hi), final == (1 - pp) * (1 - qq) * f00 + (1 - pp) * qq * f01 + pp * (1 - qq) * f10 + pp * qq * f11]
                return z3.Implies(z3.And(z3.Not(outside(p)), inside), z3.And(lo <= r(p), r(p) <= hi)), hints

            def exact(p):
                x, y = fx(p), fy(p)
                i, j = V.s_trunc(x), V.s_trunc(y)
                bil = lambda jj, ii: ca + cb * z3.ToReal(ii) + cc * z3.ToReal(jj) + cd * z3.ToReal(ii) * z3.ToReal(jj)  # noqa: E731
                lin = z3.And(*[F(jj, ii) == bil(jj, ii) for jj in (j, j + 1) for ii in (i, i + 1)])
                return z3.Implies(z3.And(z3.Not(outside(p)), lin), r(p) == ca + cb * x + cc * y + cd * x * y)

            out.append(("C16: inside the grid the result is a convex combination of the four corner values", ForallP(n, convex)))
            out.append(("C16: exact on bilinear fields a + b*i + c*j + d*i*j", ForallP(n, exact)))
        return out


class Sample2DPlain(Spec):
    """sample2D as used by Grid.xy2ll (no mask, no substitute): callee model."""

    func = "ladim.sample.sample2D"

    def requires(self, cx, a):
        jmax, imax = a.F.shape
        fx, fy = a.X.fn, a.Y.fn
        return [("position inside the field: 0 <= x < imax-1, 0 <= y < jmax-1", ForallP(a.X.shape[0], lambda p: z3.And(fx(p) >= 0, fx(p) < z3.ToReal(imax - 1), fy(p) >= 0, fy(p) < z3.ToReal(jmax - 1))))]

    def model(self, cx, a):
        F, fx, fy = a.F.fn, a.X.fn, a.Y.fn
        jmax, imax = a.F.shape
        return Arr((a.X.shape[0],), lambda p: sample2d_spec(F, None, fx(p), fy(p), jmax, imax, R(0), None)[0], "real")


class XY2LL(Spec):
    """Grid.xy2ll: (bilinear lon, bilinear lat) at the particle position in local coordinates."""

    func = "ladim.ROMS.Grid.xy2ll"
    name = "Grid.xy2ll"
    properties = ("C16",)
    inline = ()
    callees = {"ladim.sample.sample2D": Sample2DPlain()}

    def inputs(self, cx):
        n = N(cx)
        a = Args(self=make_grid(cx))
        a.update(particle_arrays(n, ["X", "Y"]))
        return a

    def requires(self, cx, a):
        from .common import valid_pos

        g = a.self.attrs
        return [("grid has a non-empty valid region", z3.And(g["imax"] >= 3, g["jmax"] >= 3)), ("positions in the valid region", valid_pos(a.self, a.X, a.Y))]

    def model(self, cx, a):
        g = a.self.attrs
        fx, fy = a.X.fn, a.Y.fn
        i0, j0 = z3.ToReal(g["i0"]), z3.ToReal(g["j0"])
        n = a.X.shape[0]
        lon, lat = g["lon"].fn, g["lat"].fn
        jm, im = g["jmax"], g["imax"]
        return (
            Arr((n,), lambda p: sample2d_spec(lon, None, fx(p) - i0, fy(p) - j0, jm, im, R(0), None)[0], "real"),
            Arr((n,), lambda p: sample2d_spec(lat, None, fx(p) - i0, fy(p) - j0, jm, im, R(0), None)[0], "real"),
        )


binvX = z3.Function("bilin_inv_0", z3.RealSort(), z3.RealSort(), z3.RealSort())
binvY = z3.Function("bilin_inv_1", z3.RealSort(), z3.RealSort(), z3.RealSort())


def bilin_inv_model(interp, args, kwargs):
    """bilin_inv(f, g, F, G) -> (x, y): first-axis and second-axis coordinate (uninterpreted; bounded natively)."""
    f, g = args[0], args[1]
    ff, gf = f.fn, g.fn
    n = f.shape[0]
    return (Arr((n,), lambda p: binvX(ff(p), gf(p)), "real"), Arr((n,), lambda p: binvY(ff(p), gf(p)), "real"))


class LL2XY(Spec):
    """Grid.ll2xy: axis convention: bilin_inv works on (row, column) = (y, x); the result is shifted to global coordinates."""

    func = "ladim.ROMS.Grid.ll2xy"
    name = "Grid.ll2xy"
    properties = ("C16",)
    inline = ()
    callees = {"ladim.sample.bilin_inv": bilin_inv_model}

    def inputs(self, cx):
        n = N(cx)
        a = Args(self=make_grid(cx))
        a.update(particle_arrays(n, ["lon", "lat"]))
        return a

    def model(self, cx, a):
        g = a.self.attrs
        fl, fa = a.lon.fn, a.lat.fn
        n = a.lon.shape[0]
        # bilin_inv returns (first-axis coordinate, second-axis coordinate) of the (jmax, imax) arrays = (y, x)
        return (
            Arr((n,), lambda p: binvY(fl(p), fa(p)) + z3.ToReal(g["i0"]), "real"),
            Arr((n,), lambda p: binvX(fl(p), fa(p)) + z3.ToReal(g["j0"]), "real"),
        )


SAMPLE2D_UNITS = [Sample2D(False, False), Sample2D(False, True), Sample2D(True, False), Sample2D(True, True), XY2LL(), LL2XY()]
