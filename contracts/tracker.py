"""Contracts for ladim/tracker.py (specifications only; no repository code)."""
from __future__ import annotations

from fractions import Fraction

import z3

from pyvc import values as V
from pyvc.spec import Args, Spec
from pyvc.values import Arr, sym_array

from .common import N, particle_arrays


class RKstep(Spec):
    """Partial Runge-Kutta step: Xp = X + frac*U*dt/dx, Yp likewise; inputs untouched."""

    func = "ladim.tracker.RKstep"
    name = "tracker.RKstep"
    properties = ("C01", "C17")

    def inputs(self, cx):
        n = N(cx)
        a = Args(particle_arrays(n, ["X", "Y", "U", "V"]))
        a.frac = z3.Real("frac")
        a.update(particle_arrays(n, ["dtdx", "dtdy"]))
        return a

    def requires(self, cx, a):
        n = a.X.shape[0]
        return [(f"len({k}) == len(X)", V.s_cmp("==", a[k].shape[0], n)) for k in ("Y", "U", "V", "dtdx", "dtdy")]

    def model(self, cx, a):
        X, Y, U, Vv, frac, dtdx, dtdy = a.X.fn, a.Y.fn, a.U.fn, a.V.fn, a.frac, a.dtdx.fn, a.dtdy.fn
        n = a.X.shape[0]
        Xp = Arr((n,), lambda p: X(p) + V.to_real(frac) * U(p) * dtdx(p), "real")
        Yp = Arr((n,), lambda p: Y(p) + V.to_real(frac) * Vv(p) * dtdy(p), "real")
        return (Xp, Yp)


class Clip(Spec):
    """In-place clipping of positions to [xmin, xmax] x [ymin, ymax]."""

    func = "ladim.tracker.clip"
    name = "tracker.clip"
    properties = ("C01", "C17")

    def inputs(self, cx):
        n = N(cx)
        a = Args(particle_arrays(n, ["X", "Y"]))
        a.xmin, a.xmax, a.ymin, a.ymax = z3.Reals("xmin xmax ymin ymax")
        return a

    def requires(self, cx, a):
        return [
            ("len(Y) == len(X)", V.s_cmp("==", a.Y.shape[0], a.X.shape[0])),
            ("xmin <= xmax", V.s_cmp("<=", a.xmin, a.xmax)),
            ("ymin <= ymax", V.s_cmp("<=", a.ymin, a.ymax)),
        ]

    def model(self, cx, a):
        X, Y = a.X.fn, a.Y.fn
        lo_x, hi_x, lo_y, hi_y = V.to_real(a.xmin), V.to_real(a.xmax), V.to_real(a.ymin), V.to_real(a.ymax)
        cx.set_arr(a.X, fn=lambda p: z3.If(X(p) > hi_x, hi_x, z3.If(X(p) < lo_x, lo_x, X(p))))
        cx.set_arr(a.Y, fn=lambda p: z3.If(Y(p) > hi_y, hi_y, z3.If(Y(p) < lo_y, lo_y, Y(p))))
        return None

    def ensures(self, cx, a, result):
        # identity on positions that are already inside (used by the "interior" precondition of C01)
        p = z3.Int("p_gen")
        return []


class RK4avg(Spec):
    func = "ladim.tracker.RK4avg"
    name = "tracker.RK4avg"
    properties = ("C01",)

    def inputs(self, cx):
        n = N(cx)
        return Args(particle_arrays(n, ["U1", "U2", "U3", "U4"]))

    def requires(self, cx, a):
        n = a.U1.shape[0]
        return [(f"len({k}) == len(U1)", V.s_cmp("==", a[k].shape[0], n)) for k in ("U2", "U3", "U4")]

    def model(self, cx, a):
        f1, f2, f3, f4 = a.U1.fn, a.U2.fn, a.U3.fn, a.U4.fn
        return Arr(a.U1.shape, lambda p: (f1(p) + 2 * f2(p) + 2 * f3(p) + f4(p)) / 6, "real")
