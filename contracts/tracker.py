"""Contracts for ladim/tracker.py (specifications only; no repository code)."""
from __future__ import annotations

from fractions import Fraction

import z3

from pyvc import values as V
from pyvc.spec import Args, Spec
from pyvc.values import Arr, sym_array

from .common import N, particle_arrays


class RKstep(Spec):
    """Partial Runge-Kutta step: Xp = X + frac*U*dt/dx, Yp likewise; inputs untouched."""

    func = "ladim.tracker.RKstep"
    name = "tracker.RKstep"
    properties = ("C01", "C17")

    def inputs(self, cx):
        n = N(cx)
        a = Args(particle_arrays(n, ["X", "Y", "U", "V"]))
        a.frac = z3.Real("frac")
        a.update(particle_arrays(n, ["dtdx", "dtdy"]))
        return a

    def requires(self, cx, a):
        n = a.X.shape[0]
        return [(f"len({k}) == len(X)", V.s_cmp("==", a[k].shape[0], n)) for k in ("Y", "U", "V", "dtdx", "dtdy")]

    def model(self, cx, a):
        X, Y, U, Vv, frac, dtdx, dtdy = a.X.fn, a.Y.fn, a.U.fn, a.V.fn, a.frac, a.dtdx.fn, a.dtdy.fn
        n = a.X.shape[0]
        Xp = Arr((n,), lambda p: X(p) + V.to_real(frac) * U(p) * dtdx(p), "real")
        Yp = Arr((n,), lambda p: Y(p) + V.to_real(frac) * Vv(p) * dtdy(p), "real")
        return (Xp, Yp)


class Clip(Spec):
    """In-place clipping of positions to [xmin, xmax] x [ymin, ymax]."""

    func = "ladim.tracker.clip"
    name = "tracker.clip"
    properties = ("C01", "C17")

    def inputs(self, cx):
        n = N(cx)
        a = Args(particle_arrays(n, ["X", "Y"]))
        a.xmin, a.xmax, a.ymin, a.ymax = z3.Reals("xmin xmax ymin ymax")
        return a

    def requires(self, cx, a):
        return [("len(Y) == len(X)", V.s_cmp("==", a.Y.shape[0], a.X.shape[0]))]

    def model(self, cx, a):
        X, Y = a.X.fn, a.Y.fn
        lo_x, hi_x, lo_y, hi_y = V.to_real(a.xmin), V.to_real(a.xmax), V.to_real(a.ymin), V.to_real(a.ymax)
        cx.set_arr(a.X, fn=lambda p: clip_term(X(p), lo_x, hi_x))
        cx.set_arr(a.Y, fn=lambda p: clip_term(Y(p), lo_y, hi_y))
        return None


class RK4avg(Spec):
    func = "ladim.tracker.RK4avg"
    name = "tracker.RK4avg"
    properties = ("C01",)

    def inputs(self, cx):
        n = N(cx)
        return Args(particle_arrays(n, ["U1", "U2", "U3", "U4"]))

    def requires(self, cx, a):
        n = a.U1.shape[0]
        return [(f"len({k}) == len(U1)", V.s_cmp("==", a[k].shape[0], n)) for k in ("U2", "U3", "U4")]

    def model(self, cx, a):
        f1, f2, f3, f4 = a.U1.fn, a.U2.fn, a.U3.fn, a.U4.fn
        return Arr(a.U1.shape, lambda p: (f1(p) + 2 * f2(p) + 2 * f3(p) + f4(p)) / 6, "real")


# ---------------------------------------------------------------- advection schemes

from pyvc.interp import BoundMethod, ForallP, Obj, PyFunc  # noqa: E402

from .common import AbstractForce, Rng, at_sea, in_valid, make_grid, make_state, valid_pos, velU, velV  # noqa: E402
from .roms_grid import GRID_CALLEES  # noqa: E402

# Butcher tableaux (A strictly lower triangular, b, c): what "the selected scheme" means
TABLEAUX = {
    "EF": dict(A=[[]], b=[1], c=[0], order=1),
    # two-stage family: c2 = a21 = s, b = (1 - 1/(2s), 1/(2s)); s = 1/2 midpoint, 2/3 Ralston, 1 Heun
    "RK2-midpoint": dict(A=[[], [Fraction(1, 2)]], b=[0, 1], c=[0, Fraction(1, 2)], order=2),
    "RK2-heun": dict(A=[[], [1]], b=[Fraction(1, 2), Fraction(1, 2)], c=[0, 1], order=2),
    "RK2-ralston": dict(A=[[], [Fraction(2, 3)]], b=[Fraction(1, 4), Fraction(3, 4)], c=[0, Fraction(2, 3)], order=2),
    "RK4": dict(
        A=[[], [Fraction(1, 2)], [0, Fraction(1, 2)], [0, 0, 1]],
        b=[Fraction(1, 6), Fraction(1, 3), Fraction(1, 3), Fraction(1, 6)],
        c=[0, Fraction(1, 2), Fraction(1, 2), 1],
        order=4,
    ),
}


def clip_term(x, lo, hi):
    """x limited to [lo, hi] (the lower limit wins if the interval is empty)."""
    m = z3.If(x > hi, hi, x)
    return z3.If(m < lo, lo, m)


def rk_velocity(tab, x, y, z, dtdx, dtdy, lim):
    """Step velocity sum_s b_s k_s of an explicit Runge-Kutta tableau for dX/dt = u/dx, dY/dt = v/dy,
    stage positions clipped to the forcing domain, stage times c_s (fractions of the step)."""
    A, b, c = tab["A"], tab["b"], tab["c"]
    ku, kv = [], []
    xlo, xhi, ylo, yhi = lim
    for s in range(len(b)):
        if s == 0:
            xs, ys = x, y
        else:
            xs = x + dtdx * sum((V.to_z3(A[s][r]) * ku[r] for r in range(s) if A[s][r] != 0), z3.RealVal(0))
            ys = y + dtdy * sum((V.to_z3(A[s][r]) * kv[r] for r in range(s) if A[s][r] != 0), z3.RealVal(0))
            xs, ys = clip_term(xs, xlo, xhi), clip_term(ys, ylo, yhi)
        cs = V.to_real(V.to_z3(c[s]))
        ku.append(velU(xs, ys, z, cs))
        kv.append(velV(xs, ys, z, cs))
    u = sum((V.to_z3(b[s]) * ku[s] for s in range(len(b)) if b[s] != 0), z3.RealVal(0))
    v = sum((V.to_z3(b[s]) * kv[s] for s in range(len(b)) if b[s] != 0), z3.RealVal(0))
    return u, v


def make_tracker(cx, n, advection, grid=None, force=None):
    grid = grid or make_grid(cx)
    dt = z3.Real("dt")
    cx.assume(dt > 0)
    trk = Obj(
        "ladim.tracker.Tracker",
        dt=dt,
        advection=advection,
        diffusion=z3.Bool("sw_diffusion"),
        vertdiff=z3.Bool("sw_vertdiff"),
        vertical_advection=z3.Bool("sw_vertadv"),
        D=z3.Real("D"),
        Dz=z3.Real("Dz"),
        rng=Rng(),
    )
    cx.assume(z3.And(trk.attrs["D"] >= 0, trk.attrs["Dz"] >= 0))
    cx.assume(trk.attrs["diffusion"] == (trk.attrs["D"] > 0))
    cx.assume(trk.attrs["vertdiff"] == (trk.attrs["Dz"] > 0))
    return trk, grid


class _Scheme(Spec):
    scheme = ""
    tableau = ""
    properties = ("C01", "C17")

    def inputs(self, cx):
        n = N(cx)
        trk, grid = make_tracker(cx, n, self.scheme)
        g = grid.attrs
        c = z3.RealVal("1/100")
        trk.attrs.update(xmin=g["xmin"] + c, xmax=g["xmax"] - c, ymin=g["ymin"] + c, ymax=g["ymax"] - c)
        trk.attrs.update(particle_arrays(n, ["dx", "dy"]))
        a = Args(self=trk)
        a.update(particle_arrays(n, ["X", "Y", "Z"]))
        a.force = AbstractForce(grid, n)
        a._grid = grid
        return a

    def call_args(self, a):
        return [a.self, a.X, a.Y, a.Z, a.force], {}

    def requires(self, cx, a):
        n = a.X.shape[0]
        dx, dy = a.self.attrs["dx"].fn, a.self.attrs["dy"].fn
        grid = a.force.grid
        return [
            ("len(Y) == len(X)", V.s_cmp("==", a.Y.shape[0], n)),
            ("len(Z) == len(X)", V.s_cmp("==", a.Z.shape[0], n)),
            ("C14/C17: the positions passed are index-aligned with the particle sequence the forcing was evaluated for (cached K, A: len(K) == len(X))", V.s_cmp("==", getattr(a.force, "nK", n), n)),
            ("the loaded grid has a non-empty valid region", grid.attrs["imax"] >= 3),
            ("metric positive", ForallP(n, lambda p: z3.And(dx(p) > 0, dy(p) > 0))),
            ("every position lies in the valid region", valid_pos(grid, a.X, a.Y)),
        ]

    def model(self, cx, a):
        tab = TABLEAUX[self.tableau]
        t = a.self.attrs
        fx, fy, fz = a.X.fn, a.Y.fn, a.Z.fn
        dx, dy = t["dx"].fn, t["dy"].fn
        dt = t["dt"]
        lim = (t["xmin"], t["xmax"], t["ymin"], t["ymax"])
        n = a.X.shape[0]
        a.force.calls.extend(V.to_real(V.to_z3(c)) for c in tab["c"])
        U = Arr((n,), lambda p: rk_velocity(tab, fx(p), fy(p), fz(p), dt / dx(p), dt / dy(p), lim)[0], "real")
        Vv = Arr((n,), lambda p: rk_velocity(tab, fx(p), fy(p), fz(p), dt / dx(p), dt / dy(p), lim)[1], "real")
        return (U, Vv)

    def compare_roots(self, a, b, result):
        return [("input X unchanged", a.X, b.X), ("input Y unchanged", a.Y, b.Y), ("input Z unchanged", a.Z, b.Z)]

    callees = {"ladim.tracker.RKstep": RKstep(), "ladim.tracker.clip": Clip(), "ladim.tracker.RK4avg": RK4avg()}
    inline = ()


class EF(_Scheme):
    func = "ladim.tracker.Tracker.EF"
    name = "Tracker.EF"
    scheme = "EF"
    tableau = "EF"


class RK2(_Scheme):
    """Any of the classical two-stage second-order tableaux is 'the selected scheme' (the code implements the
    midpoint rule; its docstring says Heun): the contract holds if one of them matches."""

    func = "ladim.tracker.Tracker.RK2"
    name = "Tracker.RK2"
    scheme = "RK2"
    tableau = "RK2-midpoint"

    def alternatives(self):
        out = []
        for t in ("RK2-heun", "RK2-ralston"):
            alt = RK2()
            alt.tableau = t
            alt.name = f"Tracker.RK2 as {t}"
            alt.alternatives = lambda: []
            out.append(alt)
        return out


class RK4(_Scheme):
    func = "ladim.tracker.Tracker.RK4"
    name = "Tracker.RK4"
    scheme = "RK4"
    tableau = "RK4"


# ---------------------------------------------------------------- diffusion


class Diffuse(Spec):
    """Two independent draws scaled by sqrt(2 D / dt) (a velocity)."""

    func = "ladim.tracker.Tracker.diffuse"
    name = "Tracker.diffuse"
    properties = ("C11",)
    inline = ()

    def inputs(self, cx):
        trk, _grid = make_tracker(cx, None, "")
        return Args(self=trk, num_particles=N(cx))

    def model(self, cx, a):
        t = a.self.attrs
        s = V.s_sqrt(2 * t["D"] / t["dt"])
        n = a.num_particles
        rng = t["rng"]
        normal = rng.pv_getattr(cx, "normal")
        xa = normal(None, size=n)
        xb = normal(None, size=n)
        fa, fb = xa.fn, xb.fn
        return (Arr((n,), lambda p: s * fa(p), "real"), Arr((n,), lambda p: s * fb(p), "real"))

    def compare_roots(self, a, b, result):
        return [("random generator", a.self.attrs["rng"], b.self.attrs["rng"])]

    def ensures(self, cx, a, result):
        t = a.self.attrs
        n = a.num_particles
        out = []
        if isinstance(result, tuple) and len(result) == 2 and all(isinstance(r, Arr) for r in result):
            U, Vv = result
            xi1, xi2 = z3.Function("xi1", z3.IntSort(), z3.RealSort()), z3.Function("xi2", z3.IntSort(), z3.RealSort())
            c = z3.Real("c_diff")
            fu, fv = U.fn, Vv.fn
            # variance algebra: U = c*xi_a, V = c*xi_b with c >= 0 and c^2 == 2 D / dt
            cval = V.s_sqrt(2 * t["D"] / t["dt"])
            out.append(("U[p] == c*xi_1[p], V[p] == c*xi_2[p] with c >= 0 and c^2 == 2*D/dt (distinct draws)", ForallP(n, lambda p: z3.And(fu(p) == cval * xi1(p), fv(p) == cval * xi2(p), cval >= 0, cval * cval == 2 * t["D"] / t["dt"]))))
        return out


class DiffuseVert(Spec):
    func = "ladim.tracker.Tracker.diffuse_vert"
    name = "Tracker.diffuse_vert"
    properties = ("C11",)
    inline = ()

    def inputs(self, cx):
        trk, _grid = make_tracker(cx, None, "")
        return Args(self=trk, num_particles=N(cx))

    def model(self, cx, a):
        t = a.self.attrs
        s = V.s_sqrt(2 * t["Dz"] / t["dt"])
        n = a.num_particles
        normal = t["rng"].pv_getattr(cx, "normal")
        xa = normal(None, size=n)
        fa = xa.fn
        return Arr((n,), lambda p: s * fa(p), "real")

    def compare_roots(self, a, b, result):
        return [("random generator", a.self.attrs["rng"], b.self.attrs["rng"])]

    def ensures(self, cx, a, result):
        t = a.self.attrs
        cval = V.s_sqrt(2 * t["Dz"] / t["dt"])
        return [("c >= 0 and c^2 == 2*Dz/dt", z3.And(cval >= 0, cval * cval == 2 * t["Dz"] / t["dt"]))]


# ---------------------------------------------------------------- Tracker.update


class Update(Spec):
    """One tracking step (properties C01.6, C09, C11, C15; frame for C14).

    The specification is written from the property statements: displacement
    U*dt/dx with the metric of the start cell; a move leaving the valid region
    kills (and inactivates) the particle; inactive particles and moves onto land
    keep their position; depth moves by (Wdiff + w)*dt, reflected at the surface
    and at the bottom depth of the start cell."""

    func = "ladim.tracker.Tracker.update"
    properties = ("C01", "C09", "C11", "C14", "C15", "C17")
    scheme = ""
    inline = ("ladim.state.State.__getattr__", "ladim.state.State.__setitem__", "ladim.state.State.__getitem__", "ladim.state.State.__len__")

    def __init__(self, scheme=""):
        self.scheme = scheme
        self.name = f"Tracker.update[{scheme or 'no advection'}]"
        self.callees = dict(GRID_CALLEES)
        self.callees.update(
            {
                "ladim.tracker.Tracker.EF": EF(),
                "ladim.tracker.Tracker.RK2": RK2(),
                "ladim.tracker.Tracker.RK4": RK4(),
                "ladim.tracker.Tracker.diffuse": Diffuse(),
                "ladim.tracker.Tracker.diffuse_vert": DiffuseVert(),
            }
        )

    def inputs(self, cx):
        n = N(cx)
        trk, grid = make_tracker(cx, n, self.scheme)
        state = make_state(cx, n)
        W = sym_array("force_w", (z3.Int("nK"),), "real")
        force = AbstractForce(grid, z3.Int("nK"), W=W)
        trk.attrs["modules"] = dict(state=state, grid=grid, forcing=force)
        if self.scheme:
            cx_repo = cx.repo
            mod, cname, node = cx_repo.lookup(f"ladim.tracker.Tracker.{self.scheme}")
            trk.attrs["advect"] = BoundMethod(trk, PyFunc(f"ladim.tracker.Tracker.{self.scheme}", mod, cname, node))
        return Args(self=trk)

    def requires(self, cx, a):
        t = a.self.attrs
        st = t["modules"]["state"]
        grid = t["modules"]["grid"]
        force = t["modules"]["forcing"]
        v = st.attrs["variables"]
        n = v["X"].shape[0]
        fx, fy, fz = v["X"].fn, v["Y"].fn, v["Z"].fn
        H = grid.attrs["H"].fn
        from .common import cell_index

        return [
            ("grid has a non-empty valid region", z3.And(grid.attrs["imax"] >= 3, grid.attrs["jmax"] >= 3)),
            # state invariant (C09): every particle in the state sits in the valid region, in a sea cell
            ("state invariant: positions valid", valid_pos(grid, v["X"], v["Y"])),
            ("state invariant: positions at sea", ForallP(n, lambda p: at_sea(grid, fx(p), fy(p)))),
            ("state invariant: active particles are alive", ForallP(n, lambda p: z3.Implies(v["active"].fn(p), v["alive"].fn(p)))),
            # alignment (C14): the forcing's cached per-particle arrays belong to this state
            ("forcing was evaluated for exactly these particles", force.nK == V.to_z3(n)),
        ]

    def model(self, cx, a):
        from .common import cell_index

        t = a.self.attrs
        st = t["modules"]["state"]
        grid = t["modules"]["grid"]
        force = t["modules"]["forcing"]
        v = st.attrs["variables"]
        n = v["X"].shape[0]
        fx, fy, fz = v["X"].fn, v["Y"].fn, v["Z"].fn
        alive, active = v["alive"].fn, v["active"].fn
        dxa, dya, Ha = grid.attrs["dx"].fn, grid.attrs["dy"].fn, grid.attrs["H"].fn
        dt = t["dt"]
        g = grid.attrs
        c = z3.RealVal("1/100")
        lim = (g["xmin"] + c, g["xmax"] - c, g["ymin"] + c, g["ymax"] - c)
        tab = {"": None, "EF": TABLEAUX["EF"], "RK2": TABLEAUX["RK2-midpoint"], "RK4": TABLEAUX["RK4"]}[self.scheme]
        normal = t["rng"].pv_getattr(cx, "normal")

        M = V.memo
        dx_p = M(lambda p: dxa(*cell_index(grid, fx(p), fy(p))))
        dy_p = M(lambda p: dya(*cell_index(grid, fx(p), fy(p))))

        zero = z3.RealVal(0)
        if tab is not None:
            uadv = M(lambda p: rk_velocity(tab, fx(p), fy(p), fz(p), dt / dx_p(p), dt / dy_p(p), lim)[0])  # noqa: E731
            vadv = M(lambda p: rk_velocity(tab, fx(p), fy(p), fz(p), dt / dx_p(p), dt / dy_p(p), lim)[1])  # noqa: E731
        else:
            uadv = vadv = lambda p: zero  # noqa: E731
        info = dict(diff=False, vdiff=False, vadv=False)
        if cx.decide(t["diffusion"]):
            xa, xb = normal(None, size=n), normal(None, size=n)
            s = V.s_sqrt(2 * t["D"] / dt)
            fa, fb = xa.fn, xb.fn
            u = M(lambda p: uadv(p) + s * fa(p))  # noqa: E731
            w_ = M(lambda p: vadv(p) + s * fb(p))  # noqa: E731
            info.update(diff=True, s=s, xa=fa, xb=fb)
        else:
            u, w_ = uadv, vadv
        X1 = M(lambda p: fx(p) + u(p) * dt / dx_p(p))  # noqa: E731
        Y1 = M(lambda p: fy(p) + w_(p) * dt / dy_p(p))  # noqa: E731
        out = M(lambda p: z3.Not(in_valid(grid, X1(p), Y1(p))))  # noqa: E731
        alive1 = M(lambda p: z3.And(alive(p), z3.Not(out(p))))  # noqa: E731
        active1 = M(lambda p: z3.And(active(p), z3.Not(out(p))))  # noqa: E731
        moved = M(lambda p: z3.And(active1(p), at_sea(grid, X1(p), Y1(p))))  # noqa: E731
        v["X"] = Arr((n,), lambda p: z3.If(moved(p), X1(p), fx(p)), "real")
        v["Y"] = Arr((n,), lambda p: z3.If(moved(p), Y1(p), fy(p)), "real")
        v["alive"] = Arr((n,), alive1, "bool")
        v["active"] = Arr((n,), active1, "bool")
        info.update(X1=X1, Y1=Y1, moved=moved, dx_p=dx_p, dy_p=dy_p)
        if cx.decide(z3.Or(t["vertdiff"], t["vertical_advection"])):
            h = M(lambda p: Ha(*cell_index(grid, fx(p), fy(p))))  # noqa: E731
            d = lambda p: zero  # noqa: E731
            if cx.decide(t["vertdiff"]):
                xc = normal(None, size=n)
                fc = xc.fn
                sz = V.s_sqrt(2 * t["Dz"] / dt)
                d = lambda p, d=d: d(p) + sz * fc(p) * dt  # noqa: E731
                info.update(vdiff=True, sz=sz, xc=fc)
            if cx.decide(t["vertical_advection"]):
                wf = force.variables["w"].fn
                d = lambda p, d=d: d(p) + wf(p) * dt  # noqa: E731
                info.update(vadv=True)

            def znew(p):
                z1 = fz(p) + d(p)
                z2 = z3.If(z1 < 0, -z1, z1)
                return z3.If(z2 > h(p), 2 * h(p) - z2, z2)

            v["Z"] = Arr((n,), znew, "real")
            # C15 / C11 speak of a particle inside the water column whose vertical displacement is smaller than the depth
            # (one reflection brings it back); what happens to other particles is not specified by any property
            v["Z"].cmp_guard = lambda p: z3.And(fz(p) >= 0, fz(p) <= h(p), d(p) < h(p), -d(p) < h(p))  # noqa: E731
            v["Z"].cmp_guard_text = "for a depth inside the water column and |vertical displacement| < depth: the cases C15 and C11 speak of"
            info.update(h=h, d=d)
        self._info = info
        return None

    def compare_roots(self, a, b, result):
        ta, tb = a.self.attrs, b.self.attrs
        return [
            ("state after the step", ta["modules"]["state"], tb["modules"]["state"]),
            ("random generator", ta["rng"], tb["rng"]),
        ]

    def ensures(self, cx, a, result):
        """Lemmas of the properties on the *real* post-state (pre-state symbols have fixed names)."""
        from .common import cell_index

        t = a.self.attrs
        st = t["modules"]["state"]
        grid = t["modules"]["grid"]
        v = st.attrs["variables"]
        n = v["X"].shape[0]
        pre = make_state(cx, n).attrs["variables"]  # same symbols as the pre-state
        fx, fy, fz = pre["X"].fn, pre["Y"].fn, pre["Z"].fn
        nx, ny, nz = v["X"].fn, v["Y"].fn, v["Z"].fn
        info = getattr(self, "_info", {})
        out = [
            ("C09: the dead stay dead (alive' => alive)", ForallP(n, lambda p: z3.Implies(v["alive"].fn(p), pre["alive"].fn(p)))),
            ("C09: state invariant kept: every particle in the valid region", ForallP(n, lambda p: in_valid(grid, nx(p), ny(p)))),
            ("C09: state invariant kept: every particle in a sea cell", ForallP(n, lambda p: at_sea(grid, nx(p), ny(p)))),
            ("C09: inactive particles are not moved horizontally", ForallP(n, lambda p: z3.Implies(z3.Not(pre["active"].fn(p)), z3.And(nx(p) == fx(p), ny(p) == fy(p))))),
            ("C09: a move that would leave the valid region kills the particle", ForallP(n, lambda p: z3.Implies(z3.Not(in_valid(grid, info["X1"](p), info["Y1"](p))), z3.And(z3.Not(v["alive"].fn(p)), z3.Not(v["active"].fn(p)))))),
            ("C09: a move onto land is cancelled", ForallP(n, lambda p: z3.Implies(z3.And(in_valid(grid, info["X1"](p), info["Y1"](p)), z3.Not(at_sea(grid, info["X1"](p), info["Y1"](p)))), z3.And(nx(p) == fx(p), ny(p) == fy(p))))),
            ("C09: active particles are alive", ForallP(n, lambda p: z3.Implies(v["active"].fn(p), v["alive"].fn(p)))),
            ("C05: pid untouched", ForallP(n, lambda p: v["pid"].fn(p) == pre["pid"].fn(p))),
        ]
        if "h" in info:
            h, d = info["h"], info["d"]
            out.append(
                (
                    "C15: depth stays in [0, h(start cell)] when |displacement| < h",
                    ForallP(n, lambda p: z3.Implies(z3.And(fz(p) >= 0, fz(p) <= h(p), d(p) < h(p), -d(p) < h(p)), z3.And(nz(p) >= 0, nz(p) <= h(p)))),
                )
            )
        else:
            out.append(("C15: both vertical switches off: depth array is the same object, unchanged", v["Z"] is self._z_before if hasattr(self, "_z_before") else True))
            out.append(("C15: both vertical switches off: depth unchanged", ForallP(n, lambda p: nz(p) == fz(p))))
        if info.get("diff") and self.scheme == "":
            s, xa, xb, dx_p, dy_p, moved = info["s"], info["xa"], info["xb"], info["dx_p"], info["dy_p"], info["moved"]
            dt, D = t["dt"], t["D"]
            out.append(
                (
                    "C11: still water: displacement == c*xi with c^2 == 2*D*dt/dx^2, separate draws per direction",
                    ForallP(
                        n,
                        lambda p: z3.Implies(
                            moved(p),
                            z3.And(
                                nx(p) - fx(p) == (s * dt / dx_p(p)) * xa(p),
                                ny(p) - fy(p) == (s * dt / dy_p(p)) * xb(p),
                                (s * dt / dx_p(p)) * (s * dt / dx_p(p)) * dx_p(p) * dx_p(p) == 2 * D * dt,
                                (s * dt / dy_p(p)) * (s * dt / dy_p(p)) * dy_p(p) * dy_p(p) == 2 * D * dt,
                            ),
                        ),
                    ),
                )
            )
        if not info.get("diff") and not info.get("vdiff"):
            out.append(("C11/C14: no random draw when the diffusion coefficients are zero", t["rng"].draws == 0))
        # C14: non-interference, decided structurally on the symbolic post-state of the real code
        from pyvc.spec import own_index_only

        pp = z3.Int("p_own")
        names = {"st_" + k for k in ("pid", "X", "Y", "Z", "alive", "active")} | {"force_w", "xi1", "xi2", "xi3"}
        ok = all(own_index_only(v[k].fn(pp), pp, names) for k in ("X", "Y", "Z", "alive", "active", "pid") if isinstance(v.get(k), Arr))
        out.append(("C14: element p of every state variable after the step depends on particle p's own data only (no read of another particle, no reduction over particles)", ok))
        return out


# ---------------------------------------------------------------- Tracker.__init__
# The pre-state the contracts of update/EF/RK2/RK4/diffuse assume (make_tracker) is what the constructor establishes.


class TrackerInit(Spec):
    """__init__: dt in seconds, advection normalised to one of "", EF, RK2, RK4 with ``advect`` bound to the method of
    that name, switches diffusion == (D > 0), vertdiff == (Dz > 0), coefficients stored unchanged, an own random generator."""

    func = "ladim.tracker.Tracker.__init__"
    properties = ("C01", "C11", "C15")
    inline = ()

    def __init__(self, advection):
        self.advection = advection
        self.name = f"Tracker.__init__[advection={advection!r}]"
        if advection not in ("EF", "RK2", "RK4", ""):
            # no property says what an unknown scheme name does: refusing it is as good as running without advection
            self.may_raise = ("ValueError", "SystemExit", "KeyError", "AttributeError", "TypeError")

        def default_rng(interp, *a, **k):
            return Rng()

        self.externals = {"numpy.random.default_rng": default_rng}

    def inputs(self, cx):
        from .timekeeper import make_timer

        timer = make_timer(cx)
        return Args(self=Obj("ladim.tracker.Tracker"), advection=self.advection, diffusion=z3.Real("diffusion_given"), vertdiff=z3.Real("vertdiff_given"),
                    vertical_advection=z3.Bool("vertadv_given"), modules=dict(time=timer))

    def call_args(self, a):
        return [a.self], dict(advection=a.advection, diffusion=a.diffusion, vertdiff=a.vertdiff, vertical_advection=a.vertical_advection, modules=a.modules)

    def model(self, cx, a):
        return NotImplemented

    def ensures(self, cx, a, result):
        from pyvc.interp import BoundMethod

        t = a.self.attrs
        valid = self.advection in ("EF", "RK2", "RK4")
        out = [
            ("C01: dt is the model time step in seconds", V.s_cmp("==", t.get("dt", -1), z3.ToReal(a.modules["time"].attrs["dt"]))),
            ("C01: advection is the requested scheme, or '' for anything that is not EF, RK2 or RK4", t.get("advection") == (self.advection if valid else "")),
            ("C11: diffusion switch == (coefficient > 0)", V.s_cmp("==", t.get("diffusion"), a.diffusion > 0)),
            ("C11: D == the configured horizontal coefficient", V.s_cmp("==", t.get("D", -1), a.diffusion)),
            ("C11/C15: vertical diffusion switch == (coefficient > 0)", V.s_cmp("==", t.get("vertdiff"), a.vertdiff > 0)),
            ("C11/C15: Dz == the configured vertical coefficient", V.s_cmp("==", t.get("Dz", -1), a.vertdiff)),
            ("C15: vertical advection switch as configured", V.s_cmp("==", t.get("vertical_advection"), a.vertical_advection)),
            ("C11: the tracker owns a random generator, nothing drawn yet", isinstance(t.get("rng"), Rng) and t["rng"].draws == 0),
            ("modules kept", t.get("modules") is a.modules),
        ]
        if valid:
            adv = t.get("advect")
            out.append(("C01: advect is the method that implements the requested scheme", isinstance(adv, BoundMethod) and adv.obj is a.self and adv.func.qual == f"ladim.tracker.Tracker.{self.advection}"))
        else:
            out.append(("C01: no advection method bound for an invalid/empty scheme name", "advect" not in t))
        return out


TRACKER_INIT_UNITS = [TrackerInit(s) for s in ("EF", "RK2", "RK4", "", "Euler")]


# ---------------------------------------------------------------- update after a history (constructor + an earlier update)
# The contract of update is stated over a pre-state the contract describes. A tracker object may carry further
# attributes (values kept from earlier calls); what they hold is fixed by the code that wrote them. This unit builds
# the tracker with the REAL constructor, lets the REAL update run once on an arbitrary earlier state, lets the
# environment replace the state by an arbitrary well-formed one (other particles, same or different number), and then
# verifies the next update against the same specification: nothing carried over from the earlier call may matter.


class UpdateAfterHistory(Update):
    # the constructor and the earlier update are EXECUTED (their bodies are the history), not used through contracts
    inline = tuple(Update.inline) + ("ladim.tracker.Tracker.__init__", "ladim.tracker.Tracker.update")

    def __init__(self, scheme=""):
        super().__init__(scheme)
        self.name = f"Tracker.update[{scheme or 'no advection'}, after the real constructor and an earlier update on another state]"
        self.externals = dict(getattr(self, "externals", {}) or {})
        self.externals["numpy.random.default_rng"] = lambda interp, *a, **k: Rng()

    def inputs(self, cx):
        from pyvc.interp import Interp

        base = Update.inputs(self, cx)
        calls = cx.ghost.get("history_inputs_calls", 0)
        cx.ghost["history_inputs_calls"] = calls + 1
        trk0 = base.self
        if calls >= 1:
            # the specification's copy: the contract-described pre-state; only the draw counter continues
            trk0.attrs["rng"].draws = cx.ghost.get("history_draws", 0)
            return base
        t0 = trk0.attrs
        mods = t0["modules"]
        st, grid, force = mods["state"], mods["grid"], mods["forcing"]
        # --- the real constructor
        dt_int = z3.Int("dt_seconds")
        cx.assume(z3.And(dt_int > 0, t0["dt"] == z3.ToReal(dt_int)))  # dt is a whole number of seconds (timedelta64[s])
        timer = Obj("ladim.timekeeper.TimeKeeper", dt=dt_int)
        hn = z3.Int("hist_n")
        cx.assume(hn >= 0)
        hst = make_state(cx, hn, prefix="hist_")
        hforce = AbstractForce(grid, hn, W=sym_array("hist_force_w", (hn,), "real"))
        modules = dict(state=hst, grid=grid, forcing=hforce, time=timer)
        trk = Obj("ladim.tracker.Tracker")
        interp = Interp(cx)
        mod, cname, node = cx.repo.lookup("ladim.tracker.Tracker.__init__")
        n_obl = len(cx.obls)
        cx.ghost["history_phase"] = True  # obligations of the earlier call are not this unit's (discarded below)
        interp.call_value(BoundMethod(trk, PyFunc("ladim.tracker.Tracker.__init__", mod, cname, node)), [],
                          dict(advection=self.scheme, diffusion=t0["D"], vertdiff=t0["Dz"], vertical_advection=t0["vertical_advection"], modules=modules))
        # --- an earlier update on an arbitrary well-formed state (its own obligations are not what is verified here)
        hv = hst.attrs["variables"]
        hx, hy = hv["X"].fn, hv["Y"].fn
        cx.assume_item(valid_pos(grid, hv["X"], hv["Y"]))
        cx.assume_item(ForallP(hn, lambda p: at_sea(grid, hx(p), hy(p))))
        cx.assume_item(ForallP(hn, lambda p: z3.Implies(hv["active"].fn(p), hv["alive"].fn(p))))
        mod, cname, node = cx.repo.lookup("ladim.tracker.Tracker.update")
        interp.call_value(BoundMethod(trk, PyFunc("ladim.tracker.Tracker.update", mod, cname, node)), [], {})
        del cx.obls[n_obl:]
        cx.ghost["history_phase"] = False
        cx.ghost["history_draws"] = trk.attrs["rng"].draws if isinstance(trk.attrs.get("rng"), Rng) else 0
        # --- the environment replaces the state (release, removal, IBM ...): the contract's arbitrary pre-state
        trk.attrs["modules"] = dict(state=st, grid=grid, forcing=force, time=timer)
        return Args(self=trk)


class DiffuseAfterHistory(Diffuse):
    """diffuse on a tracker built by the real constructor that has served an earlier diffuse call (another particle
    count or the same): the call draws two FRESH vectors (draw counter + 2), nothing is reused."""

    name = "Tracker.diffuse[after the real constructor and an earlier diffuse call]"
    inline = ("ladim.tracker.Tracker.__init__", "ladim.tracker.Tracker.diffuse")

    def __init__(self, same_count):
        self.same_count = same_count
        self.name = f"Tracker.diffuse[after the real constructor and an earlier call for {'the same' if same_count else 'another'} number of particles]"
        self.externals = {"numpy.random.default_rng": lambda interp, *a, **k: Rng()}

    def inputs(self, cx):
        from pyvc.interp import Interp

        base = Diffuse.inputs(self, cx)
        calls = cx.ghost.get("history_inputs_calls", 0)
        cx.ghost["history_inputs_calls"] = calls + 1
        t0 = base.self.attrs
        if calls >= 1:
            t0["rng"].draws = cx.ghost.get("history_draws", 0)
            return base
        dt_int = z3.Int("dt_seconds")
        cx.assume(z3.And(dt_int > 0, t0["dt"] == z3.ToReal(dt_int)))
        trk = Obj("ladim.tracker.Tracker")
        interp = Interp(cx)
        n_obl = len(cx.obls)
        cx.ghost["history_phase"] = True  # obligations of the earlier call are not this unit's (discarded below)
        mod, cname, node = cx.repo.lookup("ladim.tracker.Tracker.__init__")
        interp.call_value(BoundMethod(trk, PyFunc("ladim.tracker.Tracker.__init__", mod, cname, node)), [],
                          dict(advection="", diffusion=t0["D"], vertdiff=t0["Dz"], vertical_advection=t0["vertical_advection"], modules=dict(time=Obj("ladim.timekeeper.TimeKeeper", dt=dt_int))))
        hn = base.num_particles if self.same_count else z3.Int("hist_n")
        cx.assume(V.to_z3(hn) >= 0)
        mod, cname, node = cx.repo.lookup("ladim.tracker.Tracker.diffuse")
        interp.call_value(BoundMethod(trk, PyFunc("ladim.tracker.Tracker.diffuse", mod, cname, node)), [hn], {})
        del cx.obls[n_obl:]
        cx.ghost["history_phase"] = False
        cx.ghost["history_draws"] = trk.attrs["rng"].draws if isinstance(trk.attrs.get("rng"), Rng) else 0
        return Args(self=trk, num_particles=base.num_particles)

    def ensures(self, cx, a, result):
        return []


HISTORY_UNITS = [UpdateAfterHistory(""), UpdateAfterHistory("EF"), DiffuseAfterHistory(True), DiffuseAfterHistory(False)]
