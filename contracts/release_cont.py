"""Continuous release (C04, C08, C10): contracts for ParticleReleaser.discretize and for the constructor in continuous mode.

pandas is external. ``discretize`` is the composition

    times = np.arange(first file time, stop_time, +-release_frequency)
    T = DataFrame(times, columns=["times"]);  B = df.groupby(df.index).agg(lambda x: x.tolist())
    S = T.join(B, on="times").ffill().set_index("times");  S = S.explode(all columns)

Assumed contracts of the pandas operations (stated here, exercised on the real library by the bounded release sweep):
* ``groupby(index).agg(tolist)`` has one row per distinct file time, each cell the list of that time's values in file order;
* ``T.join(B, on="times")`` has one row per tick k, holding B's row whose time EQUALS tick k (NaN if none);
* ``ffill`` replaces a NaN row by the latest earlier non-NaN row; ``explode`` turns row k into one row per list element,
  in order, all with index tick k.
Their composition is the *discretised table* ``DiscTable``: rows (k, r) = (tick number, file row) with
    0 <= k < n,  base(r),  row_time(r) == time of the latest tick j <= k at which some base row has its time
ordered by k, then by file order.  What is VERIFIED: that the real code builds exactly this composition with the
specified parameters (anchor = first file time, end = stop time, step = +-release frequency), that the constructor feeds
it the rows of the stop window (all of them, whatever their mult) and afterwards keeps exactly the ticks from the start
time on; and the lemma that, for file times on the tick grid (the property's quantifier), the rows released at tick k are
exactly the base rows of the LATEST FILE TIME not later than tick k.
"""
from __future__ import annotations

import ast

import z3

from pyvc import values as V
from pyvc.interp import Closure, ModelObject, Obj, UnivFact
from pyvc.spec import Args, Lemma, Spec
from pyvc.values import Unsupported

from .release_init import GroupBy, Index, Mask, Opaque, Table, UniqueTimes, nrows, row_time, row_time_decl
from .timekeeper import make_timer, time2step_spec

row_mult_decl = z3.Function("row_mult", z3.IntSort(), z3.IntSort())
tick_decl = z3.Function("tick_time", z3.IntSort(), z3.IntSort())


def row_mult(r):
    return V.app(row_mult_decl, r)


def tick(k):
    return V.app(tick_decl, k)


class MultColumn(ModelObject):
    def __init__(self, table):
        self.table = table

    def compare(self, op, other):
        o = V.to_z3(other)
        f = {">": lambda r: row_mult(r) > o, ">=": lambda r: row_mult(r) >= o, "!=": lambda r: row_mult(r) != o, "<": lambda r: row_mult(r) < o, "<=": lambda r: row_mult(r) <= o, "==": lambda r: row_mult(r) == o}[op]
        return Mask(self.table, f)

    def pv_getattr(self, cx, name):
        if name == "sum":
            f = lambda interp: z3.Int("sum_of_mult_column")  # noqa: E731
            f._pyvc_model = True
            return f
        raise Unsupported(f"mult column.{name}")


class CTable(Table):
    """File rows with a predicate; the mult column can be compared (row selection by mult)."""

    def pv_getattr(self, cx, name):
        if name == "mult":
            return MultColumn(self)
        if name == "dtypes":
            return [Opaque(f"dtype of {c}") for c in sorted(self.columns)]
        if name == "columns":
            return sorted(self.columns)
        return super().pv_getattr(cx, name)

    def pv_getitem(self, cx, key):
        if isinstance(key, Mask) and key.table is self:
            p0, p1 = self.pred, key.pred
            t = CTable(cx, lambda r: z3.And(p0(r), p1(r)), self.columns)
            t.extra_cols = dict(self.extra_cols)
            return t
        return super().pv_getitem(cx, key)

    def first_time(self, cx):
        """``df.index.unique()[0]``: time of the first kept row; for a table sorted in simulation order no kept row is
        earlier (in simulation order). Requires a non-empty table."""
        if getattr(self, "_first", None) is None:
            t0 = cx.fresh("first_file_time")
            w = cx.fresh("first_row")
            pred = self.pred
            rev = cx.ghost["time_reversal"]
            cx.assume(z3.And(w >= 0, w < nrows, V.to_z3(pred(w)), row_time(w) == t0))
            cx.univ.append(UnivFact(1, lambda r: z3.Implies(z3.And(r >= 0, r < nrows, V.to_z3(pred(r))), z3.If(rev, row_time(r) <= t0, row_time(r) >= t0)), decls=[row_time_decl]))
            self._first = t0
        return self._first


class CUnique(ModelObject):
    def __init__(self, cx, table):
        self.table = table
        self.inner = UniqueTimes(cx, table)

    def pv_getitem(self, cx, idx):
        if idx == 0 and isinstance(self.table, CTable):
            return self.table.first_time(cx)
        raise Unsupported("element of the distinct file times other than the first")

    def pv_len(self, cx):
        return self.inner.pv_len(cx)

    def pv_comprehension(self, interp, node, env, mod):
        return self.inner.pv_comprehension(interp, node, env, mod)


class CIndex(Index):
    def pv_getitem(self, cx, idx):
        # the time of some row (position not tracked: an arbitrary time)
        return cx.fresh("index_element")

    def pv_getattr(self, cx, name):
        if name == "unique":
            f = lambda interp: CUnique(cx, self.table)  # noqa: E731
            f._pyvc_model = True
            return f
        return super().pv_getattr(cx, name)


# -------------------------------------------------------------------------------- the pandas pipeline


class TickAxis(ModelObject):
    """np.arange(start, stop, step) over times"""

    def __init__(self, start, stop, step):
        self.start, self.stop, self.step = start, stop, step


class TickFrame(ModelObject):
    def __init__(self, axis, column):
        self.axis, self.column = axis, column

    def pv_getattr(self, cx, name):
        if name == "join":
            me = self

            def join(interp, other, on=None, how="left"):
                if not isinstance(other, Unexploded):
                    raise Unsupported("join with something else than the grouped release table")
                return Pipeline(me.axis, other.table, on_ok=(on == me.column and how == "left"))

            join._pyvc_model = True
            return join
        raise Unsupported(f"DataFrame.{name}")


class CGroupBy(GroupBy):
    def pv_getattr(self, cx, name):
        if name == "agg":
            me = self

            def agg(interp, func):
                ok = isinstance(func, Closure) and ast.unparse(func.node.body).replace(" ", "") == f"{func.node.args.args[0].arg}.tolist()"
                if not ok or me.sort is not True:
                    raise Unsupported("groupby aggregation other than lambda x: x.tolist()")
                return Unexploded(me.table)

            agg._pyvc_model = True
            return agg
        raise Unsupported(f"groupby.{name}")


class Unexploded(ModelObject):
    def __init__(self, table):
        self.table = table


class ColList(ModelObject):
    def __init__(self, owner):
        self.owner = owner

    def pv_getattr(self, cx, name):
        if name == "tolist":
            f = lambda interp: self  # noqa: E731
            f._pyvc_model = True
            return f
        raise Unsupported(f"columns.{name}")


class Pipeline(ModelObject):
    """T.join(B, on=...) and what is applied to it afterwards"""

    def __init__(self, axis, table, on_ok, fill=None, indexed=False, exploded=False):
        self.axis, self.table, self.on_ok, self.fill, self.indexed, self.exploded = axis, table, on_ok, fill, indexed, exploded
        self.retyped = set()

    def _next(self, **kw):
        d = dict(axis=self.axis, table=self.table, on_ok=self.on_ok, fill=self.fill, indexed=self.indexed, exploded=self.exploded)
        d.update(kw)
        return Pipeline(**d)

    def pv_getattr(self, cx, name):
        me = self
        if name in ("ffill", "bfill"):
            if self.fill is not None or self.exploded:
                raise Unsupported("fill applied twice / after explode")
            f = lambda interp: me._next(fill=name)  # noqa: E731
        elif name == "set_index":
            f = lambda interp, col: me._next(indexed=(col == "times"))  # noqa: E731
        elif name == "columns":
            return ColList(self)
        elif name == "explode":

            def f(interp, column=None):
                if not (isinstance(column, ColList) and column.owner is me):
                    raise Unsupported("explode of a column subset")
                return me._next(exploded=True)

        else:
            raise Unsupported(f"DataFrame.{name}")
        f._pyvc_model = True
        return f

    def pv_getitem(self, cx, key):
        if isinstance(key, str):
            return PColumn(self, key)
        raise Unsupported("DataFrame item access form")

    def pv_setitem(self, cx, key, val):
        if isinstance(val, PColumn) and val.owner is self and val.name == key and val.retyped:
            self.retyped.add(key)
            return
        raise Unsupported("column assignment in the discretised table")


class PColumn(ModelObject):
    def __init__(self, owner, name, retyped=False):
        self.owner, self.name, self.retyped = owner, name, retyped

    def pv_getattr(self, cx, name):
        if name == "astype":
            f = lambda interp, t: PColumn(self.owner, self.name, True)  # noqa: E731
            f._pyvc_model = True
            return f
        raise Unsupported(f"column.{name}")


# -------------------------------------------------------------------------------- the discretised table


class DiscTable(ModelObject):
    """Rows (k, r): tick k of the axis x file row r of ``base`` with the latest file time not after tick k; ``keep(k)``
    is the selection of ticks applied afterwards."""

    def __init__(self, cx, base, start, stop, step, keep=None, columns=None):
        self.cx, self.base, self.start, self.stop, self.step = cx, base, start, stop, step
        self.keep = keep or (lambda k: z3.BoolVal(True))
        self.columns = set(columns if columns is not None else base.columns)
        self.extra_cols = {}

    def pv_getattr(self, cx, name):
        if name == "columns":
            return set(self.columns)
        if name == "index":
            return DIndex(self)
        if name == "mult":
            return Opaque("mult column")
        if name == "groupby":
            me = self

            def groupby(interp, key, sort=True):
                if not (isinstance(key, DIndex) and key.table is me):
                    raise Unsupported("groupby by something else than the table's own index")
                return GroupBy(me, sort)

            groupby._pyvc_model = True
            return groupby
        raise Unsupported(f"DataFrame.{name}")

    def pv_setitem(self, cx, key, val):
        self.columns.add(key)
        self.extra_cols[key] = val

    def pv_getitem(self, cx, key):
        if isinstance(key, DMask) and key.table is self:
            k0, k1 = self.keep, key.pred
            t = DiscTable(cx, self.base, self.start, self.stop, self.step, lambda k: z3.And(k0(k), k1(k)), self.columns)
            t.extra_cols = dict(self.extra_cols)
            return t
        raise Unsupported("DataFrame item access form")

    def pv_len(self, cx):
        if getattr(self, "_len", None) is None:
            self._len = cx.fresh("nrows_discretised")
            cx.assume(self._len >= 0)
        return self._len


class DIndex(ModelObject):
    def __init__(self, table):
        self.table = table

    def compare(self, op, other):
        o = V.to_z3(other)
        f = {"<=": lambda k: tick(k) <= o, ">=": lambda k: tick(k) >= o, "<": lambda k: tick(k) < o, ">": lambda k: tick(k) > o}[op]
        return DMask(self.table, f)

    def pv_getattr(self, cx, name):
        if name == "unique":
            f = lambda interp: UniqueTimes(cx, self.table)  # noqa: E731
            f._pyvc_model = True
            return f
        raise Unsupported(f"Index.{name}")


class DMask(ModelObject):
    def __init__(self, table, pred):
        self.table, self.pred = table, pred


def pipeline_result(cx, p):
    """The table the assumed pandas contracts give for a completed pipeline (None if it is not the documented one)."""
    if not (isinstance(p, Pipeline) and p.on_ok and p.fill == "ffill" and p.indexed and p.exploded):
        return None
    ax = p.axis
    return DiscTable(cx, p.table, ax.start, ax.stop, ax.step)


def sorted_fact(cx, rev):
    u = UnivFact(2, lambda a, b: z3.Implies(z3.And(a >= 0, a < b, b < nrows), z3.If(rev, row_time(a) >= row_time(b), row_time(a) <= row_time(b))), decls=[row_time_decl])
    u.pairs = True
    cx.univ.append(u)


class Discretize(Spec):
    """discretize builds the documented pipeline: ticks from the FIRST file time to the stop time (exclusive) every
    release_frequency seconds (backwards when time is reversed); forward fill; all columns exploded and re-typed."""

    func = "ladim.release.ParticleReleaser.discretize"
    name = "ParticleReleaser.discretize"
    properties = ("C04", "C08", "C10")
    inline = ()

    def __init__(self):
        def np_arange(interp, start, stop=None, step=1, **kw):
            return TickAxis(start, stop, step)

        def pd_dataframe(interp, data=None, columns=None, **kw):
            if not (isinstance(data, TickAxis) and isinstance(columns, list) and len(columns) == 1):
                raise Unsupported("DataFrame constructor form")
            return TickFrame(data, columns[0])

        def np_sum(interp, x, **kw):
            if isinstance(x, Mask):  # number of selected rows (not tracked further: any count)
                c = interp.cx.fresh("rows_selected")
                interp.cx.assume(c >= 0)
                return c
            from pyvc.numpy_model import NP_FUNCS

            return NP_FUNCS["numpy.sum"](interp, x, **kw)

        self.externals = {"numpy.arange": np_arange, "pandas.DataFrame": pd_dataframe, "numpy.sum": np_sum}

    def inputs(self, cx):
        rev = z3.Bool("time_reversal")
        cx.ghost["time_reversal"] = rev
        kept = z3.Function("kept0", z3.IntSort(), z3.BoolSort())
        cx.assume(nrows >= 1)
        sorted_fact(cx, rev)
        tab = CTable(cx, lambda r: V.app(kept, r), {"X", "Y", "Z", "mult"})
        tab.pv_getattr_index = True
        freq = z3.Int("release_frequency")
        cx.assume(freq > 0)
        me = Obj("ladim.release.ParticleReleaser", _df=IndexedTable(tab), time_reversal=rev, stop_time=z3.Int("stop_time"), start_time=z3.Int("start_time"), release_frequency=freq)
        a = Args(self=me)
        a._tab, a._freq, a._rev = tab, freq, rev
        return a

    def call_args(self, a):
        return [a.self], {}

    def model(self, cx, a):
        return NotImplemented

    def ensures(self, cx, a, result):
        me = a.self.attrs
        p = me.get("_df")
        out = []
        ok = isinstance(p, Pipeline)
        out.append(("C04: the table is replaced by the time axis joined with the grouped release table", ok))
        if not ok:
            return out
        out.append(("C04: the join is on the tick time (a file time is released at the tick that EQUALS it)", bool(p.on_ok)))
        out.append(("C04: gaps are filled FORWARD: a tick without file entry repeats the latest earlier entry", p.fill == "ffill"))
        out.append(("C04: the tick time becomes the index (release time) and every column is exploded (one row per particle source)", bool(p.indexed and p.exploded)))
        out.append(("C04: the rows come from the table discretize was given (nothing dropped or added before the grouping)", p.table is a._tab))
        ax = p.axis
        out.append(("C04/C08: the ticks are counted from the first file time (not from the start or restart time)", V.to_z3(V.s_cmp("==", ax.start, a._tab.first_time(cx)))))
        out.append(("C04: the ticks end at the stop time (exclusive)", V.to_z3(V.s_cmp("==", ax.stop, me["stop_time"]))))
        out.append(("C04/C10: tick spacing == release frequency, backwards in time exactly when time is reversed", V.to_z3(V.s_cmp("==", ax.step, z3.If(a._rev, -a._freq, a._freq)))))
        out.append(("C04: every column gets its original type back", p.retyped == {"X", "Y", "Z", "mult"}))
        return out


class IndexedTable(ModelObject):
    """wrapper giving the CTable a CIndex (first distinct time) without changing the shared Table class"""

    def __init__(self, tab):
        self.tab = tab

    def pv_getattr(self, cx, name):
        if name == "index":
            return CIndex(self.tab)
        if name == "groupby":
            tab = self.tab

            def groupby(interp, key, sort=True):
                if not (isinstance(key, Index) and key.table is tab):
                    raise Unsupported("groupby by something else than the table's own index")
                return CGroupBy(tab, sort)

            groupby._pyvc_model = True
            return groupby
        return self.tab.pv_getattr(cx, name)

    def pv_getitem(self, cx, key):
        r = self.tab.pv_getitem(cx, key)
        return IndexedTable(r) if isinstance(r, CTable) else r

    def pv_setitem(self, cx, key, val):
        return self.tab.pv_setitem(cx, key, val)

    def pv_len(self, cx):
        return self.tab.pv_len(cx)


# -------------------------------------------------------------------------------- meaning of the pipeline


class DiscretizeMeaning(Lemma):
    """Lemma over the assumed pandas contracts: for file times ON the tick grid, the rows the discretised table holds
    for tick k are exactly the kept file rows of the latest file time not later (in simulation order) than tick k.

    Ghosts: jstar(k) = the tick whose group the forward fill copies into tick k (J1-J3 below are the join/ffill
    contract); m(r) = the tick number of file row r (on-grid assumption of the property's quantifier); tick times are
    strictly monotone in simulation order (lemma TickMonotone: t0 + a*s vs t0 + b*s)."""

    name = "discretize: join + forward fill release, at tick k, exactly the rows of the latest file time not after tick k (file times on the tick grid)"
    properties = ("C04",)

    def formula(self):
        rev = z3.Bool("time_reversal")
        kept = z3.Function("kept0", z3.IntSort(), z3.BoolSort())
        jstar = z3.Function("jstar", z3.IntSort(), z3.IntSort())
        wrow = z3.Function("wrow", z3.IntSort(), z3.IntSort())
        mrow = z3.Function("tick_of_row", z3.IntSort(), z3.IntSort())
        k, r, r2 = z3.Ints("k_any r_any r2_any")

        def le(x, y):  # not later in simulation order
            return z3.If(rev, x >= y, x <= y)

        def lt(x, y):
            return z3.If(rev, x > y, x < y)

        inr = lambda x: z3.And(x >= 0, x < nrows)  # noqa: E731
        # tick times strictly monotone in simulation order, instantiated at the pairs needed below
        def mono(a_, b_):
            return z3.And(z3.Implies(a_ < b_, lt(tick_decl(a_), tick_decl(b_))), z3.Implies(a_ == b_, tick_decl(a_) == tick_decl(b_)), z3.Implies(a_ > b_, lt(tick_decl(b_), tick_decl(a_))))

        def on_grid(x):
            return z3.Implies(z3.And(inr(x), kept(x)), z3.And(mrow(x) >= 0, row_time_decl(x) == tick_decl(mrow(x))))

        def J(kk, rows):
            js = jstar(kk)
            w = wrow(kk)
            fs = [js >= 0, js <= kk, inr(w), kept(w), row_time_decl(w) == tick_decl(js)]
            for x in rows:  # J3 at the tick of row x
                fs.append(z3.Implies(z3.And(inr(x), kept(x), js < mrow(x), mrow(x) <= kk), row_time_decl(x) != tick_decl(mrow(x))))
            return z3.And(*fs)

        pred = lambda kk, x: z3.And(kept(x), row_time_decl(x) == tick_decl(jstar(kk)))  # noqa: E731
        hyp = [k >= 0, inr(r), inr(r2), on_grid(r), on_grid(r2), on_grid(wrow(k)), J(k, [r, r2, wrow(k)])]
        for x in (mrow(r), mrow(r2), jstar(k), k, mrow(wrow(k))):
            for y in (mrow(r), mrow(r2), jstar(k), k, mrow(wrow(k))):
                hyp.append(mono(x, y))
        H = z3.And(*hyp)
        latest = lambda x: z3.And(kept(x), le(row_time_decl(x), tick_decl(k)))  # noqa: E731
        out = []
        out.append(("C04: a row released at tick k belongs to a file time not later than the tick", [H, pred(k, r)], latest(r)))
        out.append(("C04: ... and no kept row has a file time in between (it is the LATEST file time)", [H, pred(k, r), latest(r2)], le(row_time_decl(r2), row_time_decl(r))))
        out.append(("C04: every kept row of the latest file time not later than tick k is released at tick k", [H, latest(r), z3.Implies(latest(wrow(k)), le(row_time_decl(wrow(k)), row_time_decl(r)))], pred(k, r)))
        return out


# -------------------------------------------------------------------------------- the constructor, continuous mode


class ReleaserInitContinuous(Spec):
    """ParticleReleaser.__init__ with continuous=True (cold start): discretize receives ALL rows of the stop window
    (whatever their mult: a row set with mult 0 switches a source off), afterwards exactly the ticks from the start
    time on are kept; groups are consumed in simulation order."""

    func = "ladim.release.ParticleReleaser.__init__"
    properties = ("C04", "C10", "C08")
    inline = ("ladim.timekeeper.TimeKeeper.time2step", "ladim.timekeeper.normalize_period")
    may_raise = ("SystemExit",)

    def __init__(self, has_mult=True):
        self.has_mult = has_mult
        self.name = f"ParticleReleaser.__init__[continuous, cold start, mult column {'given' if has_mult else 'defaulted'}]"
        spec = self

        def read_release_file(interp, args, kwargs):
            cols = {"X", "Y", "Z"} | ({"mult"} if spec.has_mult else set())
            return IndexedTable(CTable(interp.cx, lambda r: z3.BoolVal(True), cols))

        def clean_position(interp, args, kwargs):
            return None

        def discretize(interp, args, kwargs):
            cx = interp.cx
            me = args[0].attrs
            df = me.get("_df")
            tab = df.tab if isinstance(df, IndexedTable) else None
            if not isinstance(tab, CTable):
                raise Unsupported("discretize called on something else than the release table")
            cx.oblige("precondition of discretize: the table is not empty", V.to_z3(tab.pv_len(cx)) > 0, kind="pre")
            cx.oblige("precondition of discretize: release frequency > 0", V.to_z3(V.s_cmp(">", me.get("release_frequency", 0), 0)), kind="pre")
            rev = me["time_reversal"]
            f = V.to_z3(me["release_frequency"])
            me["_df"] = DiscTable(cx, tab, tab.first_time(cx), me["stop_time"], z3.If(V.to_z3(rev), -f, f))
            return None

        self.callees = {
            "ladim.release.ParticleReleaser.read_release_file": read_release_file,
            "ladim.release.ParticleReleaser.clean_position": clean_position,
            "ladim.release.ParticleReleaser.discretize": discretize,
        }

    def inputs(self, cx):
        timer = make_timer(cx)
        t = timer.attrs
        cx.ghost["time_reversal"] = t["time_reversal"]
        cx.assume(nrows >= 0)
        sorted_fact(cx, t["time_reversal"])
        state = Obj(None, dtypes=dict(pid="int", X="float"))
        freq = z3.Int("release_frequency_given")
        cx.assume(freq > 0)
        a = Args(self=Obj("ladim.release.ParticleReleaser"), modules=dict(time=timer, grid=Obj(None), state=state), release_file="release.rls", release_frequency=freq)
        return a

    def call_args(self, a):
        return [a.self], dict(modules=a.modules, release_file=a.release_file, continuous=True, release_frequency=a.release_frequency)

    def model(self, cx, a):
        return NotImplemented

    def ensures(self, cx, a, result):
        me = a.self.attrs
        t = a.modules["time"].attrs
        rev = t["time_reversal"]
        df = me.get("_df")
        out = []
        ok = isinstance(df, DiscTable)
        out.append(("C04: continuous mode: the release table is the discretised table", ok))
        if not ok:
            return out
        r, k = z3.Int("row_any"), z3.Int("tick_any")
        stopwin = lambda x: z3.If(rev, row_time(x) >= t["stop_time"], row_time(x) <= t["stop_time"])  # noqa: E731
        before_stop = lambda x: z3.If(rev, row_time(x) > t["stop_time"], row_time(x) < t["stop_time"])  # noqa: E731
        out.append(("C04: discretize is given every file row before the stop time - ALL of them, also those with mult 0 (they switch a source off)",
                    z3.Implies(z3.And(r >= 0, r < nrows, before_stop(r)), V.to_z3(df.base.pred(r)))))
        out.append(("C04: ... and no row after the stop time (a row at exactly the stop time may be passed: no tick reaches it)",
                    z3.Implies(z3.And(r >= 0, r < nrows, V.to_z3(df.base.pred(r))), stopwin(r))))
        out.append(("C04/C08: ticks counted from the first file time of those rows", V.to_z3(V.s_cmp("==", df.start, df.base.first_time(cx)))))
        out.append(("C04: ticks end at the stop time", V.to_z3(V.s_cmp("==", df.stop, t["stop_time"]))))
        out.append(("C04/C10: tick spacing == the configured release frequency, backwards when time is reversed", V.to_z3(V.s_cmp("==", df.step, z3.If(rev, -a.release_frequency, a.release_frequency)))))
        out.append(("C04: exactly the ticks from the start time on are kept (start inclusive)", V.to_z3(df.keep(k)) == z3.If(rev, tick(k) <= t["start_time"], tick(k) >= t["start_time"])))
        out.append(("C04: a mult column exists (defaulted to 1)", "mult" in df.columns))
        from .release_init import GroupSeq, MappedTimes

        B = me.get("_B")
        okb = isinstance(B, GroupSeq) and B.table is df
        out.append(("C04: _B holds one group per release tick", okb))
        if okb:
            asc = B.order == "ascending-time" and not B.reversed
            desc = B.order == "ascending-time" and B.reversed
            sim = B.order == "first-appearance" and not B.reversed
            out.append(("C04/C10: the groups are in simulation order", z3.If(rev, z3.BoolVal(desc or sim), z3.BoolVal(asc or sim))))
        st = me.get("steps")
        okst = isinstance(st, MappedTimes) and isinstance(st.times, UniqueTimes) and st.times.table is df
        out.append(("C04: steps are the model steps of the release ticks", okst))
        if okst:
            tt = z3.Int("t_any")
            out.append(("C04: step of a release tick == time2step(time)", V.s_cmp("==", st.f(tt), time2step_spec(a.modules["time"], tt))))
        out.append(("C04: release cursor starts at the first group, nothing counted yet", z3.And(V.to_z3(V.s_cmp("==", me.get("_index", -1), 0)), V.to_z3(V.s_cmp("==", me.get("_particle_count", -1), 0)))))
        return out


class TickMonotone(Lemma):
    """t0 + a*s is strictly monotone in a for s != 0 (increasing for s > 0): justifies the monotone tick facts."""

    name = "arange ticks t0 + k*step are strictly monotone and hit an on-grid file time t0 + m*step only at k == m"
    properties = ("C04",)

    def formula(self):
        t0, s, x, y = z3.Ints("t0 s x y")
        return [
            ("forward: x < y and s > 0 imply t0 + x*s < t0 + y*s", [x < y, s > 0], t0 + x * s < t0 + y * s),
            ("reversed: x < y and s < 0 imply t0 + x*s > t0 + y*s", [x < y, s < 0], t0 + x * s > t0 + y * s),
            ("a tick equals an on-grid file time only at its own index", [s != 0, t0 + x * s == t0 + y * s], x == y),
        ]


RELEASE_CONT_UNITS = [Discretize(), ReleaserInitContinuous(True), ReleaserInitContinuous(False)]
RELEASE_CONT_LEMMAS = [DiscretizeMeaning(), TickMonotone()]
