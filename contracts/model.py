"""Contracts for ladim/model.py and the time loop of ladim/main.py (C19, C14, C07): the step protocol as a ghost
trace, and the alignment ghost (for which particle sequence were the forcing's cached arrays computed)."""
from __future__ import annotations

import z3

from pyvc import values as V
from pyvc.interp import ModelObject, Obj
from pyvc.spec import Args, Spec
from pyvc.values import PyRaise, Unsupported


class World:
    """Ghost state shared by the module models of one Model: event trace, particle-sequence version, alignment."""

    def __init__(self, cx):
        self.trace = []
        self.version = z3.Int("state_version")  # changes whenever the particle sequence changes (release, compactify)
        self.aligned = z3.Int("forcing_aligned_version")
        self.dead = z3.Bool("some_particle_dead")  # ghost: the state holds at least one dead particle
        self.n_versions = 0
        self.cx = cx

    def new_version(self, cond, why):
        """The particle sequence changes iff cond."""
        self.n_versions += 1
        v = z3.Int(f"state_version_{self.n_versions}")
        self.cx.assume(z3.If(cond, v > self.version, v == self.version))
        self.version = v


class Module(ModelObject):
    """A plug-in module seen through its base-class contract: update()/close() append their event and nothing else."""

    def __init__(self, world, name, has_close=True, attrs=None):
        self.world, self.name, self.has_close = world, name, has_close
        self.attrs = attrs or {}

    def effect(self, cx, method):
        pass

    def pv_getattr(self, cx, name):
        if name in self.attrs:
            return self.attrs[name]
        if name in ("update", "close") and (name == "update" or self.has_close):
            me = self

            def call(interp, *a, **k):
                me.world.trace.append((me.name, name))
                me.effect(interp.cx, name)
                return None

            call._pyvc_model = True
            return call
        raise PyRaise("AttributeError", (name,))

    def pv_setattr(self, cx, name, val):
        self.attrs[name] = val


class StateM(Module):
    """State: compactify() drops the dead particles (changes the sequence iff there are any)."""

    def pv_len(self, cx):
        n = z3.Int("n_particles_in_state")
        cx.assume(n >= 0)
        return n

    def pv_getattr(self, cx, name):
        if name == "compactify":
            me = self

            def compactify(interp):
                w = me.world
                w.trace.append(("state", "compactify"))
                w.new_version(w.dead, "compactify")
                w.dead = z3.BoolVal(False)

            compactify._pyvc_model = True
            return compactify
        return super().pv_getattr(cx, name)


class TimerM(Module):
    def effect(self, cx, method):
        if method == "update":
            self.attrs["step"] = self.attrs["step"] + 1


class ReleaseM(Module):
    def effect(self, cx, method):
        if method == "update":
            self.world.new_version(z3.Bool("released_this_step"), "release")


class ForcingM(Module):
    def effect(self, cx, method):
        if method == "update":
            self.world.aligned = self.world.version  # K, A, variables computed for the present particles


class OutputM(Module):
    def effect(self, cx, method):
        if method == "update":
            w = self.world
            # a sparse-type record compactifies the state: the sequence changes iff a record is due and some particle is dead
            compacts = self.attrs.get("layout", "sparse") != "dense"
            if compacts:
                w.new_version(z3.And(z3.Bool("record_due"), w.dead), "compactify in write")
                w.dead = z3.And(w.dead, z3.Not(z3.Bool("record_due")))


class TrackerM(Module):
    def effect(self, cx, method):
        if method == "update":
            w = self.world
            cx.oblige(
                "C14: precondition of tracker.update: the forcing's cached per-particle arrays (K, A, variables) were computed for the present particle sequence",
                w.aligned == w.version,
                kind="pre",
            )
            w.dead = z3.Bool("dead_after_tracker")  # leaving the grid kills


class IbmM(Module):
    def effect(self, cx, method):
        if method == "update":
            w = self.world
            cx.oblige("C14/C19: precondition of ibm.update: forcing variables aligned with the state", w.aligned == w.version, kind="pre")
            w.dead = z3.Bool("dead_after_ibm")  # the IBM may kill


def make_model(cx, closes=None, layout="sparse"):
    w = World(cx)
    closes = closes or {}
    step = z3.Int("step_before")
    cx.assume(step >= -1)
    mods = dict(
        state=StateM(w, "state", has_close=False),
        time=TimerM(w, "time", has_close=False, attrs=dict(step=step, time=z3.Int("t"))),
        grid=Module(w, "grid", has_close=closes.get("grid", False)),
        forcing=ForcingM(w, "forcing", has_close=closes.get("forcing", True)),
        release=ReleaseM(w, "release", has_close=closes.get("release", False)),
        tracker=TrackerM(w, "tracker", has_close=closes.get("tracker", False)),
        ibm=IbmM(w, "ibm", has_close=closes.get("ibm", True)),
        output=OutputM(w, "output", has_close=closes.get("output", True), attrs=dict(layout=layout) if layout else {}),
    )
    m = Obj("ladim.model.Model", modules=mods, state=mods["state"], timer=mods["time"], grid=mods["grid"], force=mods["forcing"], tracker=mods["tracker"], release=mods["release"], output=mods["output"], ibm=mods["ibm"], skip_first_output=False)
    m._world = w
    return m


class ModelUpdate(Spec):
    """One step: time, release, forcing, [output if step >= 0], tracker, ibm -- each once, in this order."""

    func = "ladim.model.Model.update"
    properties = ("C19", "C14", "C07")
    inline = ()

    def __init__(self, layout="sparse", no_dead_invariant=False):
        self.layout = layout
        self.no_dead_invariant = no_dead_invariant
        self.name = f"Model.update[output layout: {layout or 'attribute absent (custom output)'}]" + (" under the invariant 'no dead particle in the state between steps'" if no_dead_invariant else "")

    def alternatives(self):
        """Where the dead are removed is the code's choice. The pinned code removes them after the release, so a step may
        begin with dead particles in the state. A design that removes them at the END of every step instead relies on
        the invariant 'no dead particle in the state when a step begins': accepted if the step re-establishes it AND the
        warm-start catch-up of Model.__init__ (the only other way to reach a step) establishes it (companion unit)."""
        if self.no_dead_invariant:
            return []
        alt = ModelUpdate(self.layout, True)
        alt.companions = lambda: [ModelInit(True, end_no_dead=True)]
        return [alt]

    def inputs(self, cx):
        m = make_model(cx, layout=self.layout)
        if self.no_dead_invariant:
            cx.assume(z3.Not(m._world.dead))
        # nothing is assumed about the alignment of the forcing caches when the step begins: the step itself must
        # evaluate the forcing for the particle sequence the tracker and the IBM then see
        return Args(self=m)

    def model(self, cx, a):
        return NotImplemented

    def ensures(self, cx, a, result):
        w = a.self._world
        step = a.self.attrs["timer"].attrs["step"]
        tr = [f"{n}.{m}" for n, m in w.trace if (n, m) != ("state", "compactify")]
        # where dead particles are removed is not fixed by any property: what matters (C14) is that the tracker and the IBM
        # see forcing caches computed for the present particle sequence - the obligations raised at their calls
        full = ["time.update", "release.update", "forcing.update", "output.update", "tracker.update", "ibm.update"]
        without = [x for x in full if x != "output.update"]
        has_out = "output.update" in tr
        out = [
            ("C19: step protocol: time, release, forcing, [output], tracker, ibm -- once each, in this order", tr == full or tr == without),
            ("C03/C14: the forcing is advanced exactly once in every step, whatever the particles in the state (its time interpolation counts the steps; a step that depends on the presence of other particles breaks independence)", tr.count("forcing.update") == 1 and tr.count("time.update") == 1),
            ("C19/C07: the record is attempted exactly when step >= 0", (step >= 0) if has_out else (step < 0)),
            ("C19: the clock advanced by exactly one step", step == z3.Int("step_before") + 1),
        ]
        if self.no_dead_invariant:
            out.append(("invariant re-established: no dead particle is left in the state when the step ends", z3.Not(w.dead)))
        return out


class ModelFinish(Spec):
    """finish: close() once for each of grid, forcing, release, tracker, ibm, output that has one (C19 fixes no order)."""

    func = "ladim.model.Model.finish"
    properties = ("C19", "C07")
    inline = ()

    def __init__(self, closes):
        self.closes = closes
        self.name = f"Model.finish[modules with close: {sorted(k for k, v in closes.items() if v)}]"

    def inputs(self, cx):
        return Args(self=make_model(cx, self.closes))

    def model(self, cx, a):
        return NotImplemented

    def ensures(self, cx, a, result):
        w = a.self._world
        order = ["grid", "forcing", "release", "tracker", "ibm", "output"]
        default = dict(grid=False, forcing=True, release=False, tracker=False, ibm=True, output=True)
        exp = [(n, "close") for n in order if self.closes.get(n, default[n])]
        return [("C19/C07: every module's close is called exactly once, in any order (and only close)", sorted(w.trace) == sorted(exp))]


import ast  # noqa: E402

from pyvc.extract import Repo  # noqa: E402
from pyvc.spec import Lemma  # noqa: E402


class MainLoopStructure(Lemma):
    """main(): `while model.timer.step < model.timer.Nsteps - 1: model.update()` followed by `model.finish()`.
    Model.update advances the clock by exactly one step (proved: Model.update), so the body runs exactly
    Nsteps - 1 - step0 times: Nsteps updates from a cold start (step0 = -1), Nsteps - 1 after the warm-start
    catch-up (step0 = 0); the steps visited are step0+1 .. Nsteps-1.

    Decided on the extracted AST of the real main(): the loop guard is TRANSLATED to a formula over (step, Nsteps)
    (local aliases such as ``nsteps = model.timer.Nsteps`` resolved) and proved equivalent to step < Nsteps-1 by the
    solver; the loop body must perform exactly one unconditional ``model.update()``; every other statement of the body
    must be free of effects on the model (logging calls, assignments to local names, conditionals over those: decided
    by an effect analysis - no call except logging/pure builtins, no attribute or item store). A structure the
    analysis cannot read (loop inside try/finally, update under a condition, ...) makes the lemma UNDECIDED, not
    refuted; the bounded runs of the real loop (native harnesses) remain."""

    name = "main loop: one model update per step up to step Nsteps-1, then finish"
    properties = ("C07", "C19", "C08")
    PURE = ("max", "min", "len", "int", "float", "str", "abs", "round", "divmod", "bool", "repr", "format")

    # -- effect analysis ----------------------------------------------------------
    def _pure_expr(self, e) -> bool:
        for n in ast.walk(e):
            if isinstance(n, ast.Call):
                f = n.func
                root = f
                while isinstance(root, ast.Attribute):
                    root = root.value
                if isinstance(root, ast.Name) and root.id in ("logger", "logging"):
                    continue
                if isinstance(f, ast.Name) and f.id in self.PURE:
                    continue
                if isinstance(f, ast.Attribute) and isinstance(root, ast.Name) and root.id in ("datetime", "time") and f.attr in ("now", "time", "perf_counter", "today"):
                    continue
                return False
            if isinstance(n, (ast.Await, ast.Yield, ast.YieldFrom, ast.NamedExpr, ast.Lambda)):
                return False
        return True

    def _harmless(self, st) -> bool:
        if isinstance(st, ast.Expr):
            return isinstance(st.value, ast.Constant) or self._pure_expr(st.value)
        if isinstance(st, (ast.Assign, ast.AnnAssign, ast.AugAssign)):
            tg = st.targets if isinstance(st, ast.Assign) else [st.target]
            flat = []
            for t in tg:
                flat += list(t.elts) if isinstance(t, (ast.Tuple, ast.List)) else [t]
            return all(isinstance(t, ast.Name) and t.id != "model" for t in flat) and (st.value is None or self._pure_expr(st.value))
        if isinstance(st, ast.If):
            return self._pure_expr(st.test) and all(self._harmless(x) for x in st.body + st.orelse)
        return isinstance(st, ast.Pass)

    # -- guard translation ---------------------------------------------------------
    def _tr(self, e, env):
        if isinstance(e, ast.Constant) and isinstance(e.value, int) and not isinstance(e.value, bool):
            return z3.IntVal(e.value)
        if isinstance(e, ast.Name) and e.id in env:
            return env[e.id]
        txt = ast.unparse(e)
        if txt in ("model.timer.step", "model.modules['time'].step"):
            return env["#step"]
        if txt in ("model.timer.Nsteps", "model.modules['time'].Nsteps"):
            return env["#N"]
        if isinstance(e, ast.BinOp) and isinstance(e.op, (ast.Add, ast.Sub, ast.Mult)):
            l, r = self._tr(e.left, env), self._tr(e.right, env)
            return l + r if isinstance(e.op, ast.Add) else l - r if isinstance(e.op, ast.Sub) else l * r
        if isinstance(e, ast.UnaryOp) and isinstance(e.op, ast.USub):
            return -self._tr(e.operand, env)
        if isinstance(e, ast.UnaryOp) and isinstance(e.op, ast.Not):
            return z3.Not(self._tr(e.operand, env))
        if isinstance(e, ast.BoolOp):
            vs = [self._tr(v, env) for v in e.values]
            return z3.And(*vs) if isinstance(e.op, ast.And) else z3.Or(*vs)
        if isinstance(e, ast.Compare):
            ops = {ast.Lt: lambda a, b: a < b, ast.LtE: lambda a, b: a <= b, ast.Gt: lambda a, b: a > b, ast.GtE: lambda a, b: a >= b, ast.Eq: lambda a, b: a == b, ast.NotEq: lambda a, b: a != b}
            vals = [self._tr(e.left, env)] + [self._tr(c, env) for c in e.comparators]
            parts = []
            for op, a, b in zip(e.ops, vals, vals[1:]):
                if type(op) not in ops:
                    raise Unsupported("comparison in the loop guard")
                parts.append(ops[type(op)](a, b))
            return z3.And(*parts) if len(parts) > 1 else parts[0]
        raise Unsupported(f"cannot read `{txt}` in the guard of the time loop")

    def formula(self):
        mod, _c, node = Repo().lookup("ladim.main.main")
        calls = lambda st, what: sum(1 for n in ast.walk(st) if isinstance(n, ast.Call) and ast.unparse(n.func) == what)  # noqa: E731
        loops = [st for st in node.body if isinstance(st, (ast.For, ast.While)) and calls(st, "model.update")]
        if len(loops) != 1:
            if not any(calls(st, "model.update") for st in node.body):
                return [(self.name + ": main() calls model.update()", [], z3.BoolVal(False))]
            raise Unsupported("the time loop of main() is not a top-level loop of the function: structure not analysed")
        lp = loops[0]
        idx = node.body.index(lp)
        n, s0, k, step = z3.Ints("Nsteps step0 k step")
        env = {"#step": step, "#N": n}
        for st in node.body[:idx]:  # local aliases of the loop bounds
            if isinstance(st, ast.Assign) and len(st.targets) == 1 and isinstance(st.targets[0], ast.Name):
                try:
                    env[st.targets[0].id] = self._tr(st.value, env)
                except Unsupported:
                    env.pop(st.targets[0].id, None)
        body = [b for b in lp.body if not (isinstance(b, ast.Expr) and isinstance(b.value, ast.Constant))]
        updates = [b for b in body if isinstance(b, ast.Expr) and ast.unparse(b.value) == "model.update()"]
        others = [b for b in body if b not in updates]
        if sum(calls(b, "model.update") for b in body) != len(updates):
            raise Unsupported("model.update() is called under a condition or inside an expression in the time loop")
        if lp.orelse or any(isinstance(x, (ast.Break, ast.Continue, ast.Return)) for b in body for x in ast.walk(b)):
            raise Unsupported("the time loop leaves its body by break/continue/else")
        bad = [ast.unparse(b).splitlines()[0] for b in others if not self._harmless(b)]
        if bad:
            raise Unsupported(f"statement in the time loop whose effects are not analysed: {bad[0]}")
        items = [(self.name + ": each pass of the time loop performs exactly one model.update()", [], z3.BoolVal(len(updates) == 1))]
        if isinstance(lp, ast.While):
            guard = self._tr(lp.test, env)
            items.append((self.name + ": the loop runs while step < Nsteps-1 (guard translated from the source)", [step >= -1, n >= 1], guard == (step < n - 1)))
            items.append(("C08: after a warm start (step0 = 0) the loop ends at step Nsteps-1, never reaching the stop time", [step >= 0, n >= 1], guard == (step < n - 1)))
        else:
            if not (isinstance(lp.iter, ast.Call) and ast.unparse(lp.iter.func) == "range" and len(lp.iter.args) == 1):
                raise Unsupported("for-loop form of the time loop")
            cnt = self._tr(lp.iter.args[0], env)
            items.append((self.name + ": a counted loop performs Nsteps - 1 - step updates (the clock is at `step` before the loop)", [step >= -1, step <= 0, n >= 1], cnt == n - 1 - step))
        after = node.body[idx + 1 :]
        fin_top = sum(1 for b in after if isinstance(b, ast.Expr) and ast.unparse(b.value) == "model.finish()")
        fin_all = sum(calls(b, "model.finish") for b in node.body)
        if fin_all != fin_top or any(calls(b, "model.update") for b in after):
            if fin_all == 0:
                items.append((self.name + ": finish() is called after the loop", [], z3.BoolVal(False)))
            else:
                raise Unsupported("model.finish()/update() outside the analysed positions")
        else:
            items.append((self.name + ": finish() is called exactly once, after the loop", [], z3.BoolVal(fin_top == 1)))
        built = [b for b in node.body[:idx] if isinstance(b, (ast.Assign, ast.AnnAssign)) and b.value is not None and isinstance(b.value, ast.Call) and ast.unparse(b.value.func) in ("Model", "model.Model", "ladim.model.Model")]
        if len(built) != 1 or any(calls(b, "model.finish") for b in node.body[:idx]):
            raise Unsupported("construction of the model before the time loop not recognised")
        items.append((self.name + ": the model is constructed exactly once, before the loop", [], z3.BoolVal(True)))
        items.append((self.name + ": with one step per update the k-th update is at step step0 + k and the loop guard holds exactly for k <= Nsteps-1-step0", [s0 >= -1, s0 <= 0, n >= 1, k >= 1], (s0 + (k - 1) < n - 1) == (s0 + k <= n - 1)))
        return items


class RecordSchedule(Lemma):
    """The steps at which Output.update writes during steps 0..Nsteps-1 are exactly k*ops for k in [0, R),
    R = ceil(Nsteps/ops) = num_records: so the last record fills (and closes) the last file."""

    name = "record schedule: multiples of the period below Nsteps are exactly ceil(Nsteps/period) many"
    properties = ("C07",)

    def formula(self):
        N, ops, q, r, k = z3.Ints("N ops q r k")
        hyps = [N >= 1, ops >= 1, N + ops - 1 == q * ops + r, r >= 0, r < ops]
        return [
            (self.name + ": last record step (R-1)*ops <= Nsteps-1 < R*ops", hyps, z3.And((q - 1) * ops <= N - 1, q * ops > N - 1, q >= 1)),
            (self.name + ": record k is due within the run iff k < R", hyps + [k >= 0], (k * ops <= N - 1) == (k < q)),
            (
                self.name + ": record r lives in file r div numrec at local index r mod numrec; the last file holds R - numrec*(files-1) records",
                [z3.Int("numrec") >= 1, k >= 0],
                z3.And(k == z3.Int("numrec") * (k / z3.Int("numrec")) + k % z3.Int("numrec"), k % z3.Int("numrec") >= 0, k % z3.Int("numrec") < z3.Int("numrec")),
            ),
        ]


class ModelInit(Spec):
    """Model.__init__: modules constructed in the fixed order (output last); on a warm start the state is loaded,
    the clock is set to step 0 and the step protocol WITHOUT the output event is run once (catch-up)."""

    func = "ladim.model.Model.__init__"
    properties = ("C08", "C19", "C20")
    inline = ()

    def __init__(self, warm, end_no_dead=False):
        self.warm = warm
        self.end_no_dead = end_no_dead
        self.name = f"Model.__init__[{'warm' if warm else 'cold'} start]" + (" leaving no dead particle in the state" if end_no_dead else "")
        spec = self

        def init_module(interp, args, kwargs):
            name, conf, mods = args[0], args[1], args[2]
            w = spec._world
            w.trace.append((name, "construct"))
            cls = dict(state=StateM, time=TimerM, forcing=ForcingM, release=ReleaseM, tracker=TrackerM, ibm=IbmM, output=OutputM).get(name, Module)
            attrs = dict(step=z3.IntVal(-1), time=z3.Int("t_init")) if name == "time" else {}
            m = cls(w, name, attrs=attrs)
            if name == "time":
                def step2time(interp2, n):
                    return z3.Int("t_start") + V.to_z3(n) * z3.Int("dt")

                step2time._pyvc_model = True
                m.attrs["step2time"] = step2time
            return m

        def warm_start(interp, args, kwargs):
            spec._world.trace.append(("warm_start", "load"))
            spec._world.dead = z3.BoolVal(False)  # a record holds living particles only (C06), proved: warm_start loads the record
            return None

        self.callees = {"ladim.model.init_module": init_module, "ladim.warm_start.warm_start": warm_start}

    def inputs(self, cx):
        self._world = World(cx)
        cx.assume(self._world.aligned == self._world.version)
        names = ["state", "time", "grid", "forcing", "release", "tracker", "ibm", "output"]
        config = {n: dict() for n in names}
        config["warm_start"] = dict(filename="restart.nc", variables=[]) if self.warm else dict()
        return Args(self=Obj("ladim.model.Model"), config=config)

    def model(self, cx, a):
        return NotImplemented

    def ensures(self, cx, a, result):
        w = self._world
        names = ["state", "time", "grid", "forcing", "release", "tracker", "ibm", "output"]
        exp = [(n, "construct") for n in names]
        if self.warm:
            exp += [("warm_start", "load"), ("release", "update"), ("forcing", "update"), ("tracker", "update"), ("ibm", "update")]
        timer = a.self.attrs.get("timer")
        trace = [e for e in w.trace if e != ("state", "compactify")]  # where the dead are removed is not fixed by a property
        out = [
            ("C19/C20: every module is constructed exactly once, before anything else happens (the order among them is the code's choice)", sorted(trace[:8]) == sorted(exp[:8])),
            ("C08/C19: warm start: load the state, then release, forcing, tracker, ibm once each -- and no output event; cold start: nothing further", trace[8:] == exp[8:]),
        ]
        if self.end_no_dead:
            out.append(("no dead particle is left in the state after the warm-start catch-up", z3.Not(w.dead)))
        if self.warm:
            out.append(("C08: after the catch-up the clock is at step 0 and reads the (restart) start time", z3.And(timer.attrs["step"] == 0, timer.attrs["time"] == z3.Int("t_start"))))
        return out


# ---------------------------------------------------------------- load_module / init_module (C19, C18)


class PathM(ModelObject):
    def __init__(self, name, exists):
        self.name, self._exists = name, exists

    def pv_getattr(self, cx, name):
        if name == "exists":
            f = lambda interp: self._exists  # noqa: E731
            f._pyvc_model = True
            return f
        if name == "stem":
            base = self.name.split("/")[-1]
            return base[:-3] if base.endswith(".py") else base
        raise Unsupported(f"Path attribute {name} is not modelled")


class Ghost(ModelObject):
    def __init__(self, tag, **kw):
        self.tag = tag
        self.kw = kw

    def pv_getattr(self, cx, name):
        if name == "loader":
            return Ghost("loader", spec=self)
        if name == "exec_module":
            me = self

            def exec_module(interp, mod):
                mod.kw["executed_from"] = me.kw["spec"].kw.get("path")

            exec_module._pyvc_model = True
            return exec_module
        if self.tag == "module" and name in self.kw.get("classes", ()):
            return Ghost("class", module=self, name=name)
        if self.tag == "module" and not name.startswith("__"):
            raise PyRaise("AttributeError", (name,))  # the module defines exactly the listed classes
        raise Unsupported(f"attribute {name} of an importlib object is not modelled")

    def pv_call(self, interp, args, kwargs):
        if self.tag != "class":
            raise PyRaise("TypeError", ("not callable",))
        return Ghost("instance", cls=self, args=list(args), kwargs=dict(kwargs))


class SysModules(ModelObject):
    """sys.modules as load_module may see it: the process has an arbitrary history, so ANY name may already be
    registered (with some other module object); registering a module is allowed."""

    def pv_contains(self, cx, item):
        return cx.fresh("already_in_sys_modules", "bool")

    def pv_getitem(self, cx, key):
        return Ghost("module", origin="sys.modules (whatever an earlier call registered under that name)", name=key, classes=("IBM",))

    def pv_setitem(self, cx, key, val):
        return None


class LoadModule(Spec):
    """load_module: a file <name>.py that exists is loaded and returned (never the module of the same name on sys.path);
    otherwise the importable module; neither: SystemExit."""

    func = "ladim.model.load_module"
    properties = ("C19", "C18")
    inline = ()

    def __init__(self, given):
        self.given = given
        self.name = f"model.load_module[name given as '{given}']"
        spec = self

        def path(interp, name):
            return PathM(name, z3.Bool("file_exists"))

        def spec_from_file_location(interp, internal, file_name):
            return Ghost("spec", internal=internal, path=file_name.name)

        def module_from_spec(interp, sp):
            return Ghost("module", origin="file", spec=sp, classes=("IBM",))

        def import_module(interp, name):
            if interp.cx.fork(z3.Bool("importable")):
                return Ghost("module", origin="sys.path", name=name, classes=("IBM",))
            raise PyRaise("ModuleNotFoundError", (name,))

        self.externals = {"pathlib.Path": path, "importlib.util.spec_from_file_location": spec_from_file_location, "importlib.util.module_from_spec": module_from_spec, "importlib.import_module": import_module,
                          "sys.modules": SysModules()}

    def inputs(self, cx):
        return Args(module_name=self.given)

    def raises(self, cx, a):
        return [(z3.And(z3.Not(z3.Bool("file_exists")), z3.Not(z3.Bool("importable"))), "SystemExit")]

    def model(self, cx, a):
        return NotImplemented

    def ensures(self, cx, a, result):
        base = self.given[:-3] if self.given.endswith(".py") else self.given
        ok = isinstance(result, Ghost) and result.tag == "module"
        if not ok:
            return [("returns a module object", False)]
        from_file = result.kw.get("origin") == "file"
        out = [("C19: the file given by path is the one that runs: loaded from <name>.py exactly when that file exists, otherwise from sys.path", z3.Bool("file_exists") if from_file else z3.Not(z3.Bool("file_exists")))]
        if from_file:
            out.append(("C19: the module object is created from, and executed from, that very file", result.kw["spec"].kw.get("path") == base + ".py" and result.kw.get("executed_from") == base + ".py"))
            internal = result.kw["spec"].kw.get("internal")
            out.append(("C19: the internal name cannot collide with an importable module (it is not the plain name of the file)", (not isinstance(internal, str)) or internal not in (base.split("/")[-1], base, base.replace("/", "."))))
        else:
            out.append(("C19: imported by its (suffix-free) name", result.kw.get("name") == base))
        return out


class InitModule(Spec):
    """init_module: the class named for the module kind is taken from the module given in the section (default
    per kind), the 'module' key is consumed, and the class is called with modules= and the remaining keys."""

    func = "ladim.model.init_module"
    properties = ("C19", "C18")
    inline = ()

    def __init__(self, kind, with_module):
        self.kind, self.with_module = kind, with_module
        self.name = f"model.init_module[{kind}, module {'given' if with_module else 'defaulted'}]"
        spec = self

        def load(interp, args, kwargs):
            spec._loaded = args[0]
            classes = ("Output", "TimeKeeper", "ParticleReleaser", "Grid", "Forcing", "Tracker", "State", "IBM")
            return Ghost("module", origin="loaded", name=args[0], classes=classes)

        self.callees = {"ladim.model.load_module": load}

    def inputs(self, cx):
        conf = dict(alpha=z3.Int("alpha"), beta="b")
        if self.with_module:
            conf["module"] = "user/my_module"
        return Args(module_name=self.kind, conf_dict=conf, all_modules_dict=dict(marker=1))

    def model(self, cx, a):
        return NotImplemented

    def ensures(self, cx, a, result):
        defaults = dict(output="ladim.out_netcdf", release="ladim.release", grid="ladim.ROMS", time="ladim.timekeeper", forcing="ladim.ROMS", tracker="ladim.tracker", state="ladim.state", ibm="ladim.ibm")
        classes = dict(output="Output", time="TimeKeeper", release="ParticleReleaser", grid="Grid", forcing="Forcing", tracker="Tracker", state="State", ibm="IBM")
        ok = isinstance(result, Ghost) and result.tag == "instance"
        if not ok:
            return [("returns the constructed module object", False)]
        want = "user/my_module" if self.with_module else defaults[self.kind]
        cls = result.kw["cls"]
        return [
            ("C19/C18: the module is the one named in the section, else the default for its kind", getattr(self, "_loaded", None) == want and cls.kw["module"].kw.get("name") == want),
            ("C19: the main class of that kind is instantiated", cls.kw["name"] == classes[self.kind]),
            ("C18: constructed with modules= and exactly the other keys of the section (the 'module' key is not passed on; whether it is also removed from the caller's dictionary is the code's choice)", result.kw["args"] == [] and set(result.kw["kwargs"]) == {"modules", "alpha", "beta"} and result.kw["kwargs"]["modules"] is a.all_modules_dict and result.kw["kwargs"].get("beta") == "b" and result.kw["kwargs"].get("alpha") is a.conf_dict.get("alpha", result.kw["kwargs"].get("alpha"))),
        ]


LOADER_UNITS = [LoadModule("my_ibm"), LoadModule("sub/my_ibm.py")] + [InitModule(k, w) for k in ("ibm", "output", "grid", "forcing", "state", "time", "release", "tracker") for w in (False, True)]
