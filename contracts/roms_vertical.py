"""Contracts for the vertical grid of ladim/ROMS.py: s_stretch, sdepth (C12)."""
from __future__ import annotations

import z3

from pyvc import values as V
from pyvc.interp import ForallP
from pyvc.numpy_model import transc_apply
from pyvc.spec import Args, Lemma, Spec
from pyvc.values import Arr, sym_array

R = z3.RealVal


def S_rho(k, N):
    return -1 + (R("1/2") + z3.ToReal(k)) / z3.ToReal(N)


def S_w(k, Nw):
    """linspace(-1, 0, Nw)[k]"""
    return -1 + z3.ToReal(k) * (0 - (-1)) / z3.ToReal(Nw - 1)


def C_spec(vs, s, theta_s, theta_b):
    """ROMS stretching curves (Song-Haidvogel 1994 = 1, Shchepetkin 2010 = 4) as functions of s."""
    sinh, tanh, cosh, exp = (lambda x, f=f: transc_apply(f, x) for f in ("sinh", "tanh", "cosh", "exp"))
    if vs == 1:
        cff1 = 1 / sinh(theta_s)
        cff2 = R("1/2") / tanh(R("1/2") * theta_s)
        return (1 - theta_b) * cff1 * sinh(theta_s * s) + theta_b * (cff2 * tanh(theta_s * (s + R("1/2"))) - R("1/2"))
    if vs == 4:
        C = (1 - cosh(theta_s * s)) / (cosh(theta_s) - 1)
        return (exp(theta_b * C) - 1) / (1 - exp(-theta_b))
    raise ValueError(vs)


class SStretch(Spec):
    """s_stretch returns C(S_k) on the rho or w points; lemmas: strictly increasing, C(-1) = -1, C(0) = 0."""

    func = "ladim.ROMS.s_stretch"
    properties = ("C12",)
    inline = ()

    def __init__(self, stagger, vs):
        self.stagger, self.vs = stagger, vs
        self.name = f"ROMS.s_stretch[{stagger}, Vstretching={vs}]"

    def inputs(self, cx):
        N = z3.Int("N")
        ts, tb = z3.Reals("theta_s theta_b")
        cx.assume(N >= 1)
        return Args(N=N, theta_s=ts, theta_b=tb, stagger=self.stagger, Vstretching=self.vs)

    def requires(self, cx, a):
        r = [("theta_s > 0", a.theta_s > 0)]
        if self.vs == 1:
            r.append(("0 <= theta_b <= 1", z3.And(a.theta_b >= 0, a.theta_b <= 1)))
        else:
            r.append(("theta_b > 0", a.theta_b > 0))
        return r

    def S(self, a, k):
        return S_rho(k, a.N) if self.stagger == "rho" else S_w(k, a.N + 1)

    def model(self, cx, a):
        n = a.N if self.stagger == "rho" else a.N + 1
        return Arr((n,), lambda k: C_spec(self.vs, self.S(a, k), a.theta_s, a.theta_b), "real")

    def ensures(self, cx, a, result):
        if not isinstance(result, Arr):
            return []
        n = result.shape[0]
        f = result.fn
        out = [
            ("C12: stretching curve strictly increasing: C[k] < C[k+1]", ForallP(V.s_binop("-", n, 1), lambda k: f(k) < f(k + 1))),
            ("C12: stretching curve within [-1, 0]", ForallP(n, lambda k: z3.And(f(k) >= -1, f(k) <= 0, C_spec(self.vs, R(-1), a.theta_s, a.theta_b) == -1, C_spec(self.vs, R(0), a.theta_s, a.theta_b) == 0))),
        ]
        if self.stagger == "w":
            out.append(("C12: w curve starts at -1 and ends at 0", z3.And(f(0) == -1, f(a.N) == 0)))
        return out


def z_spec(vt, Hc, S, C, H):
    if vt == 1:
        return Hc * (S - C) + C * H
    return (Hc * S + C * H) / (1 + Hc / H)


class SDepth(Spec):
    """sdepth: z[k, j, i] from the ROMS transform; lemmas: ordered within [-h, 0] (given an ordered C)."""

    func = "ladim.ROMS.sdepth"
    properties = ("C12", "C02")
    inline = ()

    def __init__(self, stagger, vt):
        self.stagger, self.vt = stagger, vt
        self.name = f"ROMS.sdepth[{stagger}, Vtransform={vt}]"

    def inputs(self, cx):
        jm, im, N = z3.Ints("jm im N")
        cx.assume(z3.And(jm >= 1, im >= 1, N >= (1 if self.stagger == "rho" else 2)))
        return Args(H=sym_array("H", (jm, im), "real"), Hc=z3.Real("Hc"), C=sym_array("C", (N,), "real"), stagger=self.stagger, Vtransform=self.vt)

    def requires(self, cx, a):
        H, C = a.H.fn, a.C.fn
        N = a.C.shape[0]
        jm, im = a.H.shape
        from pyvc.interp import ForallIdx

        r = [
            ("bottom depth positive", ForallIdx(2, lambda j, i: z3.Implies(z3.And(j >= 0, j < jm, i >= 0, i < im), H(j, i) > 0), decls=[a.H.decl])),
            ("Hc >= 0", a.Hc >= 0),
            ("C strictly increasing", ForallP(V.s_binop("-", N, 1), lambda k: C(k) < C(k + 1))),
            ("C strictly increasing (k-1, k)", ForallP(N, lambda k: z3.Implies(k >= 1, C(k - 1) < C(k)))),
            ("-1 <= C <= 0", ForallP(N, lambda k: z3.And(C(k) >= -1, C(k) <= 0))),
        ]
        if self.vt == 1:
            r.append(("Vtransform 1: hc <= h", ForallIdx(2, lambda j, i: z3.Implies(z3.And(j >= 0, j < jm, i >= 0, i < im), a.Hc <= H(j, i)), decls=[a.H.decl])))
        if self.stagger == "w":
            r.append(("w points: C[0] == -1, C[-1] == 0", z3.And(C(0) == -1, C(N - 1) == 0)))
        return r

    def S(self, a, k):
        N = a.C.shape[0]
        return S_rho(k, N) if self.stagger == "rho" else S_w(k, N)

    def model(self, cx, a):
        H, C = a.H.fn, a.C.fn
        N = a.C.shape[0]
        jm, im = a.H.shape
        return Arr((N, jm, im), lambda k, j, i: z_spec(self.vt, a.Hc, self.S(a, k), C(k), H(j, i)), "real")

    def compare_roots(self, a, b, result):
        return [("H unchanged", a.H, b.H), ("C unchanged", a.C, b.C)]

    def ensures(self, cx, a, result):
        if not isinstance(result, Arr) or result.ndim != 3:
            return []
        z = result.fn
        H = a.H.fn
        N = a.C.shape[0]
        jm, im = a.H.shape
        j, i = z3.Ints("col_j col_i")
        col = z3.And(j >= 0, j < jm, i >= 0, i < im)
        out = [
            ("C12: level depths strictly increasing from bottom to surface", ForallP(V.s_binop("-", N, 1), lambda k: z3.Implies(col, z(k, j, i) < z(k + 1, j, i)))),
            ("C12: level depths within [-h, 0]", ForallP(N, lambda k: z3.Implies(col, z3.And(z(k, j, i) >= -H(j, i), z(k, j, i) <= 0)))),
        ]
        if self.stagger == "w":
            out.append(("C12: w-levels start at -h and end at 0", z3.Implies(col, z3.And(z(0, j, i) == -H(j, i), z(N - 1, j, i) == 0))))
        return out


class Interleave(Lemma):
    """z_w[k] < z_r[k] < z_w[k+1] for the specified transforms, given the same for S and C."""

    properties = ("C12",)

    def __init__(self, vt):
        self.vt = vt
        self.name = f"rho- and w-levels interleave (Vtransform={vt})"

    def formula(self):
        Hc, H = z3.Reals("Hc H")
        s0, s, s1, c0, c, c1 = z3.Reals("Sw_k Sr_k Sw_k1 Cw_k Cr_k Cw_k1")
        hyps = [H > 0, Hc >= 0, s0 < s, s < s1, c0 < c, c < c1, c0 >= -1, c1 <= 0, s0 >= -1, s1 <= 0]
        if self.vt == 1:
            hyps.append(Hc <= H)
        z = lambda S, C: z_spec(self.vt, Hc, S, C, H)  # noqa: E731
        return [(self.name, hyps, z3.And(z(s0, c0) < z(s, c), z(s, c) < z(s1, c1)))]


class SInterleave(Lemma):
    name = "unstretched rho points lie strictly between the neighbouring w points"
    properties = ("C12",)

    def formula(self):
        k, N = z3.Ints("k N")
        return [(self.name, [N >= 1, k >= 0, k < N], z3.And(S_w(k, N + 1) < S_rho(k, N), S_rho(k, N) < S_w(k + 1, N + 1), S_w(z3.IntVal(0), N + 1) == -1, S_w(N, N + 1) == 0))]


VERTICAL_UNITS = [SStretch(st, vs) for st in ("rho", "w") for vs in (1, 4)] + [SDepth(st, vt) for st in ("rho", "w") for vt in (1, 2)]
VERTICAL_LEMMAS = [Interleave(1), Interleave(2), SInterleave()]
