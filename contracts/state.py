"""Contracts for ladim/state.py (C05): append, compactify, __setitem__ against an abstract view."""
from __future__ import annotations

import z3

from pyvc import values as V
from pyvc.interp import ForallP, Obj, UnivFact
from pyvc.numpy_model import make_filtered
from pyvc.spec import Args, Spec
from pyvc.values import NAN, Arr, Filtered, sym_array

from .common import MANDATORY, make_state

EXTRA_I = [("xi", "real")]  # a generic extra instance variable
EXTRA_P = [("xp", "real")]  # a generic particle variable (time-independent, addressed by pid)


def wf_items(st, n=None, prefix="well-formed"):
    """Class invariant of State as contract clauses."""
    v = st.attrs["variables"]
    pid = v["pid"]
    n = pid.shape[0] if n is None else n
    f = pid.fn
    npid = st.attrs["npid"]
    items = [
        (f"{prefix}: k <= pid[k] < npid", ForallP(n, lambda k: z3.And(f(k) >= k, f(k) < npid))),
        (f"{prefix}: pid strictly increasing", ForallP(n, lambda k: z3.Implies(k >= 1, f(k - 1) < f(k)))),
    ]
    for name in sorted(st.attrs["instance_variables"]):
        if name != "pid":
            items.append((f"{prefix}: len({name}) == len(pid)", V.s_cmp("==", v[name].shape[0], n)))
    for name in sorted(st.attrs["particle_variables"]):
        items.append((f"{prefix}: len({name}) == npid (particle variable indexed by pid)", V.s_cmp("==", v[name].shape[0], npid)))
    return items


def monotone_fact(cx, st):
    """pid strictly increasing as a fact over all index pairs (follows from the adjacent form by induction: lemma PidMonotone)."""
    pid = st.attrs["variables"]["pid"]
    d = pid.decl
    n = V.to_z3(pid.shape[0])
    u = UnivFact(2, lambda j, k: z3.Implies(z3.And(j >= 0, j < k, k < n), d(j) < d(k)), decls=[d])
    u.pairs = True
    cx.univ.append(u)


class _StateSpec(Spec):
    properties = ("C05", "C14")
    inline = ("ladim.state.State.__getattr__", "ladim.state.State.__len__")

    def base(self, cx):
        n = z3.Int("n")
        cx.assume(n >= 0)
        st = make_state(cx, n, extra_instance=EXTRA_I, extra_particle=EXTRA_P)
        cx.assume(st.attrs["npid"] >= n)
        return st, n

    def base_requires(self, cx, st):
        pid = st.attrs["variables"]["pid"]
        f = pid.fn
        n = pid.shape[0]
        npid = st.attrs["npid"]
        monotone_fact(cx, st)
        return [
            ("well-formed: k <= pid[k] < npid", ForallP(n, lambda k: z3.And(f(k) >= k, f(k) < npid))),
            ("well-formed: pid strictly increasing", ForallP(n, lambda k: z3.Implies(k >= 1, f(k - 1) < f(k)))),
        ]


class Append(_StateSpec):
    """append: pid' = pid ++ [npid, ..., npid+m-1]; every other variable gets m broadcast values appended; old prefix untouched."""

    func = "ladim.state.State.append"

    def __init__(self, variant):
        self.variant = variant
        self.name = f"State.append[{variant}]"

    def new_values(self, cx):
        m = z3.Int("m")
        cx.assume(m >= 0)
        if self.variant == "arrays":
            return m, dict(X=sym_array("newX", (m,), "real"), Y=sym_array("newY", (m,), "real"), Z=sym_array("newZ", (m,), "real"), xi=sym_array("newxi", (m,), "real"), xp=sym_array("newxp", (m,), "real"))
        if self.variant == "scalars":
            return 1, dict(X=z3.Real("x0"), Y=z3.Real("y0"), Z=z3.Real("z0"), xp=z3.Real("xp0"))
        if self.variant == "broadcast":
            return m, dict(X=sym_array("newX", (m,), "real"), Y=z3.Real("y0"), Z=z3.Real("z0"), alive=sym_array("newalive", (m,), "bool"), xi=z3.Real("xi0"))
        raise ValueError(self.variant)

    def inputs(self, cx):
        st, n = self.base(cx)
        m, vals = self.new_values(cx)
        a = Args(self=st)
        a._m = m
        a._vals = vals
        return a

    def call_args(self, a):
        return [a.self], dict(a._vals)

    def requires(self, cx, a):
        return self.base_requires(cx, a.self)

    def model(self, cx, a):
        st = a.self
        v = st.attrs["variables"]
        m = a._m
        npid = st.attrs["npid"]
        n = v["pid"].shape[0]
        defaults = dict(alive=True, active=True)

        def ext(old: Arr, val, kind):
            fo = old.fn
            n0 = old.shape[0]
            if isinstance(val, Arr):
                fv = val.fn
                return Arr((n0 + m,), lambda k: V.s_ite(V.s_cmp("<", k, n0), fo(k), fv(k - n0)), kind)
            return Arr((n0 + m,), lambda k: V.s_ite(V.s_cmp("<", k, n0), fo(k), V.cast_kind(val, kind)), kind)

        fp = v["pid"].fn
        v["pid"] = Arr((n + m,), lambda k: z3.If(k < n, fp(k), npid + (k - n)), "int")
        for name in list(v):
            if name == "pid":
                continue
            val = a._vals.get(name, defaults.get(name, NAN))
            v[name] = ext(v[name], val, v[name].kind)
        st.attrs["npid"] = npid + m
        return None

    def compare_roots(self, a, b, result):
        return [("variables", a.self.attrs["variables"], b.self.attrs["variables"]), ("npid", a.self.attrs["npid"], b.self.attrs["npid"])]

    def ensures(self, cx, a, result):
        st = a.self
        return wf_items(st, prefix="C05: after append: well-formed")


class Compactify(_StateSpec):
    """compactify: instance arrays become old o g (g = increasing enumeration of the alive positions);
    particle variables and npid untouched; exactly the dead are dropped; order kept."""

    func = "ladim.state.State.compactify"
    name = "State.compactify"

    def inputs(self, cx):
        st, n = self.base(cx)
        return Args(self=st)

    def requires(self, cx, a):
        return self.base_requires(cx, a.self)

    def model(self, cx, a):
        st = a.self
        v = st.attrs["variables"]
        alive = v["alive"]
        cnt = make_filtered(cx, alive, alive)
        n = v["pid"].shape[0]
        if cx.decide(V.to_z3(n) - cnt.count > 0):
            for name in sorted(st.attrs["instance_variables"]):
                v[name] = make_filtered(cx, v[name], alive)
        return None

    def compare_roots(self, a, b, result):
        return [("variables", a.self.attrs["variables"], b.self.attrs["variables"]), ("npid", a.self.attrs["npid"], b.self.attrs["npid"])]

    def ensures(self, cx, a, result):
        st = a.self
        v = st.attrs["variables"]
        pre = make_state(cx, z3.Int("n"), extra_instance=EXTRA_I, extra_particle=EXTRA_P).attrs["variables"]
        n0 = pre["pid"].shape[0]
        out = wf_items(st, prefix="C05: after compactify: well-formed")
        new_alive = v["alive"].fn
        f0 = make_filtered(cx, pre["alive"], pre["alive"])
        # (the tautology mentions g(k): it triggers the instantiation of the enumeration facts at k)
        out.append(("C05: after compactify every remaining instance is alive", ForallP(v["alive"].shape[0], lambda k: (new_alive(k), [f0.g(k) == f0.g(k)]))))
        # survivors keep identity and own values: for every old position i that was alive there is a new position with the same pid and values
        f = make_filtered(cx, pre["alive"], pre["alive"])
        ginv = f.ginv
        newpid, newx, newxi = v["pid"], v["X"], v["xi"]

        def survive(i):
            k = ginv(i)
            return z3.Implies(
                pre["alive"].fn(i),
                z3.And(k >= 0, k < V.to_z3(newpid.shape[0]), newpid.fn(k) == pre["pid"].fn(i), newx.fn(k) == pre["X"].fn(i), newxi.fn(k) == pre["xi"].fn(i)),
            )

        out.append(("C05: every alive particle survives with its pid and its own instance values", ForallP(n0, survive)))
        return out


class SetItem(_StateSpec):
    """state[var] = item replaces exactly that variable (cast to its dtype); everything else untouched."""

    func = "ladim.state.State.__setitem__"

    def __init__(self, var):
        self.var = var
        self.name = f"State.__setitem__[{var}]"

    def inputs(self, cx):
        st, n = self.base(cx)
        kind = st.attrs["variables"][self.var].kind
        length = st.attrs["variables"][self.var].shape[0]
        return Args(self=st, var=self.var, item=sym_array("item", (length,), kind))

    def requires(self, cx, a):
        return self.base_requires(cx, a.self)

    def model(self, cx, a):
        fi = a.item.fn
        a.self.attrs["variables"][self.var] = Arr(a.item.shape, lambda k: fi(k), a.item.kind)
        return None

    def compare_roots(self, a, b, result):
        return [("variables", a.self.attrs["variables"], b.self.attrs["variables"]), ("npid", a.self.attrs["npid"], b.self.attrs["npid"])]

    def ensures(self, cx, a, result):
        own = [("C05: the state stores its OWN copy of the assigned values (a later in-place change of the source array must not reach this variable)",
                a.self.attrs["variables"].get(self.var) is not a.item)]
        return own + (wf_items(a.self, prefix="C05: after item assignment (same length): well-formed") if self.var != "pid" else [])


class StateInit(Spec):
    """__init__: empty well-formed state with the declared variables."""

    func = "ladim.state.State.__init__"
    name = "State.__init__"
    properties = ("C05",)
    inline = ("ladim.state.State.__len__", "ladim.state.State.__getattr__")

    def inputs(self, cx):
        from pyvc.interp import Builtin
        from pyvc.builtins_model import BUILTINS

        return Args(
            self=Obj("ladim.state.State"),
            instance_variables=dict(xi=Builtin("float", BUILTINS["float"])),
            particle_variables=dict(xp=Builtin("float", BUILTINS["float"])),
            default_values=None,
            modules=None,
        )

    def model(self, cx, a):
        return NotImplemented

    def ensures(self, cx, a, result):
        t = a.self.attrs
        v = t.get("variables", {})
        names = set(MANDATORY) | {"xi", "xp"}
        out = [
            ("C05: npid starts at 0", V.s_cmp("==", t.get("npid", -1), 0)),
            ("C05: variables are the mandatory six plus the declared ones", set(v) == names),
            ("C05: instance/particle variable sets", t.get("instance_variables") == set(MANDATORY) | {"xi"} and t.get("particle_variables") == {"xp"}),
        ]
        for k in sorted(v):
            out.append((f"C05: {k} starts empty", isinstance(v[k], Arr) and V.s_cmp("==", v[k].shape[0], 0) is True))
        return out


STATE_UNITS = [StateInit(), Append("arrays"), Append("scalars"), Append("broadcast"), Compactify(), SetItem("X"), SetItem("alive"), SetItem("xi")]
