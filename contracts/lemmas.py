"""Closed lemmas proved by the same back ends."""
from __future__ import annotations

from fractions import Fraction

import z3

from pyvc import values as V
from pyvc.spec import Lemma


def _z(x):
    return x if isinstance(x, z3.ExprRef) else z3.RealVal(str(Fraction(x)))


class ButcherOrder(Lemma):
    """The tableau satisfies the Runge-Kutta order conditions up to ``order`` and c_i = sum_j a_ij."""

    def __init__(self, name, tab, hyps=()):
        self.name = f"order conditions: {name}"
        self.tab = tab
        self.hyps = list(hyps)
        self.properties = ("C01",)

    def formula(self):
        A, b, c, order = self.tab["A"], [_z(x) for x in self.tab["b"]], [_z(x) for x in self.tab["c"]], self.tab["order"]
        s = len(b)
        a = [[_z(A[i][j]) if j < len(A[i]) else z3.RealVal(0) for j in range(s)] for i in range(s)]
        R = z3.RealVal
        items = []
        H = self.hyps

        def add(label, lhs, rhs):
            items.append((f"{self.name}: {label}", H, lhs == R(rhs)))

        for i in range(s):
            items.append((f"{self.name}: row sum c_{i + 1} == sum_j a_{i + 1}j", H, c[i] == sum((a[i][j] for j in range(i)), R(0))))
        add("sum b == 1", sum(b, R(0)), "1")
        if order >= 2:
            add("sum b c == 1/2", sum((b[i] * c[i] for i in range(s)), R(0)), "1/2")
        if order >= 3:
            add("sum b c^2 == 1/3", sum((b[i] * c[i] * c[i] for i in range(s)), R(0)), "1/3")
            add("sum b A c == 1/6", sum((b[i] * a[i][j] * c[j] for i in range(s) for j in range(s)), R(0)), "1/6")
        if order >= 4:
            add("sum b c^3 == 1/4", sum((b[i] * c[i] ** 3 for i in range(s)), R(0)), "1/4")
            add("sum b c A c == 1/8", sum((b[i] * c[i] * a[i][j] * c[j] for i in range(s) for j in range(s)), R(0)), "1/8")
            add("sum b A c^2 == 1/12", sum((b[i] * a[i][j] * c[j] * c[j] for i in range(s) for j in range(s)), R(0)), "1/12")
            add("sum b A A c == 1/24", sum((b[i] * a[i][j] * a[j][k] * c[k] for i in range(s) for j in range(s) for k in range(s)), R(0)), "1/24")
        return items


class ClipIdentityInside(Lemma):
    """clip is the identity on [lo, hi]: in the interior the clipped tableau is the plain tableau."""

    name = "clip is the identity inside the forcing domain"
    properties = ("C01",)

    def formula(self):
        from .tracker import clip_term

        x, lo, hi = z3.Reals("x lo hi")
        return [(self.name, [lo <= x, x <= hi], clip_term(x, lo, hi) == x)]
