"""Closed lemmas proved by the same back ends."""
from __future__ import annotations

from fractions import Fraction

import z3

from pyvc import values as V
from pyvc.spec import Lemma


def _z(x):
    return x if isinstance(x, z3.ExprRef) else z3.RealVal(str(Fraction(x)))


class ButcherOrder(Lemma):
    """The tableau satisfies the Runge-Kutta order conditions up to ``order`` and c_i = sum_j a_ij."""

    def __init__(self, name, tab, hyps=()):
        self.name = f"order conditions: {name}"
        self.tab = tab
        self.hyps = list(hyps)
        self.properties = ("C01",)

    def formula(self):
        A, b, c, order = self.tab["A"], [_z(x) for x in self.tab["b"]], [_z(x) for x in self.tab["c"]], self.tab["order"]
        s = len(b)
        a = [[_z(A[i][j]) if j < len(A[i]) else z3.RealVal(0) for j in range(s)] for i in range(s)]
        R = z3.RealVal
        items = []
        H = self.hyps

        def add(label, lhs, rhs):
            items.append((f"{self.name}: {label}", H, lhs == R(rhs)))

        for i in range(s):
            items.append((f"{self.name}: row sum c_{i + 1} == sum_j a_{i + 1}j", H, c[i] == sum((a[i][j] for j in range(i)), R(0))))
        add("sum b == 1", sum(b, R(0)), "1")
        if order >= 2:
            add("sum b c == 1/2", sum((b[i] * c[i] for i in range(s)), R(0)), "1/2")
        if order >= 3:
            add("sum b c^2 == 1/3", sum((b[i] * c[i] * c[i] for i in range(s)), R(0)), "1/3")
            add("sum b A c == 1/6", sum((b[i] * a[i][j] * c[j] for i in range(s) for j in range(s)), R(0)), "1/6")
        if order >= 4:
            add("sum b c^3 == 1/4", sum((b[i] * c[i] ** 3 for i in range(s)), R(0)), "1/4")
            add("sum b c A c == 1/8", sum((b[i] * c[i] * a[i][j] * c[j] for i in range(s) for j in range(s)), R(0)), "1/8")
            add("sum b A c^2 == 1/12", sum((b[i] * a[i][j] * c[j] * c[j] for i in range(s) for j in range(s)), R(0)), "1/12")
            add("sum b A A c == 1/24", sum((b[i] * a[i][j] * a[j][k] * c[k] for i in range(s) for j in range(s) for k in range(s)), R(0)), "1/24")
        return items


class ClipIdentityInside(Lemma):
    """clip is the identity on [lo, hi]: in the interior the clipped tableau is the plain tableau."""

    name = "clip is the identity inside the forcing domain"
    properties = ("C01",)

    def formula(self):
        from .tracker import clip_term

        x, lo, hi = z3.Reals("x lo hi")
        return [(self.name, [lo <= x, x <= hi], clip_term(x, lo, hi) == x)]


class LerpBound(Lemma):
    """0 <= w <= 1 and u, v in [lo, hi]  =>  w*u + (1-w)*v in [lo, hi] (used three times nested for trilinear convexity)."""

    name = "lerp bound (convex combination of two values stays in their range)"
    properties = ("C02", "C16")

    def formula(self):
        from .roms_sample import lerp_inst

        w, u, v, lo, hi = z3.Reals("w u v lo hi")
        return [(self.name, [], lerp_inst(w, u, v, lo, hi))]


class NestedLerpIdentity(Lemma):
    """The trilinear formula equals three nested linear interpolations (polynomial identity)."""

    name = "trilinear == nested lerps (polynomial identity)"
    properties = ("C02",)

    def formula(self):
        p, q, w = z3.Reals("p q w")
        f = [z3.Real(f"f{i}") for i in range(8)]
        col = lambda a, b: w * a + (1 - w) * b  # noqa: E731
        c00, c10, c01, c11 = col(f[0], f[4]), col(f[1], f[5]), col(f[2], f[6]), col(f[3], f[7])
        direct = (1 - p) * (1 - q) * c00 + p * (1 - q) * c10 + (1 - p) * q * c01 + p * q * c11
        x0 = (1 - p) * c00 + (1 - (1 - p)) * c10
        x1 = (1 - p) * c01 + (1 - (1 - p)) * c11
        nested = (1 - q) * x0 + (1 - (1 - q)) * x1
        return [(self.name, [], nested == direct)]


class SubgridIndependence(Lemma):
    """The staggered sample position and cell do not depend on the loaded sub-rectangle:
    floor(x - i0 + 1/2) + i0 - 1 == floor(x + 1/2) - 1 (global u-point index) and the local fraction is the global one."""

    name = "subgrid independence of the u-/v-point bracketing"
    properties = ("C02",)

    def formula(self):
        x = z3.Real("x")
        i0 = z3.Int("i0")
        loc = x - z3.ToReal(i0) + z3.RealVal("1/2")
        glob = x + z3.RealVal("1/2")
        return [
            (self.name + ": index", [], z3.ToInt(loc) + i0 == z3.ToInt(glob)),
            (self.name + ": fraction", [], loc - z3.ToReal(z3.ToInt(loc)) == glob - z3.ToReal(z3.ToInt(glob))),
            (self.name + ": nearest cell", [x - z3.ToReal(i0) >= 0], z3.ToInt(x - z3.ToReal(i0) + z3.RealVal("1/2")) + i0 == z3.ToInt(x + z3.RealVal("1/2"))),
        ]


class MaskedTerm(Lemma):
    """m in {0,1} and (m == 1 => f == f2)  =>  (m*w)*f == (m*w)*f2 (a masked node's value does not matter)."""

    name = "masked term lemma"
    properties = ("C16",)

    def formula(self):
        from .sample import masked_term_inst

        m, w, f, f2 = z3.Reals("m w f f2")
        return [(self.name, [], masked_term_inst(m, w, f, f2))]


class MaskedIgnored(Lemma):
    """In the specified masked sample (weights m_c*w_c renormalised by their sum) the values of masked nodes do not
    occur: two fields that agree on the unmasked corners give the same numerator; all four masked => weight sum 0
    (so the result is undef_value)."""

    name = "masked nodes are ignored by the specified 2-D sample"
    properties = ("C16",)

    def formula(self):
        m = [z3.Real(f"m{k}") for k in range(4)]
        w = [z3.Real(f"w{k}") for k in range(4)]
        f = [z3.Real(f"f{k}") for k in range(4)]
        g = [z3.Real(f"g{k}") for k in range(4)]
        hyps = [z3.Or(mk == 0, mk == 1) for mk in m]
        agree = [z3.Implies(m[k] == 1, f[k] == g[k]) for k in range(4)]
        num_f = sum(((m[k] * w[k]) * f[k] for k in range(4)), z3.RealVal(0))
        num_g = sum(((m[k] * w[k]) * g[k] for k in range(4)), z3.RealVal(0))
        sw = sum((m[k] * w[k] for k in range(4)), z3.RealVal(0))
        return [
            (self.name + ": numerators agree", hyps + agree, num_f == num_g),
            (self.name + ": all masked => zero weight sum", hyps + [mk == 0 for mk in m], sw == 0),
            (self.name + ": non-negative weights, one unmasked corner with positive weight => positive weight sum", hyps + [wk >= 0 for wk in w] + [m[0] == 1, w[0] > 0], sw > 0),
        ]


class MirrorClock(Lemma):
    """Clock mirror: with mu(t) = 2S - t, the reversed conversions equal the forward ones on the mirrored axis."""

    name = "mirror lemma for the clock"
    properties = ("C10",)

    def formula(self):
        S, t, dt, n = z3.Ints("S t dt n")
        mu = 2 * S - t
        rev_t2s = (S - t) / dt
        fwd_t2s_mirror = (mu - S) / dt
        return [
            (self.name + ": time2step_reversed(t) == time2step_forward(mirror(t))", [dt > 0], rev_t2s == fwd_t2s_mirror),
            (self.name + ": reversed clock at step n is the mirror image of the forward clock", [dt > 0], S - n * dt == 2 * S - (S + n * dt)),
        ]


class NoDirectionDependence(Lemma):
    """Tracker, State and the sampling kernels never read time_reversal (decided on the AST): given the mirrored
    clock, forcing, release and output schedule the two runs execute the same step function on equal inputs."""

    name = "tracker, state and sampling code do not depend on the time direction"
    properties = ("C10",)

    def formula(self):
        import ast

        from pyvc.extract import Repo

        repo = Repo()
        items = []
        for modname in ("ladim.tracker", "ladim.state", "ladim.sample"):
            mod = repo.module(modname)
            uses = [n for n in ast.walk(mod.tree) if (isinstance(n, ast.Attribute) and n.attr == "time_reversal") or (isinstance(n, ast.Name) and n.id == "time_reversal")]
            items.append((f"{self.name}: {modname} has no reference to time_reversal", [], z3.BoolVal(not uses)))
        mod = repo.module("ladim.ROMS")
        for fn in ("trilinear", "z2s", "z2s_kernel", "sample3D", "sample3DUV", "sdepth", "s_stretch"):
            node = mod.funcs[fn]
            uses = [n for n in ast.walk(node) if (isinstance(n, ast.Attribute) and n.attr == "time_reversal") or (isinstance(n, ast.Name) and n.id == "time_reversal")]
            items.append((f"{self.name}: ROMS.{fn} has no reference to time_reversal", [], z3.BoolVal(not uses)))
        return items
