"""Contracts for ladim.ROMS.Forcing: velocity, force_particles, update (time-interpolation invariant), file selection."""
from __future__ import annotations

import z3

from pyvc import values as V
from pyvc.interp import ForallIdx, ForallP, ModelObject, Obj, UnivFact
from pyvc.spec import Args, Spec
from pyvc.values import Arr, PyRaise, Unsupported, sym_array

from .common import N, make_grid, make_state, particle_arrays, valid_pos
from .roms_sample import Sample3DNearest, Sample3DUV, Z2s, trilin_spec

R = z3.RealVal

# the forcing data: frame value at a grid node as a function of the frame's model step (masked, scaled)
frameU = z3.Function("frameU", z3.IntSort(), z3.IntSort(), z3.IntSort(), z3.IntSort(), z3.RealSort())
frameV = z3.Function("frameV", z3.IntSort(), z3.IntSort(), z3.IntSort(), z3.IntSort(), z3.RealSort())
frameS = z3.Function("frameS", z3.IntSort(), z3.IntSort(), z3.IntSort(), z3.IntSort(), z3.RealSort())


class SymSeq(ModelObject):
    """A strictly increasing list of integers of symbolic length (the forcing steps)."""

    def __init__(self, cx, name="fsteps"):
        self.decl = z3.Function(name, z3.IntSort(), z3.IntSort())
        self.len = z3.Int(name + "_len")
        cx.assume(self.len >= 2)
        d = self.decl
        ln = self.len
        self.fact = UnivFact(2, lambda j, k: z3.Implies(z3.And(j >= 0, j < k, k < ln), d(j) < d(k)), decls=[d])
        self.fact.pairs = True
        cx.univ.append(self.fact)
        self.member = {}

    def at(self, k):
        return V.app(self.decl, k)

    def pv_len(self, cx):
        return self.len

    def pv_contains(self, cx, x):
        x = V.to_z3(x)
        key = x.get_id()
        if key not in self.member:
            c = cx.fresh("member", "bool")
            w = cx.fresh("where")
            at, ln = self.at, self.len
            cx.assume(z3.Implies(c, z3.And(w >= 0, w < ln, at(w) == x)))
            d = self.decl
            cx.univ.append(UnivFact(1, lambda k: z3.Implies(z3.And(z3.Not(c), k >= 0, k < ln), d(k) != x), decls=[d]))
            self.member[key] = (c, w, x)
        return self.member[key][0]

    def pv_getitem(self, cx, idx):
        if isinstance(idx, slice):
            raise Unsupported("slice of the forcing steps")
        cx.oblige(f"index into the forcing steps in range: 0 <= {idx} < len(steps)", z3.And(V.to_z3(idx) >= 0, V.to_z3(idx) < self.len), kind="index")
        return self.at(idx)

    def pv_getattr(self, cx, name):
        if name == "index":
            me = self

            def index(interp, x):
                c = me.pv_contains(interp.cx, x)
                interp.cx.oblige("steps.index(x): x is a forcing step", c, kind="pre")
                return me.member[V.to_z3(x).get_id()][1]

            index._pyvc_model = True
            return index
        raise Unsupported(f"steps.{name}")

    def pv_compare(self, cx, actual, label, kind):
        cx.oblige(f"{label}: the forcing step list is not replaced", actual is self or (isinstance(actual, SymSeq) and actual.decl.eq(self.decl)), kind=kind)


def make_forcing(cx, n, extra=("temp",), with_state=True):
    """A ROMS Forcing object between two calls of update (all attributes symbolic)."""
    grid = make_grid(cx, with_vertical=True)
    g = grid.attrs
    kmax, jmax, imax = g["N"], g["jmax"], g["imax"]
    steps = SymSeq(cx)
    f = Obj(
        "ladim.ROMS.Forcing",
        grid=grid,
        extra_forcing=list(extra),
        time_reversal=z3.Bool("time_reversal"),
        steps=steps,
        K=sym_array("fK", (z3.Int("nK"),), "int"),
        A=sym_array("fA", (z3.Int("nK"),), "real"),
    )
    d = steps.decl
    f.attrs["stepdiff"] = Arr((steps.len - 1,), lambda k: V.app(d, k + 1) - V.app(d, k), "int")
    fields = {}
    for nm, shape in (("u", (kmax, jmax, imax + 1)), ("v", (kmax, jmax + 1, imax))):
        fields[nm] = sym_array(f"fld_{nm}", shape, "real")
        fields[nm + "_new"] = sym_array(f"fld_{nm}_new", shape, "real")
        fields["d" + nm.upper()] = sym_array(f"fld_d{nm.upper()}", shape, "real")
    for nm in extra:
        fields[nm] = sym_array(f"fld_{nm}", (kmax, jmax, imax), "real")
    f.attrs["fields"] = fields
    f.attrs["variables"] = {nm: sym_array(f"var_{nm}", (z3.Int("nK"),), "real") for nm in ("u", "v", *extra)}
    modules = {"grid": grid}
    if with_state:
        st = make_state(cx, n, extra_instance=[(nm, "real") for nm in extra])
        modules["state"] = st
        modules["time"] = Obj("ladim.timekeeper.TimeKeeper", step=z3.Int("step"))
    f.attrs["modules"] = modules
    return f


def level_ok(K: Arr, kmax, lo=1):
    fk = K.fn
    return ForallP(K.shape[0], lambda p: z3.And(fk(p) >= lo, fk(p) < kmax))


class Velocity(Spec):
    """Forcing.velocity: trilinear sample of u + fractional_step*dU (sign flipped iff time reversed)
    at the u-/v-staggered positions, using the cached levels K, A."""

    func = "ladim.ROMS.Forcing.velocity"
    name = "Forcing.velocity"
    properties = ("C02", "C03", "C10", "C14", "C17")
    inline = ()
    callees = {"ladim.ROMS.sample3DUV": Sample3DUV()}

    def inputs(self, cx):
        n = N(cx)
        a = Args(self=make_forcing(cx, n, extra=(), with_state=False))
        a.update(particle_arrays(n, ["X", "Y", "Z"]))
        a.fractional_step = z3.Real("fractional_step")
        a.method = "bilinear"
        return a

    def requires(self, cx, a):
        f = a.self.attrs
        grid = f["grid"]
        g = grid.attrs
        n = a.X.shape[0]
        fx, fy = a.X.fn, a.Y.fn
        c = R("1/100")
        fs = V.to_real(a.fractional_step)
        return [
            ("len(Y) == len(X)", V.s_cmp("==", a.Y.shape[0], n)),
            ("len(Z) == len(X)", V.s_cmp("==", a.Z.shape[0], n)),
            ("C14/C17: cached level arrays K, A aligned with the particle arrays (len(K) == len(A) == len(X))", z3.And(V.to_z3(V.s_cmp("==", f["K"].shape[0], n)), V.to_z3(V.s_cmp("==", f["A"].shape[0], n)))),
            ("cached level index 1 <= K < kmax", level_ok(f["K"], g["N"])),
            ("C17: sampled position inside the clipped forcing domain", ForallP(n, lambda p: z3.And(g["xmin"] + c <= fx(p), fx(p) <= g["xmax"] - c, g["ymin"] + c <= fy(p), fy(p) <= g["ymax"] - c))),
            ("fractional step is 0 or in [0.001, 1] (the tracker uses 0, 1/2, 1)", z3.Or(fs == 0, z3.And(fs >= R("1/1000"), fs <= 1))),
        ]

    def model(self, cx, a):
        f = a.self.attrs
        g = f["grid"].attrs
        fld = f["fields"]
        u, v, dU, dV = fld["u"].fn, fld["v"].fn, fld["dU"].fn, fld["dV"].fn
        fs = V.to_real(a.fractional_step)
        sg = z3.If(f["time_reversal"], R(-1), R(1))
        ue = lambda k, j, i: sg * (u(k, j, i) + fs * dU(k, j, i))  # noqa: E731
        ve = lambda k, j, i: sg * (v(k, j, i) + fs * dV(k, j, i))  # noqa: E731
        fx, fy, fk, fa = a.X.fn, a.Y.fn, f["K"].fn, f["A"].fn
        i0, j0 = z3.ToReal(g["i0"]), z3.ToReal(g["j0"])
        h = R("1/2")
        n = a.X.shape[0]
        return (
            Arr((n,), lambda p: trilin_spec(ue, fx(p) - i0 + h, fy(p) - j0, fk(p), fa(p)), "real"),
            Arr((n,), lambda p: trilin_spec(ve, fx(p) - i0, fy(p) - j0 + h, fk(p), fa(p)), "real"),
        )

    def compare_roots(self, a, b, result):
        fa, fb = a.self.attrs["fields"], b.self.attrs["fields"]
        return [(f"field {k} unchanged", fa[k], fb[k]) for k in ("u", "v", "dU", "dV")] + [("X unchanged", a.X, b.X), ("Y unchanged", a.Y, b.Y)]

    def ensures(self, cx, a, result):
        from pyvc.spec import own_index_only

        pp = z3.Int("p_own")
        ok = isinstance(result, tuple) and all(isinstance(r, Arr) and own_index_only(r.fn(pp), pp, {"X", "Y", "Z", "fK", "fA"}) for r in result)
        return [("C14: the velocity of particle p depends on particle p's own position, depth level and weight only", ok)]


class ForceParticles(Spec):
    """force_particles: scalar fields = own cell at level K or K-1 (one of the two bracketing levels); velocity = staggered trilinear sample, sign flipped iff reversed."""

    func = "ladim.ROMS.Forcing.force_particles"
    name = "Forcing.force_particles"
    properties = ("C02", "C10", "C14", "C17")
    inline = ("ladim.state.State.__setitem__", "ladim.state.State.__getitem__", "ladim.state.State.__getattr__")
    callees = {"ladim.ROMS.sample3DUV": Sample3DUV(), "ladim.ROMS.sample3D": Sample3DNearest()}

    def inputs(self, cx):
        n = N(cx)
        a = Args(self=make_forcing(cx, n))
        st = a.self.attrs["modules"]["state"].attrs["variables"]
        a.X, a.Y = st["X"], st["Y"]
        return a

    def requires(self, cx, a):
        f = a.self.attrs
        grid = f["grid"]
        n = a.X.shape[0]
        return [
            ("C14/C17: cached level arrays aligned with the particle arrays", z3.And(V.to_z3(V.s_cmp("==", f["K"].shape[0], n)), V.to_z3(V.s_cmp("==", f["A"].shape[0], n)))),
            ("cached level index 1 <= K < kmax", level_ok(f["K"], grid.attrs["N"])),
            ("cached level weight 0 <= A <= 1 (what z2s returns, kept by update)", ForallP(f["A"].shape[0], lambda p, fa=f["A"].fn: z3.And(fa(p) >= 0, fa(p) <= 1))),
            ("grid has a non-empty valid region", z3.And(grid.attrs["imax"] >= 3, grid.attrs["jmax"] >= 3)),
            ("positions in the valid region", valid_pos(grid, a.X, a.Y)),
        ]

    def model(self, cx, a):
        f = a.self.attrs
        g = f["grid"].attrs
        fld = f["fields"]
        fx, fy, fk, fa = a.X.fn, a.Y.fn, f["K"].fn, f["A"].fn
        i0, j0 = z3.ToReal(g["i0"]), z3.ToReal(g["j0"])
        n = a.X.shape[0]
        st = f["modules"]["state"]
        for nm in f["extra_forcing"]:
            F = fld[nm].fn
            arr = Arr((n,), (lambda F: lambda p: F(fk(p), V.s_round(fy(p) - j0), V.s_round(fx(p) - i0)))(F), "real")
            # C02: "at one of those two levels": level K-1 of the own cell is as good as level K
            arr.cmp_alternatives = [(lambda F: lambda p: F(fk(p) - 1, V.s_round(fy(p) - j0), V.s_round(fx(p) - i0)))(F)]
            f["variables"][nm] = arr
            st.attrs["variables"][nm] = arr
        sg = z3.If(f["time_reversal"], R(-1), R(1))
        u, v = fld["u"].fn, fld["v"].fn
        h = R("1/2")
        f["variables"]["u"] = Arr((n,), lambda p: sg * trilin_spec(u, fx(p) - i0 + h, fy(p) - j0, fk(p), fa(p)), "real")
        f["variables"]["v"] = Arr((n,), lambda p: sg * trilin_spec(v, fx(p) - i0, fy(p) - j0 + h, fk(p), fa(p)), "real")
        return None

    def compare_roots(self, a, b, result):
        fa, fb = a.self.attrs, b.self.attrs
        return [
            ("forcing.variables", fa["variables"], fb["variables"]),
            ("state variables", fa["modules"]["state"].attrs["variables"], fb["modules"]["state"].attrs["variables"]),
            ("forcing.fields", fa["fields"], fb["fields"]),
        ]


# ---------------------------------------------------------------- update: the time-interpolation invariant


def lerp(frame, steps: SymSeq, b, t):
    """frame_b + (t - s_b) * (frame_{b+1} - frame_b)/(s_{b+1} - s_b) at a grid node (closure over the node)."""
    s0, s1 = steps.at(b), steps.at(b + 1)

    def f(k, j, i):
        f0, f1 = frame(s0, k, j, i), frame(s1, k, j, i)
        return f0 + z3.ToReal(V.to_z3(t) - s0) * ((f1 - f0) / z3.ToReal(s1 - s0))

    return f


def slope(frame, steps, b):
    s0, s1 = steps.at(b), steps.at(b + 1)
    return lambda k, j, i: (frame(s1, k, j, i) - frame(s0, k, j, i)) / z3.ToReal(s1 - s0)


class ReadVelocity(Spec):
    """_read_velocity as seen by update/__init__: returns the (masked, scaled) frame of the given forcing step."""

    func = "ladim.ROMS.Forcing._read_velocity"

    def requires(self, cx, a):
        steps = a.self.attrs["steps"] if "steps" in a.self.attrs else a.self.attrs["_ghost_steps"]
        return [("the requested time step is a forcing frame", steps.pv_contains(cx, a.time_step))]

    def model(self, cx, a):
        g = a.self.attrs["grid"].attrs
        kmax, jmax, imax = g["N"], g["jmax"], g["imax"]
        t = V.to_z3(a.time_step)
        a.self.attrs.setdefault("_ghost_reads", []).append(t)
        U = Arr((kmax, jmax, imax + 1), lambda k, j, i: frameU(t, V.to_z3(k), V.to_z3(j), V.to_z3(i)), "real")
        Vv = Arr((kmax, jmax + 1, imax), lambda k, j, i: frameV(t, V.to_z3(k), V.to_z3(j), V.to_z3(i)), "real")
        return (U, Vv)


class ReadField(Spec):
    func = "ladim.ROMS.Forcing._read_field"

    def requires(self, cx, a):
        steps = a.self.attrs["steps"] if "steps" in a.self.attrs else a.self.attrs["_ghost_steps"]
        return [("the requested time step is a forcing frame", steps.pv_contains(cx, a.n))]

    def model(self, cx, a):
        g = a.self.attrs["grid"].attrs
        t = V.to_z3(a.n)
        return Arr((g["N"], g["jmax"], g["imax"]), lambda k, j, i: frameS(t, V.to_z3(k), V.to_z3(j), V.to_z3(i)), "real")


class Update(Spec):
    """Forcing.update keeps the invariant: fields.u == lerp(frame_b, frame_{b+1}, step) for the bracket
    s_b <= step < s_{b+1}; u_new == frame_{b+1}; dU == slope_b; scalar field == frame_b (latest at or before)."""

    func = "ladim.ROMS.Forcing.update"
    properties = ("C03", "C02", "C14", "C17", "C10")
    inline = ("ladim.state.State.__getattr__", "ladim.state.State.__setitem__", "ladim.state.State.__getitem__")

    def __init__(self, shape="bracket"):
        self.shape = shape  # "bracket": Inv(step-1) between two frames; "start": after __init__ with a frame exactly at step 0
        self.name = f"Forcing.update[{'between frames / at a frame' if shape == 'bracket' else 'first step, forcing frame at step 0'}]"
        self.callees = {
            "ladim.ROMS.z2s": Z2s(),
            "ladim.ROMS.Forcing.force_particles": ForceParticles(),
            "ladim.ROMS.Forcing._read_velocity": ReadVelocity(),
            "ladim.ROMS.Forcing._read_field": ReadField(),
        }

    def inputs(self, cx):
        n = N(cx)
        f = make_forcing(cx, n)
        a = Args(self=f)
        a._b = z3.Int("b")  # ghost: bracket index
        return a

    def call_args(self, a):
        return [a.self], {}

    def requires(self, cx, a):
        f = a.self.attrs
        steps = f["steps"]
        grid = f["grid"]
        st = f["modules"]["state"].attrs["variables"]
        step = f["modules"]["time"].attrs["step"]
        b = a._b
        fld = f["fields"]
        n = st["X"].shape[0]
        shp_u, shp_v = fld["u"].shape, fld["v"].shape
        out = [
            ("grid has a non-empty valid region", z3.And(grid.attrs["imax"] >= 3, grid.attrs["jmax"] >= 3)),
            ("positions in the valid region (state invariant, C09)", valid_pos(grid, st["X"], st["Y"])),
            ("the run ends before the last forcing frame (coverage checked by forcing_steps)", step < steps.at(steps.len - 1)),
            ("ghost bracket index in range", z3.And(b >= 0, b + 1 < steps.len)),
        ]

        def node(shape):
            return lambda k, j, i: z3.And(k >= 0, k < shape[0], j >= 0, j < shape[1], i >= 0, i < shape[2])

        def eq(arr, spec, shape, label):
            fn = arr.fn
            inb = node(shape)
            return (label, ForallIdx(3, lambda k, j, i: z3.Implies(inb(k, j, i), fn(k, j, i) == spec(k, j, i)), decls=[arr.decl]))

        if self.shape == "bracket":
            out.append(("invariant: s_b <= step-1 < s_{b+1}", z3.And(steps.at(b) <= step - 1, step - 1 < steps.at(b + 1), step >= 0)))
            out.append(eq(fld["u"], lerp(frameU, steps, b, step - 1), shp_u, "invariant: u == lerp(b, step-1)"))
            out.append(eq(fld["v"], lerp(frameV, steps, b, step - 1), shp_v, "invariant: v == lerp(b, step-1)"))
            out.append(eq(fld["u_new"], lambda k, j, i: frameU(steps.at(b + 1), k, j, i), shp_u, "invariant: u_new == frame_{b+1}"))
            out.append(eq(fld["v_new"], lambda k, j, i: frameV(steps.at(b + 1), k, j, i), shp_v, "invariant: v_new == frame_{b+1}"))
            out.append(eq(fld["dU"], slope(frameU, steps, b), shp_u, "invariant: dU == slope_b"))
            out.append(eq(fld["dV"], slope(frameV, steps, b), shp_v, "invariant: dV == slope_b"))
        else:
            out.append(("first step with a forcing frame at step 0", z3.And(step == 0, steps.at(b) == 0)))
            out.append(eq(fld["u_new"], lambda k, j, i: frameU(steps.at(b), k, j, i), shp_u, "after __init__: u_new == frame at step 0"))
            out.append(eq(fld["v_new"], lambda k, j, i: frameV(steps.at(b), k, j, i), shp_v, "after __init__: v_new == frame at step 0"))
        for nm in f["extra_forcing"]:
            out.append(eq(fld[nm], lambda k, j, i: frameS(steps.at(b), k, j, i), fld[nm].shape, f"invariant: scalar field {nm} == frame_b"))
        return out

    def ensures(self, cx, a, result):
        """Inv(step) on the real post-state (generic node), plus what the particles got."""
        f = a.self.attrs
        steps = f["steps"]
        step = f["modules"]["time"].attrs["step"]
        b = a._b
        fld = f["fields"]
        if self.shape == "bracket":
            b1 = z3.If(step == steps.at(b + 1), b + 1, b)
        else:
            b1 = b
        k, j, i = z3.Ints("node_k node_j node_i")
        out = []

        def inb(shape):
            return z3.And(k >= 0, k < shape[0], j >= 0, j < shape[1], i >= 0, i < shape[2])

        def chk(key, spec, label):
            arr = fld.get(key)
            if not isinstance(arr, Arr) or arr.ndim != 3:
                out.append((label + " (field is a 3-D array)", False))
                return
            out.append((label, z3.Implies(inb(arr.shape), arr.at(k, j, i) == spec(k, j, i))))

        out.append(("C03: bracket after the step: s_b' <= step < s_{b'+1}", z3.And(b1 >= 0, b1 + 1 < steps.len, steps.at(b1) <= step, step < steps.at(b1 + 1))))
        chk("u", lerp(frameU, steps, b1, step), "C03: u == linear interpolation between the bracketing frames at the model step")
        chk("v", lerp(frameV, steps, b1, step), "C03: v == linear interpolation between the bracketing frames at the model step")
        chk("u_new", lambda kk, jj, ii: frameU(steps.at(b1 + 1), kk, jj, ii), "C03: u_new == next frame")
        chk("v_new", lambda kk, jj, ii: frameV(steps.at(b1 + 1), kk, jj, ii), "C03: v_new == next frame")
        chk("dU", slope(frameU, steps, b1), "C03: dU == slope of the current interval (so velocity(frac) == lerp at step + frac)")
        chk("dV", slope(frameV, steps, b1), "C03: dV == slope of the current interval")
        for nm in f["extra_forcing"]:
            chk(nm, lambda kk, jj, ii: frameS(steps.at(b1), kk, jj, ii), f"C03: scalar field {nm} == latest frame at or before the model step")
        n = f["modules"]["state"].attrs["variables"]["X"].shape[0]
        K, A = f.get("K"), f.get("A")
        ok = isinstance(K, Arr) and isinstance(A, Arr)
        out.append(("C14/C17: K, A recomputed for exactly the present particles", z3.And(V.to_z3(V.s_cmp("==", K.shape[0], n)), V.to_z3(V.s_cmp("==", A.shape[0], n))) if ok else False))
        if ok:
            # C02: the cached level bracket / weight of every particle is the one of ITS OWN column at ITS depth
            from .roms_sample import Z2sKernel

            st = f["modules"]["state"].attrs["variables"]
            g = f["grid"].attrs
            fx, fy = st["X"].fn, st["Y"].fn
            i0, j0 = g["i0"], g["j0"]
            kb = Args(I=Arr((n,), lambda p: V.s_round(V.s_binop("-", fx(p), i0)), "int"), J=Arr((n,), lambda p: V.s_round(V.s_binop("-", fy(p), j0)), "int"), Z=st["Z"], z_rho=g["z_r"])
            for label, item in Z2sKernel.ensures(self, cx, kb, (K, A)):
                if "level" in label or "depth" in label or "weight" in label or "A*z" in label:
                    out.append(("C02/C12: cached K, A after the step: " + label.split(": ", 1)[-1], item))
        return out

    def model(self, cx, a):
        return NotImplemented


# ---------------------------------------------------------------- Forcing.__init__: the pre-roll to step -1


class StepList(SymSeq):
    """The step list as forcing_steps returns it: in file (time) order, i.e. ascending in a forward run and
    descending in a time-reversed run; ``sort()`` puts it in ascending order (``at`` is the ascending view)."""

    def __init__(self, cx, rev):
        super().__init__(cx)
        self.rev = rev
        self.is_sorted = False

    def raw(self, k):
        k = V.to_z3(k)
        return z3.If(self.rev, self.at(self.len - 1 - k), self.at(k))

    def view(self, k):
        return self.at(k) if self.is_sorted else self.raw(k)

    def pv_getattr(self, cx, name):
        if name == "sort":
            me = self

            def sort(interp):
                me.is_sorted = True

            sort._pyvc_model = True
            return sort
        return super().pv_getattr(cx, name)

    def pv_getitem(self, cx, idx):
        cx.oblige(f"index into the forcing steps in range: 0 <= {idx} < len(steps)", z3.And(V.to_z3(idx) >= 0, V.to_z3(idx) < self.len), kind="index")
        return self.view(idx)

    def pv_diff(self, cx):
        me = self
        srt = self.is_sorted
        return Arr((self.len - 1,), lambda k: (me.at(V.to_z3(k) + 1) - me.at(k)) if srt else (me.raw(V.to_z3(k) + 1) - me.raw(k)), "int")

    def pv_comprehension(self, interp, node, env, mod):
        import ast

        gen = node.generators[0]
        if not (isinstance(node.elt, ast.Name) and isinstance(gen.target, ast.Name) and node.elt.id == gen.target.id and len(gen.ifs) == 1):
            raise Unsupported("comprehension form over the forcing steps")
        if not self.is_sorted:
            raise Unsupported("filtering the unsorted step list")
        seq = self

        def pred(x):
            e2 = dict(env)
            e2[gen.target.id] = x
            return V.to_z3(interp.truth(interp.eval(gen.ifs[0], e2, mod)))

        return FilteredSteps(seq, pred)


class FilteredSteps(ModelObject):
    def __init__(self, seq, pred):
        self.seq, self.pred = seq, pred
        self._truth = None

    def pv_truth(self, cx):
        if self._truth is None:
            b = cx.fresh("nonempty", "bool")
            w = cx.fresh("where")
            seq, pred = self.seq, self.pred
            cx.assume(z3.Implies(b, z3.And(w >= 0, w < seq.len, pred(seq.at(w)))))
            d = seq.decl
            cx.univ.append(UnivFact(1, lambda k: z3.Implies(z3.And(z3.Not(b), k >= 0, k < seq.len), z3.Not(pred(d(k)))), decls=[d]))
            self._truth = b
        return self._truth

    def pv_max(self, cx):
        seq, pred = self.seq, self.pred
        j = cx.fresh("jmax")
        cx.assume(z3.And(j >= 0, j < seq.len, pred(seq.at(j))))
        d = seq.decl
        cx.univ.append(UnivFact(1, lambda k: z3.Implies(z3.And(k >= 0, k < seq.len, pred(d(k))), d(k) <= d(j)), decls=[d]))
        return seq.at(j)


class ForcingInit(Spec):
    """Forcing.__init__: establishes the time-interpolation invariant at step -1 for every start offset:
    with b the bracket of step -1 (or the frame at step 0 when none lies before the start),
    u == frame_b + (-1 - s_b)*slope_b, dU == slope_b, u_new == frame_{b+1} (== frame_b when s_b == 0, adopted at step 0),
    scalar == frame_b; stepdiff is the difference of the SORTED steps."""

    func = "ladim.ROMS.Forcing.__init__"
    name = "Forcing.__init__"
    properties = ("C03", "C10", "C20")
    inline = ("ladim.forcing.BaseForce.__init__",)

    def __init__(self):
        spec = self

        def find_files(interp, args, kwargs):
            return ["<file 1>", "<file 2>"]

        def forcing_steps(interp, args, kwargs):
            return (spec._steps, SymMapObj("file"), SymMapObj("rec"))

        self.callees = {
            "ladim.ROMS.find_files": find_files,
            "ladim.ROMS.forcing_steps": forcing_steps,
            "ladim.ROMS.Forcing._read_velocity": ReadVelocity(),
            "ladim.ROMS.Forcing._read_field": ReadField(),
        }

    def inputs(self, cx):
        grid = make_grid(cx, with_vertical=True)
        rev = z3.Bool("time_reversal")
        timer = Obj("ladim.timekeeper.TimeKeeper", time_reversal=rev)
        steps = StepList(cx, rev)
        self._steps = steps
        # contract of forcing_steps: the forcing covers the time window (first step <= 0, a frame after the start)
        cx.assume(z3.And(steps.at(0) <= 0, steps.at(steps.len - 1) >= 1))
        me = Obj("ladim.ROMS.Forcing")
        me.attrs["_ghost_steps"] = steps
        a = Args(self=me, modules=dict(time=timer, grid=grid), filename="f_*.nc", extra_forcing=["temp"])
        a._steps = steps
        return a

    def call_args(self, a):
        return [a.self], dict(modules=a.modules, filename=a.filename, extra_forcing=a.extra_forcing)

    def model(self, cx, a):
        return NotImplemented

    def ensures(self, cx, a, result):
        t = a.self.attrs
        steps = a._steps
        fld = t.get("fields", {})
        out = []
        # the bracket index of step -1
        b = z3.Int("b_init")
        neg = z3.And(b >= 0, b + 1 < steps.len, steps.at(b) <= -1, -1 < steps.at(b + 1))
        zero = z3.And(b >= 0, b + 1 < steps.len, steps.at(b) == 0, z3.Implies(b >= 1, steps.at(b - 1) >= 0))
        hyp = z3.Or(neg, z3.And(b == 0, steps.at(0) == 0))
        k, j, i = z3.Ints("node_k node_j node_i")

        def chk(key, spec, label):
            arr = fld.get(key)
            if not isinstance(arr, Arr) or arr.ndim != 3:
                out.append((label + " (field is a 3-D array)", False))
                return
            inb = z3.And(k >= 0, k < arr.shape[0], j >= 0, j < arr.shape[1], i >= 0, i < arr.shape[2])
            out.append((label, z3.Implies(z3.And(hyp, inb), arr.at(k, j, i) == spec(k, j, i))))

        chk("u", lerp(frameU, steps, b, -1), "C03: after __init__: u == interpolation/extrapolation of the bracketing frames at step -1")
        chk("v", lerp(frameV, steps, b, -1), "C03: after __init__: v at step -1")
        chk("dU", slope(frameU, steps, b), "C03: after __init__: dU == slope of the first interval")
        chk("dV", slope(frameV, steps, b), "C03: after __init__: dV == slope of the first interval")
        chk("u_new", lambda kk, jj, ii: z3.If(steps.at(b) == 0, frameU(steps.at(b), kk, jj, ii), frameU(steps.at(b + 1), kk, jj, ii)), "C03: after __init__: u_new == the frame adopted at the next frame step")
        chk("temp", lambda kk, jj, ii: frameS(steps.at(b), kk, jj, ii), "C03: after __init__: scalar field == latest frame at or before the start")
        sd = t.get("stepdiff")
        kk = z3.Int("k_sd")
        ok = isinstance(sd, Arr) and sd.ndim == 1
        out.append(("C03/C10: stepdiff[k] == s_{k+1} - s_k of the steps in ascending order (both directions)", z3.And(V.to_z3(V.s_cmp("==", sd.shape[0], steps.len - 1)), z3.Implies(z3.And(kk >= 0, kk + 1 < steps.len), sd.fn(kk) == steps.at(kk + 1) - steps.at(kk))) if ok else False))
        kept = t.get("steps")
        out.append(("the step list kept by the forcing is the sorted one", isinstance(kept, StepList) and kept.decl.eq(steps.decl) and kept.is_sorted))
        out.append(("C10: the forcing remembers the time direction", V.s_cmp("==", t.get("time_reversal", None), z3.Bool("time_reversal")) if t.get("time_reversal") is not None else False))
        return out


class SymMapObj(ModelObject):
    def __init__(self, name):
        self.name = name


class ForcingStepsCoverage(Spec):
    """forcing_steps, the part before the step tables are built: SystemExit(3) exactly when the frames do not cover
    the simulated window (first frame after the earlier end, or last frame before the later end)."""

    func = "ladim.ROMS.forcing_steps"
    name = "ROMS.forcing_steps[coverage check]"
    properties = ("C20", "C03")
    inline = ()

    def __init__(self):
        def scan(interp, args, kwargs):
            n = z3.Int("nframes")
            interp.cx.assume(n >= 1)
            return (sym_array("frame_time", (n,), "int"), {})

        self.callees = {"ladim.ROMS.scan_file_times": scan}

    def body_slice(self, node):
        import ast

        # structural, independent of local names: everything up to and including the LAST top-level `if` that refuses
        last = None
        for k, st in enumerate(node.body):
            if isinstance(st, ast.If) and any(isinstance(x, ast.Raise) for x in ast.walk(st)):
                last = k
        if last is None:
            return None
        return node.body[: last + 1], f"lines {node.body[0].lineno}-{node.body[last].end_lineno} (scan + coverage check; the table-building part below is verified as a whole function for fixed shapes)"

    def inputs(self, cx):
        tmin, tmax = z3.Ints("min_time max_time")
        cx.assume(tmin <= tmax)
        return Args(files=["<f>"], timer=Obj("ladim.timekeeper.TimeKeeper", min_time=tmin, max_time=tmax))

    def slice_env(self, cx, a):
        return dict(files=a.files, timer=a.timer)

    def raises(self, cx, a):
        f = z3.Function("frame_time", z3.IntSort(), z3.IntSort())
        n = z3.Int("nframes")
        return [(z3.Or(f(0) > z3.Int("min_time"), f(n - 1) < z3.Int("max_time")), "SystemExit")]

    def model(self, cx, a):
        return NotImplemented


class ForcingInitNoFiles(ForcingInit):
    """No file matches the forcing file name (pattern): start-up error, before anything is read."""

    name = "Forcing.__init__[no forcing file matches]"

    def __init__(self):
        super().__init__()
        self.callees = dict(self.callees)
        self.callees["ladim.ROMS.find_files"] = lambda interp, args, kwargs: []

    def requires(self, cx, a):
        return []

    def raises(self, cx, a):
        return [(True, "SystemExit")]

    def model(self, cx, a):
        return NotImplemented

    def ensures(self, cx, a, result):
        return [("C20: no forcing file: the constructor must refuse (SystemExit)", False)]
