"""Contract for ladim/warm_start.py (C08.1): decoding the last record of a file written by Output (C06 ghost view)."""
from __future__ import annotations

import z3

from pyvc import values as V
from pyvc.interp import ForallP, ModelObject, Obj, UnivFact
from pyvc.numpy_model import DType
from pyvc.spec import Args, Spec
from pyvc.values import Arr, PyRaise, Unsupported

from .common import make_state
from .state import EXTRA_I, EXTRA_P

cnt_f = z3.Function("rf_count", z3.IntSort(), z3.IntSort())  # particle_count[r]
cum_f = z3.Function("rf_cum", z3.IntSort(), z3.IntSort())  # sum of particle_count[:r]
nrec = z3.Int("rf_nrec")
pdim = z3.Int("rf_particle_dim")
inst_f = {v: z3.Function(f"rf_{v}", z3.IntSort(), z3.RealSort() if v != "pid" else z3.IntSort()) for v in ("pid", "X", "Y", "Z", "xi")}
pv_f = z3.Function("rf_xp", z3.IntSort(), z3.RealSort())


class _Sum(ModelObject):
    def __init__(self, val):
        self.val = val

    def pv_getattr(self, cx, name):
        if name == "sum":
            f = lambda interp: self.val  # noqa: E731
            f._pyvc_model = True
            return f
        raise Unsupported(name)


NC_VARIABLE_API = ("shape", "dtype", "datatype", "dimensions", "size", "ndim", "name", "getValue", "get_dims", "group", "set_auto_mask", "set_auto_maskandscale",
                   "set_auto_scale", "set_auto_chartostring", "set_always_mask", "mask", "scale", "chunking", "filters", "endian", "setncattr", "getncattr", "setncatts", "delncattr", "assignValue")


class RVar(ModelObject):
    def __init__(self, name, attrs=None):
        self.name = name
        self.attrs = attrs or {}

    def pv_getattr(self, cx, name):
        if name == "ncattrs":
            f = lambda interp: list(self.attrs)  # noqa: E731
            f._pyvc_model = True
            return f
        if name in self.attrs:
            return self.attrs[name]
        if name in NC_VARIABLE_API:
            raise Unsupported(f"netCDF Variable attribute {name} is not modelled")
        raise PyRaise("AttributeError", (name,))  # a netCDF attribute the variable does not have

    def pv_getitem(self, cx, idx):
        total = cum_f(nrec)
        if self.name == "particle_count":
            if isinstance(idx, slice) and idx.start is None and idx.stop == -1:
                return _Sum(cum_f(nrec - 1))
            if idx == -1:
                return cnt_f(nrec - 1)
            raise Unsupported("particle_count index form")
        if self.name == "xp":
            if isinstance(idx, slice) and idx.start is None:
                n = idx.stop
                cx.oblige("reading particle variable: slice within the particle dimension", V.s_cmp("<=", n, pdim), kind="index")
                return Arr((n,), lambda p: pv_f(V.to_z3(p)), "real")
            raise Unsupported("particle variable index form")
        f = inst_f[self.name]
        kind = "int" if self.name == "pid" else "real"
        if isinstance(idx, slice) and idx.start is None and idx.stop is None:
            return Arr((total,), lambda k: V.app(f, k), kind)
        if isinstance(idx, slice) and idx.step is None and (idx.start is None or idx.stop is None or _maybe_negative(idx.start) or _maybe_negative(idx.stop)):
            # open-ended or negative bounds: Python's slice normalisation (assumed for netCDF4 as for numpy): a negative
            # bound counts from the end, bounds are clipped to [0, length], an empty range gives an empty array.
            # Note -0 == 0: `v[-n:]` with n == 0 is the WHOLE variable.
            t = V.to_z3(total)

            def norm(x, default):
                if x is None:
                    return default
                x = V.to_z3(x)
                return z3.If(x < 0, z3.If(x + t < 0, 0, x + t), z3.If(x > t, t, x))

            lo, hi = norm(idx.start, z3.IntVal(0)), norm(idx.stop, t)
            n = z3.If(hi - lo < 0, 0, hi - lo)
            return Arr((z3.simplify(n),), lambda k: V.app(f, V.s_binop("+", lo, k)), kind)
        if isinstance(idx, slice):
            a, b = idx.start, idx.stop
            cx.oblige(f"reading {self.name}: slice within the instance dimension", z3.And(V.to_z3(a) >= 0, V.to_z3(a) <= V.to_z3(b), V.to_z3(b) <= total), kind="index")
            return Arr((V.s_binop("-", b, a),), lambda k: V.app(f, V.s_binop("+", a, k)), kind)
        if not isinstance(idx, (tuple, slice)) and V.kind_of(idx) == "int":
            cx.oblige(f"reading {self.name}: index within the instance dimension", z3.And(V.to_z3(idx) >= 0, V.to_z3(idx) < total), kind="index")
            return V.app(f, idx)
        raise Unsupported("instance variable index form")


def _maybe_negative(x):
    """a slice bound that is not syntactically known to be >= 0 (a negation or a negative literal)"""
    if x is None:
        return False
    if isinstance(x, int):
        return x < 0
    x = z3.simplify(V.to_z3(x))
    if z3.is_int_value(x):
        return x.as_long() < 0
    return z3.is_app(x) and (x.decl().kind() == z3.Z3_OP_UMINUS or (x.decl().kind() == z3.Z3_OP_MUL and z3.is_int_value(x.arg(0)) and x.arg(0).as_long() < 0))


class RDim(ModelObject):
    def pv_len(self, cx):
        return pdim


class RFile(ModelObject):
    def __init__(self, with_pdim=True):
        self.variables = {v: RVar(v) for v in ("particle_count", "pid", "X", "Y", "Z", "xi", "xp")}
        self.dimensions = {"time": RDim(), "particle_instance": RDim()}
        if with_pdim:
            self.dimensions["particle"] = RDim()

    def pv_getattr(self, cx, name):
        if name in ("variables", "dimensions"):
            return getattr(self, name)
        if name == "set_auto_mask":
            f = lambda interp, flag: None  # noqa: E731
            f._pyvc_model = True
            return f
        if name in ("close", "sync"):  # all values the contract speaks of are read into arrays before the file may be closed
            me = self

            def f(interp):
                me.closed = getattr(me, "closed", 0) + (name == "close")

            f._pyvc_model = True
            return f
        raise Unsupported(f"netCDF Dataset attribute {name} is not modelled")


class WarmStart(Spec):
    """warm_start: the state becomes the last record of the file: the same instance sequence (pid and values),
    particle variables on [0, npid), alive/active defaulted to True, and npid == number of particles released
    (the particle dimension of a file written with particle variables)."""

    func = "ladim.warm_start.warm_start"
    name = "warm_start.warm_start"
    properties = ("C08", "C05")
    inline = ()

    def __init__(self, with_pdim=True):
        self.with_pdim = with_pdim
        if not with_pdim:
            self.name = "warm_start.warm_start[file without particle variables]"
        self.externals = {"netCDF4.Dataset": lambda interp, fname, *a, **k: RFile(with_pdim=with_pdim)}

    def inputs(self, cx):
        st = make_state(cx, z3.Int("n_old"), extra_instance=EXTRA_I, extra_particle=EXTRA_P if self.with_pdim else ())
        cx.assume(z3.And(nrec >= 1, pdim >= 0))
        return Args(warm_start_file="restart.nc", warm_start_variables=["xi", "xp"] if self.with_pdim else ["xi"], state=st)

    def requires(self, cx, a):
        # the file is what Output wrote (C06): cumulative counts, pids of a record strictly increasing and below the
        # number of particles released, which is the length of the particle dimension
        cx.univ.append(UnivFact(1, lambda r: z3.Implies(z3.And(r >= 0, r < nrec), z3.And(cnt_f(r) >= 0, cum_f(r + 1) == cum_f(r) + cnt_f(r))), decls=[cum_f, cnt_f]))
        pid = inst_f["pid"]
        cx.univ.append(UnivFact(1, lambda k: z3.Implies(z3.And(k >= 0, k < cum_f(nrec)), z3.And(pid(k) >= 0, pid(k) < pdim)), decls=[pid]))
        return [("file written by Output: cum(0) == 0, at least one instance on file", z3.And(cum_f(0) == 0, cum_f(nrec) >= 1, cum_f(nrec - 1) >= 0, cum_f(nrec) == cum_f(nrec - 1) + cnt_f(nrec - 1), cnt_f(nrec - 1) >= 0))]

    def ensures(self, cx, a, result):
        npid = a.state.attrs["npid"]
        pid = inst_f["pid"]
        k = z3.Int("k_inst")
        vs = a.state.attrs["variables"]
        arrs = [(nm, v) for nm, v in vs.items() if isinstance(v, Arr)]
        shared = sorted({n1 for i, (n1, v1) in enumerate(arrs) for n2, v2 in arrs[i + 1:] if v1 is v2} | {n2 for i, (n1, v1) in enumerate(arrs) for n2, v2 in arrs[i + 1:] if v1 is v2})
        return [("C08/C05 ownership: every variable of the restarted state is its own array object, as after State.append (an in-place update of one variable, e.g. state.active[i] = False, must not change another)" + (f" [shared: {', '.join(shared)}]" if shared else ""), not shared),
                ("C08/C05: after the restart no pid that occurs anywhere in the restart file can be handed out again (npid > every pid on file)", z3.Implies(z3.And(k >= 0, k < cum_f(nrec)), V.to_z3(npid) > V.app(pid, k)))]

    def model(self, cx, a):
        if not self.with_pdim:
            return NotImplemented
        st = a.state
        v = st.attrs["variables"]
        start, c = cum_f(nrec - 1), cnt_f(nrec - 1)
        for name in ("pid", "X", "Y", "Z", "xi"):
            f = inst_f[name]
            v[name] = Arr((c,), (lambda f: lambda k: f(start + V.to_z3(k)))(f), "int" if name == "pid" else "real")
        v["alive"] = Arr((c,), lambda k: True, "bool")
        v["active"] = Arr((c,), lambda k: True, "bool")
        v["xp"] = Arr((pdim,), lambda p: pv_f(V.to_z3(p)), "real")
        st.attrs["npid"] = pdim
        return None

    def compare_roots(self, a, b, result):
        return [("C08/C05: state after the warm start == last record of the file", a.state.attrs["variables"], b.state.attrs["variables"]), ("C08/C05: npid == number of particles released so far (pids are not reused after a restart)", a.state.attrs["npid"], b.state.attrs["npid"])]
