"""Contract for ladim.out_netcdf.filename_generator (C07, C08): the documented numbering of split output files.

    output/cake.nc  -> output/cake_000.nc, output/cake_001.nc, ...
    cake_04.nc      -> cake_04.nc, cake_05.nc, ...

The function is a generator with a ``while True`` loop. It is verified by INDUCTION: the loop invariant
``filenumber == first number + k`` is proved on entry and proved to be preserved by one execution of the body from an
arbitrary iteration k; the value yielded in iteration k is then compared with the specification for every k >= 0.

Strings are structured (pyvc/strings.py): the file stem is a symbolic string with a ghost decomposition.
Assumed contracts (external library):
* ``re.search(r"_(\\d+)$", stem)`` is a match exactly when stem == prefix + "_" + digits with at least one digit, and
  then ``group(1)`` is that digit run (``int`` of it its value, ``len`` its length);
* ``stem[:-m]`` removes the last m characters; ``pathlib``: ``stem``, ``suffix``, ``parent`` and ``parent / name``;
* ``str.format`` / f-string semantics of ``{:0<w>d}`` (zero padding to at least w characters);
* the stem and the suffix contain no braces (they would be read as replacement fields by ``str.format``).
"""
from __future__ import annotations

import z3

from pyvc import values as V
from pyvc.interp import GeneratorRun, ModelObject
from pyvc.spec import Args, Spec
from pyvc.strings import FStr, Pad
from pyvc.values import Unsupported


class SymStr(ModelObject):
    def __init__(self, what):
        self.what = what

    def __repr__(self):
        return f"<{self.what}>"


class DigitRun(ModelObject):
    """a run of ``width`` >= 1 decimal digits with value ``value``"""

    def __init__(self, width, value):
        self.width, self.value = width, value

    def pv_int(self, cx):
        return self.value

    def pv_len(self, cx):
        return self.width


class Stem(ModelObject):
    """The file stem. ``digits`` is None when it does not end in _<digits>."""

    def __init__(self, prefix, digits):
        self.prefix, self.digits = prefix, digits

    def __repr__(self):
        return "<stem>"

    def pv_getitem(self, cx, idx):
        if self.digits is None:
            raise Unsupported("slice of a stem without a trailing number")
        if isinstance(idx, slice) and idx.start is None and idx.step is None and idx.stop is not None:
            m = V.to_z3(V.s_neg(idx.stop)) if hasattr(V, "s_neg") else -V.to_z3(idx.stop)
            w = self.digits.width
            if z3.is_true(z3.simplify(m == w + 1)):
                return self.prefix
            if z3.is_true(z3.simplify(m == w)):
                return FStr([self.prefix, "_"])
            if z3.is_true(z3.simplify(m == w + 2)):
                return FStr([self.prefix, "<minus its last character>"])
        raise Unsupported("slice form of the file stem")


class Parent(ModelObject):
    def pv_binop(self, cx, op, other):
        if op != "/":
            raise Unsupported("path operator")
        return PathJoin(self, other)


class PathJoin(ModelObject):
    def __init__(self, parent, name):
        self.parent, self.name = parent, name


class PathM(ModelObject):
    def __init__(self, stem, suffix, parent):
        self._a = dict(stem=stem, suffix=suffix, parent=parent)

    def pv_getattr(self, cx, name):
        if name in self._a:
            return self._a[name]
        raise Unsupported(f"Path.{name}")


class MatchM(ModelObject):
    def __init__(self, digits):
        self.digits = digits

    def pv_truth(self, cx):
        return True

    def pv_getattr(self, cx, name):
        if name == "group":
            me = self

            def group(interp, i=0):
                if i != 1:
                    raise Unsupported("match group other than 1")
                return me.digits

            group._pyvc_model = True
            return group
        raise Unsupported(f"match.{name}")


class FilenameGenerator(Spec):
    """k-th generated name == parent / (prefix + "_" + number k, zero padded + suffix) for every k >= 0, where
    (prefix, first number, width) = (stem, 0, 3), or the decomposition of a stem that already ends in _<digits>."""

    func = "ladim.out_netcdf.filename_generator"
    properties = ("C07", "C08")
    inline = ()

    def __init__(self, numbered):
        self.numbered = numbered
        self.name = f"filename_generator[{'stem ends in _<digits>' if numbered else 'plain stem'}]"
        spec = self

        def re_search(interp, pattern, string, *a):
            interp.cx.oblige("the trailing-number pattern is _(\\d+)$", pattern == r"_(\d+)$", kind="post")
            if not isinstance(string, Stem):
                raise Unsupported("re.search on something else than the file stem")
            return MatchM(string.digits) if spec.numbered else None

        self.externals = {"re.search": re_search}

    def inputs(self, cx):
        cx.ghost["structured_fstrings"] = True
        w, n = z3.Int("number_width0"), z3.Int("first_number")
        cx.assume(z3.And(w >= 1, n >= 0))
        digits = DigitRun(w, n) if self.numbered else None
        stem = Stem(SymStr("prefix"), digits)
        a = Args(filename=PathM(stem, SymStr("suffix"), Parent()))
        n0 = n if self.numbered else 0

        def invariant(cx_, env, k):
            fn = env.get("filenumber")
            if fn is None:
                return [("filenumber is defined", False)]
            return [("filenumber == first number + number of names generated so far", V.to_z3(V.s_cmp("==", fn, n0 + k)))]

        cx.ghost["loop_invariant"] = invariant
        return a

    def model(self, cx, a):
        return NotImplemented

    def ensures(self, cx, a, result):
        out = []
        ok = isinstance(result, GeneratorRun) and len(result.yields) == 1
        out.append(("C07: the generator yields one name per iteration, for ever", ok))
        if not ok:
            return out
        k = result.k
        y = result.yields[0]
        stem = a.filename._a["stem"]
        suffix = a.filename._a["suffix"]
        if self.numbered:
            head, n0, w0 = stem.prefix, stem.digits.value, stem.digits.width
        else:
            head, n0, w0 = stem, 0, 3
        good = isinstance(y, PathJoin) and y.parent is a.filename._a["parent"]
        out.append(("C07/C08: the name lies in the directory of the prototype", good))
        nm = y.name if isinstance(y, PathJoin) else None
        parts = nm.parts if isinstance(nm, FStr) else []
        shape = len(parts) == 4 and parts[0] is head and parts[1] == "_" and isinstance(parts[2], Pad) and parts[3] is suffix
        out.append(("C07/C08: k-th name == <stem without its number>_<number><suffix> (documented numbering)", shape))
        if shape:
            out.append(("C07/C08: the number of the k-th file == first number + k (0 for a plain stem)", V.to_z3(V.s_cmp("==", parts[2].number, n0 + k))))
            out.append(("C07/C08: zero padded to the width of the prototype's number (3 for a plain stem)", V.to_z3(V.s_cmp("==", parts[2].width, w0))))
        return out


FILENAME_UNITS = [FilenameGenerator(False), FilenameGenerator(True)]
