"""forcing_steps, whole function for fixed file shapes (C03, C20): the step list and the tables step -> file and
step -> record number that ``Forcing._read_velocity`` relies on.

The loops run over the files and their frames; they are executed for FIXED shapes (files with 2, 1, 2 and with 1, 3
frames) with symbolic frame times. The tables are dictionaries keyed by a symbolic step: modelled as the SEQUENCE of
stores (a later store to an equal key wins, as in Python), which determines the dictionary.
"""
from __future__ import annotations

import z3

from pyvc import values as V
from pyvc.interp import ModelObject, PvDict
from pyvc.spec import Args, Spec
from pyvc.values import Arr, Unsupported

from .timekeeper import make_timer, time2step_spec


class StoreSeq(ModelObject):
    """a dict built by item assignment only: the sequence of (key, value) stores"""

    def __init__(self):
        self.stores = []

    def pv_setitem(self, cx, key, val):
        self.stores.append((key, val))

    def pv_getitem(self, cx, key):
        raise Unsupported("lookup in a table under construction")


class ForcingStepsTables(Spec):
    func = "ladim.ROMS.forcing_steps"
    properties = ("C03", "C20")
    inline = ("ladim.timekeeper.TimeKeeper.time2step",)
    may_raise = ("SystemExit",)

    def __init__(self, counts):
        self.counts = tuple(counts)
        self.name = f"ROMS.forcing_steps[whole function, files with {', '.join(map(str, counts))} frames]"
        spec = self

        def scan(interp, args, kwargs):
            files = args[0]
            n = sum(spec.counts)
            times = [z3.Int(f"frame_time_{k}") for k in range(n)]
            for k in range(n - 1):  # contract of scan_file_times (proved): strictly increasing
                interp.cx.assume(times[k] < times[k + 1])
            arr = Arr((n,), lambda k: times[k] if isinstance(k, int) else times[z3.simplify(V.to_z3(k)).as_long()], "int")
            return (arr, dict(zip(files, spec.counts)))

        self.callees = {"ladim.ROMS.scan_file_times": scan}

    def inputs(self, cx):
        files = [f"file{k}" for k in range(len(self.counts))]
        return Args(files=files, timer=make_timer(cx))

    def model(self, cx, a):
        return NotImplemented

    def ensures(self, cx, a, result):
        n = sum(self.counts)
        times = [z3.Int(f"frame_time_{k}") for k in range(n)]
        t = a.timer.attrs
        out = [("C20: a normal return means the frames cover the simulated window", z3.And(times[0] <= t["min_time"], times[-1] >= t["max_time"]))]
        ok = isinstance(result, tuple) and len(result) == 3 and isinstance(result[0], list) and len(result[0]) == n and isinstance(result[1], PvDict) and isinstance(result[2], PvDict) and not len(result[1]) and not len(result[2])
        out.append(("C03: returns (steps, file table, record table) with one step per frame", ok))
        if not ok:
            return out
        steps = result[0]
        fidx, ridx = StoreSeq(), StoreSeq()
        fidx.stores, ridx.stores = list(result[1].sym_stores), list(result[2].sym_stores)
        where = [(f, i) for f, c in zip(a.files, self.counts) for i in range(c)]
        for k in range(n):
            out.append((f"C03: steps[{k}] == time2step(time of frame {k})", V.s_cmp("==", steps[k], time2step_spec(a.timer, times[k]))))
        out.append(("C03: one table entry per frame, in frame order", len(fidx.stores) == n and len(ridx.stores) == n))
        if len(fidx.stores) == n and len(ridx.stores) == n:
            for k in range(n):
                out.append((f"C03: the step of frame {k} points to the file that holds it", z3.And(V.to_z3(V.s_cmp("==", fidx.stores[k][0], steps[k])), z3.BoolVal(fidx.stores[k][1] == where[k][0]))))
                out.append((f"C03: ... and to its record number within that file", z3.And(V.to_z3(V.s_cmp("==", ridx.stores[k][0], steps[k])), V.to_z3(V.s_cmp("==", ridx.stores[k][1], where[k][1])))))
        return out


STEP_TABLE_UNITS = [ForcingStepsTables((2, 1, 2)), ForcingStepsTables((1, 3))]
