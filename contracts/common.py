"""Shared helpers for the sidecar contracts."""
from __future__ import annotations

import z3

from pyvc.values import sym_array


def N(cx, name="n"):
    n = z3.Int(name)
    cx.assume(n >= 0)
    return n


def particle_arrays(n, names, kind="real"):
    return {k: sym_array(k, (n,), kind) for k in names}
