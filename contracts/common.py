"""Shared helpers for the sidecar contracts: symbolic grid, state, forcing, rng."""
from __future__ import annotations

from fractions import Fraction

import z3

from pyvc import values as V
from pyvc.interp import ForallP, ModelObject, Obj, UnivFact
from pyvc.numpy_model import DType
from pyvc.values import Arr, sym_array

HALF = Fraction(1, 2)


def N(cx, name="n"):
    n = z3.Int(name)
    cx.assume(n >= 0)
    return n


def particle_arrays(n, names, kind="real"):
    return {k: sym_array(k, (n,), kind) for k in names}


# ------------------------------------------------------------------ grid


def make_grid(cx, with_vertical=False):
    """A well-formed ROMS Grid object as Grid.__init__ leaves it (its postcondition, see contracts/roms.py)."""
    i0, j0, imax, jmax = z3.Ints("i0 j0 imax jmax")
    cx.assume(z3.And(i0 >= 1, j0 >= 1, imax >= 1, jmax >= 1))
    g = Obj(
        "ladim.ROMS.Grid",
        i0=i0,
        j0=j0,
        i1=i0 + imax,
        j1=j0 + jmax,
        imax=imax,
        jmax=jmax,
        xmin=z3.ToReal(i0),
        xmax=z3.ToReal(i0 + imax - 1),
        ymin=z3.ToReal(j0),
        ymax=z3.ToReal(j0 + jmax - 1),
    )
    for nm, kind in (("H", "real"), ("M", "int"), ("dx", "real"), ("dy", "real"), ("lon", "real"), ("lat", "real")):
        g.attrs[nm] = sym_array(f"grid_{nm}", (jmax, imax), kind)
    for nm in ("dx", "dy", "H"):
        arr = g.attrs[nm]
        d = arr.decl
        cx.univ.append(UnivFact(2, (lambda d: lambda j, i: d(j, i) > 0)(d), decls=[d]))
    M = g.attrs["M"].decl
    cx.univ.append(UnivFact(2, lambda j, i: z3.Or(M(j, i) == 0, M(j, i) == 1), decls=[M]))
    if with_vertical:
        kmax = z3.Int("kmax")
        cx.assume(kmax >= 2)
        g.attrs["N"] = kmax
        zr = sym_array("grid_z_r", (kmax, jmax, imax), "real")
        g.attrs["z_r"] = zr
        d = zr.decl
        # postcondition of sdepth (C12): strictly increasing in k within each column
        cx.univ.append(UnivFact(3, lambda k, j, i: z3.Implies(z3.And(k >= 0, k + 1 < kmax), d(k, j, i) < d(k + 1, j, i)), decls=[d]))
        cx.univ.append(UnivFact(3, lambda k, j, i: z3.Implies(z3.And(k >= 1, k < kmax), d(k - 1, j, i) < d(k, j, i)), decls=[d]))
    return g


def valid_pos(grid, X: Arr, Y: Arr):
    """forall p: the position lies in the valid region of the loaded grid."""
    fx, fy = X.fn, Y.fn
    g = grid.attrs
    return ForallP(
        X.shape[0],
        lambda p: z3.And(g["xmin"] + HALF_R < fx(p), fx(p) < g["xmax"] - HALF_R, g["ymin"] + HALF_R < fy(p), fy(p) < g["ymax"] - HALF_R),
    )


HALF_R = z3.RealVal("1/2")


def in_valid(grid, x, y):
    g = grid.attrs
    return z3.And(g["xmin"] + HALF_R < x, x < g["xmax"] - HALF_R, g["ymin"] + HALF_R < y, y < g["ymax"] - HALF_R)


def cell_index(grid, x, y):
    """(J, I): the particle's own grid cell (nearest rho point)."""
    g = grid.attrs
    return V.s_round(y) - g["j0"], V.s_round(x) - g["i0"]


def at_sea(grid, x, y):
    J, I = cell_index(grid, x, y)
    return grid.attrs["M"].fn(J, I) > 0


# ------------------------------------------------------------------ state

MANDATORY = dict(pid="int", X="real", Y="real", Z="real", active="bool", alive="bool")


def make_state(cx, n, extra_instance=(), extra_particle=(), npid=None, prefix="st_"):
    """A well-formed State with n live instances (class invariant of State, contracts/state.py)."""
    variables = {}
    dtypes = {}
    for k, kind in MANDATORY.items():
        variables[k] = sym_array(prefix + k, (n,), kind)
        dtypes[k] = DType(kind)
    for k, kind in extra_instance:
        variables[k] = sym_array(prefix + k, (n,), kind)
        dtypes[k] = DType(kind)
    npid = npid if npid is not None else z3.Int(prefix + "npid")
    for k, kind in extra_particle:
        variables[k] = sym_array(prefix + k, (npid,), kind)
        dtypes[k] = DType(kind)
    st = Obj(
        "ladim.state.State",
        variables=variables,
        dtypes=dtypes,
        instance_variables=set(MANDATORY) | {k for k, _ in extra_instance},
        particle_variables={k for k, _ in extra_particle},
        default_values=dict(alive=True, active=True),
        npid=npid,
        modules=None,
    )
    return st


def state_wf(cx, st):
    """Class invariant of State: pid strictly increasing, k <= pid[k] < npid."""
    pid = st.attrs["variables"]["pid"]
    n = pid.shape[0]
    f = pid.fn
    npid = st.attrs["npid"]
    cx.assume(V.to_z3(n) >= 0)
    cx.assume(V.to_z3(npid) >= V.to_z3(n))
    return [
        ForallP(n, lambda k: z3.And(f(k) >= k, f(k) < npid)),
        ForallP(n, lambda k: z3.Implies(k + 1 < V.to_z3(n), f(k) < f(k + 1))),
        ForallP(n, lambda k: z3.Implies(k >= 1, f(k - 1) < f(k))),
    ]


# ------------------------------------------------------------------ forcing (abstract)

velU = z3.Function("velU", z3.RealSort(), z3.RealSort(), z3.RealSort(), z3.RealSort(), z3.RealSort())
velV = z3.Function("velV", z3.RealSort(), z3.RealSort(), z3.RealSort(), z3.RealSort(), z3.RealSort())


class AbstractForce(ModelObject):
    """The forcing as the tracker sees it: an uninterpreted velocity field
    vel(x, y, z, fractional_step); C02/C03 say what it equals.  The precondition
    is the C17 chain: every sampled position lies in the clipped forcing domain
    and the cached level arrays are aligned with the particle arrays."""

    def __init__(self, grid, nK, W=None):
        self.grid = grid
        self.nK = nK  # ghost: length of the cached K/A (alignment, C14)
        self.variables = {"w": W} if W is not None else {}
        self.calls = []

    def pv_getattr(self, cx, name):
        if name == "velocity":
            return self._velocity
        if name == "variables":
            return self.variables
        raise V.Unsupported(f"forcing.{name}: not part of the forcing interface the tracker contract models")

    @property
    def _velocity(self):
        me = self

        def velocity(interp, X, Y, Z, fractional_step=0, method="bilinear"):
            cx = interp.cx
            g = me.grid.attrs
            lo_x, hi_x = g["xmin"] + z3.RealVal("1/100"), g["xmax"] - z3.RealVal("1/100")
            lo_y, hi_y = g["ymin"] + z3.RealVal("1/100"), g["ymax"] - z3.RealVal("1/100")
            fx, fy, fz = X.fn, Y.fn, Z.fn
            n = X.shape[0]
            cx.oblige("precondition of forcing.velocity: len(Y) == len(X)", V.s_cmp("==", Y.shape[0], n), kind="pre")
            cx.oblige("precondition of forcing.velocity: len(Z) == len(X)", V.s_cmp("==", Z.shape[0], n), kind="pre")
            cx.oblige("precondition of forcing.velocity: cached level arrays K, A aligned with the particle arrays (len(K) == len(X))", V.s_cmp("==", me.nK, n), kind="pre")
            cx.oblige_item(
                "precondition of forcing.velocity: sampled position inside the clipped forcing domain [xmin+.01, xmax-.01] x [ymin+.01, ymax-.01]",
                ForallP(n, lambda p: z3.And(lo_x <= fx(p), fx(p) <= hi_x, lo_y <= fy(p), fy(p) <= hi_y)),
                kind="pre",
            )
            fr = V.to_real(fractional_step)
            me.calls.append(fr)
            U = Arr((n,), lambda p: velU(fx(p), fy(p), fz(p), fr), "real")
            Vv = Arr((n,), lambda p: velV(fx(p), fy(p), fz(p), fr), "real")
            return (U, Vv)

        velocity._pyvc_model = True
        return velocity


class Rng(ModelObject):
    """numpy.random.Generator: each normal(size=n) call returns a fresh vector xi_c (assumed i.i.d. N(0,1))."""

    def __init__(self):
        self.draws = 0
        self.sizes = []

    def pv_getattr(self, cx, name):
        if name not in ("normal", "standard_normal"):
            # other distributions (uniform, ...) have the required moments only up to rounding of their parameters:
            # not decidable in exact arithmetic, left to the bounded moment checks
            raise V.Unsupported(f"rng.{name}")
        me = self

        def normal(interp, loc=0, scale=1, size=None):
            if name == "standard_normal":
                loc, scale, size = 0, 1, (loc if size is None else size)
            if size is None:
                raise V.Unsupported("scalar random draw")
            me.draws += 1
            me.sizes.append(size)
            shape = tuple(size) if isinstance(size, (tuple, list)) else (size,)
            xi = sym_array(f"xi{me.draws}", shape, "real")
            if not V.is_z3(scale) and scale == 1 and not V.is_z3(loc) and loc == 0:
                return xi
            return interp.binop("+", loc, interp.binop("*", scale, xi))  # N(loc, scale^2) = loc + scale * N(0, 1)

        normal._pyvc_model = True
        return normal

    def pv_compare(self, cx, actual, label, kind):
        cx.oblige(f"{label}: number of random draws == {self.draws}", isinstance(actual, Rng) and actual.draws == self.draws, kind=kind)
