"""Write meta.json for seeds verified with tools/verify_seed.sh from verify.json + check logs (round 2 and later).
usage: python3 tools/seed_meta.py            (all seeds listed in NEEDS below)"""
import json
import re
from pathlib import Path

VERIF = Path(__file__).resolve().parent.parent

NEEDS = {
    "seed_C02b": ("C02", "sloping bottom + every particle of the call shallower than the top rho level of the DEEPEST loaded cell, one of them below the top level of its own column (two cooperating edits: cached z_top with min/max confusion in Grid.__init__ + fast path in Forcing.update)",
                  "missed by the first run (checker crash on a 2-D .min(), then UNDECIDED: the new attribute is outside the contract's pre-state): n-D min/max added to the numpy model, sloping-bottom cases added to the sampling sweep (bounded detection); Forcing.update now carries the K/A postcondition for C02"),
    "seed_C03b": ("C03", "run starting exactly on the first forcing frame (prestep == 0) + velocity differing between frames 0 and 1 (two cooperating edits: u_new aliased to u, in-place pre-roll)", ""),
    "seed_C04b": ("C04", "continuous release + a file time whose rows ALL have mult 0 (source switched off) followed by a tick (mult-0 rows dropped before discretize)",
                  "first run: checker crash (comparison on an opaque column) and no such table in the sweep; comparison is now Unsupported instead of a crash, an all-zero table was added to the sweep, and constructor + discretize of continuous mode were brought under contract (deductive detection)"),
    "seed_C06b": ("C06", "skip_initial=True (automatic after a warm start): record time taken from a running counter seeded with the step-0 time", ""),
    "seed_C07b": ("C07", "time-reversed run with at least two records (time stamp from a cached counter incremented by a step count that is always positive)", ""),
    "seed_C08b": ("C08", "continuous-release file with a later entry off the release-frequency grid + restart later than that entry (ticks re-anchored at the last entry <= restart time)",
                  "missed by the first run: no such history in the restart sweep and discretize not under contract; both added (deductive + bounded detection)"),
    "seed_C09b": ("C09", "particle exactly on a cell face x = k + 0.5, k even (round-half-even vs floor(x + 0.5) name different cells) moving into a land cell",
                  "missed by the first run (masked store of an uncompressed array unsupported; random start positions never hit the tie): masked store generalised (the VC is generated now but z3 times out: UNDECIDED), half-integer start positions added to the tracking sweep (bounded detection)"),
    "seed_C10b": ("C10", "time-reversed run over several forcing files crossing a file boundary (file switch skipped unless the frame is the first of its file)", ""),
    "seed_C14b": ("C14", "steps with an empty state (late first release / everybody dead) + time-varying currents (forcing/tracker/ibm skipped without particles)", ""),
    "seed_C16b": ("C16", "numrec > 0 + lon/lat in the output + more than one particle per record in an earlier file (two cooperating edits: offset re-enabled, lon/lat slice from instance_count - offset)",
                  "missed by the first run: the output sweep never requested lon/lat for the sparse layout (harness indexing slip) and its state lacked lon/lat variables; corrected (bounded detection). Deductively UNDECIDED: the new attribute `offset` is outside the contract's pre-state"),
    "seed_C18b": ("C18", "a second configure() call in the same process for a version-2 file without grid section (module-level default dicts shared between calls)",
                  "missed by the first run (dict.setdefault unsupported, no multi-call history in the sweep): setdefault modelled, module-level containers are single objects per path with a FRAME obligation (not modified by the call), and the sweep configures three set-ups in one process"),
    "seed_C20b": ("C20", "multi-file forcing where a file lying wholly after the window precedes a misplaced/duplicated file (three cooperating edits: early break of the scan)",
                  "missed by the first run: no such fault in the sweep; two faults added (bounded detection). Deductively UNDECIDED: the signature of forcing_steps changed under the verified slice"),
    "seed_C01b": ("C01", "two consecutive updates without release/removal on a grid whose metric differs between cells (metric re-sampled only when (npid, len) changes)",
                  "missed by the first run: deductively UNDECIDED (the cache attribute `_population` is outside the contract's pre-state) and no sweep ran consecutive steps over a varying metric; `tracker_history_bounded` added (bounded detection)"),
    "seed_C05b": ("C05", "a state with a particle variable + release, death, compactify, another release (particle variables trimmed to len(state) in append)", ""),
    "seed_C11b": ("C11", "horizontal diffusion on AND vertical diffusion off, at least two steps, unchanged particle count (noise block invalidated only by diffuse_vert)",
                  "missed by the first run: deductively UNDECIDED (new helper and cache attribute), and the moments sweep had both coefficients on; horizontal-only / vertical-only parameter sets and a step-to-step correlation test added (bounded detection); helpers without any contract are now inlined instead of making the unit undecided"),
    "seed_C12b": ("C12", "one Vstretching=2 call, then any later s_stretch/sdepth call with the same (N, stagger) in the same process (array of an lru_cache'd helper mutated in place)",
                  "caught by the bounded vertical sweep; deductively UNDECIDED: the @lru_cache decorator is not modelled (decorators other than numba.njit/staticmethod/abstractmethod now make a unit UNDECIDED instead of being dropped silently)"),
    "seed_C13b": ("C13", "time-reversed run without an explicit reference time (start_offset cached as 0 although the default reference is min_time = stop)",
                  "caught by the bounded clock sweep; deductively UNDECIDED (new attribute outside the contract's pre-state)"),
    "seed_C15b": ("C15", "no horizontal advection/diffusion + vertical movement + a step where one particle is replaced by another (same count): cached depths paired with the wrong particles",
                  "missed by the first run (UNDECIDED; no such history in the sweep); `tracker_history_bounded` added (bounded detection)"),
    "seed_C17b": ("C17", "dense layout + a particle leaving through the east/north open boundary by more than half a cell + one more step (inactive mask taken before the kill)", ""),
    "seed_C19b": ("C19", "a second plug-in load in the same process with the same file name in another directory (sys.modules cache keyed on the stem)",
                  "missed by the first run (membership test on sys.modules unmodelled; no such history in the sweep): sys.modules modelled as an object with an arbitrary history (deductive detection), two same-named plug-ins in one process added to protocol_bounded"),
    "seed_C02c": ("C02", "a subgrid whose x and y offsets differ (i0 != j0) + sloping bottom + depth-dependent velocity (z2s called with Y - i0)", ""),
    "seed_C03c": ("C03", "time-reversed run + fractional step > 0 (RK2/RK4) + velocity changing between frames (reversal sign applied to u, v but not to the fractional increment)", ""),
    "seed_C04c": ("C04", "continuous release with a window whose end is not on the release-frequency grid anchored at the first file time (tick count by floor division)", ""),
    "seed_C05c": ("C05", "item assignment from an existing array of the same dtype (state['X0'] = state['X']) followed by an in-place update of the source (np.asarray does not copy)",
                  "missed by the first run: np.asarray was modelled without its no-copy behaviour and the contract of __setitem__ did not say that the state keeps its own copy; both added (deductive detection), aliasing probe added to the state history sweep"),
    "seed_C06c": ("C06", "a record with zero particles (release after the start, or everybody dead): particle_count not written for it", ""),
    "seed_C07c": ("C07", "time-reversed run whose duration is not a multiple of the output period, or an explicit reference time off the period grid (schedule anchored at the reference time)", ""),
    "seed_C08c": ("C08", "warm start where the time from the restart to the stop is an exact multiple of the output period (floor instead of ceil - 1 when the initial record is skipped)", ""),
    "seed_C09c": ("C09", "a subgrid with i0 != j0 (shared helper of atsea/onland offsets the row index by i0)", ""),
    "seed_C10c": ("C10", "time-reversed run + discrete release file listed in chronological order (groupby(sort=False) without the reverse)",
                  "missed by the first run: the constructor contract assumed a file sorted in simulation order (C04's quantifier) also where C10/C14 do not, and the mirror sweep listed the rows in simulation order; a contract variant without that assumption and chronological files in the mirror sweep added (deductive + bounded detection)"),
    "seed_C14c": ("C14", "an inactive or dead particle earlier in the state arrays + a later particle stepping onto land in the same step (subset indices applied to the full arrays)",
                  "C14's own check missed it at first (deductively UNDECIDED: np.flatnonzero unmodelled; the independence sweep had no land hit behind a dead particle) while C09's tracking sweep caught it; island/outflow scenario in both layouts added to the independence sweep (bounded detection)"),
    "seed_C16c": ("C16", "a subgrid with i0 != j0 (xy2ll subtracts i0 from Y)", ""),
    "seed_C17c": ("C17", "a subgrid with i0 != j0 (two cooperating edits: Grid.origin in (row, column) order, unpacked as (i0, j0) in velocity/force_particles)",
                  "caught deductively for C17; the C02 sampling sweep used only subgrids with equal offsets and missed it: unequal offsets now"),
    "seed_C01d": ("C01", "get_velocity2 with s != 1 (second-stage weight 1/2*s instead of 1/(2*s): coincides for Heun only)", ""),
    "seed_C11d": ("C11", "horizontal diffusion without an advection scheme (U = V = np.zeros_like(X): both directions share one array, in-place adds)", ""),
    "seed_C12d": ("C12", "Vtransform=2 + the same bathymetry array used for two sdepth calls, as Grid.__init__ does (H.ravel() view divided in place)",
                  "caught by the bounded vertical sweep; the encoder validation reported that the interpreter disagreed with numpy on this code (ravel() was modelled as a copy): ravel() is now a view for in-place changes and the frame obligation 'H unchanged' of sdepth fails (deductive detection)"),
    "seed_C13d": ("C13", "time-reversed cold start (pre-start clock written as start_time - dt instead of step2time(-1))", ""),
    "seed_C15d": ("C15", "sloping bottom with particles over different depths, none of them below the deepest occupied bottom (bottom reflection guarded by Z.max() > h.max())", ""),
    "seed_C18d": ("C18", "a v1 YAML file using an anchor/alias for two output variables with ncformat != f4 (shared dict popped in place, new default f4)", ""),
    "seed_C19d": ("C19", "an output plug-in without a layout attribute + a particle killed by the IBM (compactify only when layout == 'sparse')", ""),
    "seed_C20d": ("C20", "a subgrid edge beyond the grid by more than i0 (negative-index handling by modulo wraps illegal limits into range before the sanity check)", ""),
    "seed_C03e": ("C03", "reversed run + irregular (non-palindromic) forcing frame spacing + time-varying flow (stepdiff taken from the unsorted, descending step list: dU uses the mirror interval's length)", ""),
    "seed_C06e": ("C06", "skip_initial true (explicitly, or implicitly on every warm start): the time coordinate comes from the output module's own counter that starts at step 0, every record labelled one period early", ""),
    "seed_C07e": ("C07", "split run (at least two files) with a variable whose configured type is not f4 (create_netcdf pops 'datatype' from the shared configuration: later files are all f4)",
                  "caught by the bounded whole-run check; deductively the postcondition of create_netcdf crashed on the consumed configuration (UNDECIDED): it is now stated on the configuration as given, with the frame obligation 'the configuration keeps every entry it had' (deductive detection)"),
    "seed_C08e": ("C08", "output without particle variables + newest pid absent from the last record of the restart file (npid taken from the last record only: pids reused after the restart)", ""),
    "seed_C10e": ("C10", "the slip of seed_C03e seen from C10: a reversed run with irregular frames differs from the mirrored forward run", "bounded detection by C10's own check (the deductive unit Forcing.__init__ is UNDECIDED on the changed iteration); C03's check refutes the constructor's postcondition deductively"),
    "seed_C14e": ("C14", "an inactive particle still in the state (dense layout after a death, or an IBM deactivating) followed by active ones at other depths in depth-dependent flow (advection called on the active subset: the forcing reads the cached K, A of other particles)",
                  "MISSED by the first run: the unit was UNDECIDED (compressed array combined with a full array) and no bounded scenario had an inactive particle in front of active ones at other depths. Two general changes: obligations met BEFORE an unsupported construct are now decided (the unit stays UNDECIDED), and the scheme contracts state the alignment precondition of forcing.velocity (positions index-aligned with the cached K, A), which this call violates (deductive detection); sheared outflow scenario with particles at different depths in both layouts added to the independence sweep (bounded detection)"),
    "seed_C16e": ("C16", "sample2D with a mask + outside_value + a point outside + a masked node in cell (0,0)", ""),
    "seed_C18e": ("C18", "legacy v1 file naming the forcing file and the grid file in different sections (gridforce vs files): the explicit grid file is dropped",
                  "MISSED by the first run: the v1 units placed both names in the same section. The placements are now independent (37 units instead of 19): deductive detection"),
    # round 7 (suffix f)
    "seed_C03f": ("C03", "extra (scalar) forcing + forcing split over files + two consecutive frames with the same record number in different files, e.g. one frame per file (scalar record cache keyed on the record number inside the file, not invalidated when the file changes)",
                  "caught by the bounded layout sweep; deductively UNDECIDED (the cache attribute `_latest_record` is outside the contract's pre-state)"),
    "seed_C05f": ("C05", "warm start from a file whose LAST record is empty (everybody dead at the last output time): `ncvar[-pcount:]` with pcount == 0 is the whole variable, so every historical instance is loaded (duplicate pids, the dead alive again, alive/active of length 0)",
                  "MISSED by the first run: the ghost restart-file variable modelled only `v[a:b]` with given non-negative bounds (UNDECIDED on `v[-n:]`), and C05 did not have warm_start among its units. Python's slice normalisation (negative and open bounds, -0 == 0) is now part of the assumed netCDF4 slice contract, and warm_start is under contract for C05 as well as C08 (deductive detection: the shape of every instance variable is refuted for count == 0)"),
    "seed_C08f": ("C08", "restart file without alive/active + an IBM that deactivates particles in place (state.active[i] = False) before the first release/compactify after the restart (alive and active are ONE array object after the warm start: deactivating kills)",
                  "MISSED by the first run: the contract compared the values of the restarted state, not the identity of its arrays. An ownership clause was added to the warm_start contract (every variable of the restarted state is its own array object, as after State.append): deductive detection"),
    "seed_C09f": ("C09", "sparse layout + the highest-pid particle dies while an older one survives + a later release (pid numbered from the last pid in the state: the dead particle's pid is alive again and reappears in the output)",
                  "the same slip as seed_C05 reached from C09's text (a pid-accounting defect). First run: refuted by C05's check only (State.append: pid / npid equal specification), C09's own units (tracker, grid) were untouched by it and C09's check was silent; the three State.append units are now units of C09's check too - 'no dead particle reappears' depends on identifiers never being handed out twice (deductive detection by C09 itself)"),
    "seed_C13f": ("C13", "CF time requested in minutes or hours + an offset from the reference time that is not a whole number of that unit (np.timedelta64(delta, unit) truncates before the division)", ""),
    "seed_C16f": ("C16", "grid with longitudes in the 0..360 convention above 180 (date line) + release given by lon/lat with a longitude > 180 (release longitudes above 180 folded to lon - 360 before ll2xy)",
                  "MISSED by the first run: release-table columns were opaque names (UNDECIDED on Series.where). Columns now carry values (row -> real term) with assumed element-wise contracts for arithmetic, comparison, where/mask, .values/.to_numpy/.astype(float)/.copy, and clean_position's postcondition says BY VALUE that the longitude/latitude handed to ll2xy are the ones given in the file (deductive detection, counterexample lon > 180)"),
    "seed_C17f": ("C17", "a particle whose depth equals exactly the depth of the uppermost rho level of its cell (searchsorted side='right' on the tie returns kmax: zr[kmax], F[kmax] read)", ""),
    "seed_C18f": ("C18", "grid section omitted + wildcard forcing name whose file-name part starts with * or ? + a hidden (dot) file among the matches that sorts first (glob.glob skips hidden files, Path.glob - used by the forcing module - does not: the grid is read from the second forcing file)",
                  "MISSED by the first run: the wildcard expansion was covered by one bounded scenario only and the contract units used a plain forcing file name. New units configure_v2 x3 / configure_v1 x4 run the real code against a ghost directory (fixed contents: a hidden first match, ordinary matches, no match) under the documented contracts of Path.glob and glob.glob: the grid file must be the first of what the forcing module's own search (Path.glob) matches (deductive detection)"),
    # round 8 (suffix g)
    "seed_C02g": ("C02", "forcing split over several int16-packed files with a different scale_factor / add_offset per file + a run crossing a file boundary (packing attributes read for the first file only)", ""),
    "seed_C04g": ("C14", "[asked for as a change breaking C04; the trigger is outside C04's quantifier and inside C14's] discrete release file listed site by site: at least three release times whose order of first appearance is neither ascending nor descending (groupby(sort=False) + a reverse test on the first and last step only): whole row groups released at another group's step",
                  "the trigger lies outside C04's quantifier (tables sorted in simulation order) and C04's check is silent (its constructor units are UNDECIDED on the new code shape); it is inside C14's (all permutations of the release rows). MISSED by C14's first run: the independence sweep permuted rows of two release times only; a three-time site-by-site listing was added to `independence_bounded` (bounded detection by C14)"),
    "seed_C06g": ("C06", "a state that still holds dead particles when Output.write is called: a user forcing module killing particles in update(), or the output module used as a library (compactify dropped from write)", "caught by the bounded whole-run check; the two Output.write units did not finish within the 900 s unit limit while all 16 cores were busy with other runs (UNDECIDED)"),
    "seed_C07g": ("C07", "sparse layout + a scheduled output time at which no particle is alive, e.g. first release after the start (early return from write: the record is skipped, file boundaries shift)", ""),
    "seed_C10g": ("C10", "time-reversed run + a release time (or forcing frame) that is not a whole number of dt from the start (time2step rounds up instead of mirroring the floor)", ""),
    "seed_C14g": ("C03", "[asked for as a change breaking C14; the slip is in the decoding of the forcing time axis and breaks C03 first] forcing time axis in float days (values not exactly representable) + time-varying current + absolute times where a frame lies a fraction of a microsecond below its whole second (array-wise decoding truncates where cftime rounds: the frame lands one step early; which frames depends on the absolute time, so a whole-step shift changes the trajectories)",
                  "MISSED by the first run: floats are reals for the generator (the truncation is the identity on exact values; the scan units are UNDECIDED on the new helper) and every synthetic file had an integer time axis in seconds. The slip is a forcing-time slip: every eighth case of `forcing_layouts_bounded` is now repeated with a float64 `days since 1970` axis whose epoch makes every third hourly frame fall short (bounded detection by C03's check; C14's own sweep stays on second axes)"),
    "seed_C19g": ("C06", "[asked for as a change breaking C19; the step protocol is intact, the record time is what breaks: C06] time-reversed run with at least two records (record time from a counter that only counts upwards): the slip of seed_C07b / seed_C06e reached from C19's text",
                  "refuted by C06's check (deductive: time coordinate of the record) - the step protocol C19 states (order, once per step) is intact under this change and C19's check is silent"),
    "seed_C20g": ("C20", "time-reversed run whose only release inside the window lies exactly at the stop time (searchsorted side for the reversed slice): the set-up is not refused and runs with zero particles",
                  "caught by the bounded fault injection; deductively UNDECIDED (Index.searchsorted has no assumed contract)"),
}


def main():
    for sid, (pid, needs, note) in NEEDS.items():
        d = VERIF / "seeded" / sid
        if not (d / "verify.json").exists():
            print("skip", sid)
            continue
        v = json.load(open(d / "verify.json"))
        exits, det = {}, []
        for f in sorted(d.glob("check_*.exit")):
            p = f.stem.split("_")[1]
            exits[p] = int(f.read_text().strip() or 3)
            log = (d / f"check_{p}.log").read_text()
            lines = [ln for ln in log.splitlines() if ln.startswith("VIOLATION")]
            ded = [ln for ln in lines if ' obligation="' in ln]
            bnd = [ln for ln in lines if ' bounded-check="' in ln]
            if p == pid or not det:
                first = (ded[:1] or []) + (bnd[:1] or [])
                det = [ln[:320] for ln in first] + det if p == pid else det + [ln[:320] for ln in first]
        meta = dict(
            id=sid,
            breaks_property=pid,
            origin="independent sub-agent, later round (suffixes f, g: rounds 7 and 8, 2026-09-28): given only the property text, a scratch worktree and the instruction to avoid the site used by the first-round seed and to prefer cooperating edits / histories / boundary values (no access to /verif)",
            needs_to_manifest=needs,
            confirmed={k: v[k] for k in ("demo_exit_with_patch", "demo_exit_without_patch", "tests_with", "tests_without", "demo_says_violated_with_patch", "demo_says_holds_without_patch") if k in v},
            what_i_ran=["tools/verify_seed.sh: git apply patch.diff in a scratch worktree; demo with and without; pytest with and without",
                        "PYVC_REPO=<patched worktree> python3-vt -m pyvc.check <id> --tier quick (same verdict as applying patch.diff to /repo and running the registered command)"],
            check_exit_codes=exits,
            detected_by=det[:3],
            note=note,
        )
        json.dump(meta, open(d / "meta.json", "w"), indent=1)
        print(sid, exits, "deductive" if any(' obligation="' in x for x in det) else "bounded" if det else "NOT DETECTED")


if __name__ == "__main__":
    main()
