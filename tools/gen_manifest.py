"""Regenerate MANIFEST.json from the props modules (keeps the file valid and current)."""
import importlib
import json
import sys
from pathlib import Path

VERIF = Path(__file__).resolve().parent.parent
sys.path.insert(0, str(VERIF))
ids = [json.loads(l)["id"] for l in (VERIF / "properties.jsonl").read_text().splitlines() if l.strip()]
checks, na, served = [], [], []
for pid in ids:
    p = VERIF / "props" / f"{pid}.py"
    reason = None
    if p.exists():
        src = p.read_text()
        meta = {}
        # read metadata without importing z3-dependent code
        import ast

        tree = ast.parse(src)
        for node in tree.body:
            if isinstance(node, ast.Assign) and isinstance(node.targets[0], ast.Name) and node.targets[0].id in ("LEVEL", "LEVEL_TEXT", "LEVEL_NOTE", "TECHNIQUE", "DESIGN_REF", "NOT_APPLICABLE"):
                try:
                    meta[node.targets[0].id] = ast.literal_eval(node.value)
                except Exception:
                    pass
        if "NOT_APPLICABLE" in meta:
            reason = meta["NOT_APPLICABLE"]
        else:
            served.append(pid)
            checks.append(
                dict(
                    property_id=pid,
                    quick_cmd=f"python3-vt -m pyvc.check {pid} --tier quick",
                    thorough_cmd=f"python3-vt -m pyvc.check {pid} --tier thorough",
                    evidence_file=f"/verif/evidence/{pid}.json",
                    replay_cmd_template=f"python3-vt -m pyvc.check {pid} --replay {{path}}",
                    engine="pyvc",
                    level_claimed=dict(category=meta.get("LEVEL", "proof"), text=meta.get("LEVEL_TEXT", ""), design_ref=meta.get("DESIGN_REF", f"DESIGN.md section 7 ({pid})")),
                    level_note=meta.get("LEVEL_NOTE", ""),
                    technique=meta.get("TECHNIQUE", "contract-based deductive verification: VCs generated from the real Python AST against sidecar contracts, discharged by z3"),
                )
            )
            continue
    na.append(dict(property_id=pid, reason=reason or "check not built yet (work in progress; see DESIGN.md section 7)"))
m = dict(
    version=1,
    setup_cmd='python3-vt -c "import z3" && /venv/bin/python -c "import numpy, numba, netCDF4, pandas, ladim"',
    hooks=dict(
        guard="LADIM2_VERIF",
        enable="none needed: contracts are sidecar files under /verif/contracts, replays drive public APIs; /repo carries no instrumentation",
        baseline_off_cmd="cd /repo && /venv/bin/python -m pytest -ra -q -p no:cacheprovider --timeout=900 --continue-on-collection-errors",
        source_commits=[],
        add_only=True,
    ),
    engines=[dict(name="pyvc", path="/verif/pyvc", serves_properties=served, kind_free_text="VC generator over the real Python AST of /repo (symbolic execution path by path, modular calls through sidecar contracts) + z3 (default and qfnra-nlsat after lazy Ackermann reduction); native replays and bounded stand-ins under /venv/bin/python")],
    checks=checks,
    not_applicable=na,
    notes="All checks read /repo's working tree on every run; nothing is built or cached. known_findings.json lists repaired (fix:) and open findings.",
)
(VERIF / "MANIFEST.json").write_text(json.dumps(m, indent=1))
print("checks:", served, "not_applicable:", [x["property_id"] for x in na])
