"""Regenerate appendix B of DESIGN.md (functions under contract per property, measured obligation counts) from the
committed evidence files /verif/evidence/C*.json. Run after the quick checks: python3 tools/unit_table.py"""
import collections
import glob
import json
from pathlib import Path

VERIF = Path(__file__).resolve().parent.parent
out = ["## Appendix B. Functions under contract per property (from the last committed quick run)", "",
       "Counts are measured by the run that wrote `/verif/evidence/<id>.json`; `units` = contract variants of real functions,",
       "`non-trivial` = obligations not closed by the simplifier alone.", "",
       "| id | level | units | lemmas | paths | obligations | discharged | non-trivial | by back end | bounded cases | solver s | real functions (x variants) |",
       "|---|---|---|---|---|---|---|---|---|---|---|---|"]
tot = collections.Counter()
for f in sorted(glob.glob(str(VERIF / "evidence" / "C*.json"))):
    e = json.load(open(f))
    c = e["coverage"]
    fu = c.get("functions_under_contract", [])
    funcs = collections.Counter()
    lem = 0
    for u in fu:
        fn = u.get("function") or ""
        if not fn:
            lem += 1
            continue
        funcs[fn.replace("ladim.", "")] += 1
    lemmas = [u for u in fu if str(u.get("unit", "")).startswith("lemma:")]
    names = ", ".join(f"`{k}`" + (f" x{v}" if v > 1 else "") for k, v in funcs.items())
    be = ", ".join(f"{k} {v}" for k, v in sorted(c.get("obligations_by_backend", {}).items()))
    bounded = sum(int(b.get("cases", 0) or 0) for b in c.get("bounded", []) if isinstance(b, dict))
    out.append(f"| {e['property_id']} | {e.get('level')} | {sum(funcs.values())} | {len(lemmas) or lem} | {c.get('paths')} | {c.get('obligations')} | {c.get('discharged')} | {c.get('distinct_nontrivial')} | {be} | {bounded} | {c.get('solver_time_s')} | {names} |")
    tot["units"] += sum(funcs.values())
    tot["obligations"] += c.get("obligations", 0) or 0
    tot["discharged"] += c.get("discharged", 0) or 0
    tot["bounded"] += bounded
out.append("")
out.append(f"Totals over the 20 properties (units shared between properties are counted once per property): {tot['units']} units, {tot['obligations']} obligations generated, {tot['discharged']} discharged, {tot['bounded']} bounded cases.")
text = (VERIF / "DESIGN.md").read_text()
marker = "## Appendix B."
if marker in text:
    text = text[: text.index(marker)]
text = text.rstrip() + "\n\n" + "\n".join(out) + "\n"
(VERIF / "DESIGN.md").write_text(text)
print("appendix B:", dict(tot))
