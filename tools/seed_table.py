"""Regenerate appendix A of DESIGN.md (seeded changes and which checks catch them) from /verif/seeded/*/meta.json."""
import glob
import json
import re
from pathlib import Path

VERIF = Path(__file__).resolve().parent.parent
rows = []
last = {}
lf = VERIF / "seeded" / "selftest_last.json"
if lf.exists():
    for r in json.load(open(lf)):
        last[r["seed"]] = r
for f in sorted(glob.glob(str(VERIF / "seeded" / "*" / "meta.json"))):
    m = json.load(open(f))
    caught = []
    for pid, ex in sorted(m.get("check_exit_codes", {}).items()):
        caught.append(f"{pid}: {'VIOLATION (exit 1)' if ex == 1 else 'not detected (exit ' + str(ex) + ')'}")
    det = m.get("detected_by", [])
    how = ""
    if det:
        mm = re.search(r'(obligation|bounded-check)="([^"]+)', det[0])
        how = (("deductive: " if mm.group(1) == "obligation" else "bounded: ") + mm.group(2)[:110]) if mm else det[0][:110]
    st = last.get(m["id"])
    if st and not caught:
        caught = [f"{st['property']}: {'VIOLATION (exit 1)' if st['status'] == 'detected' else st['status']} (self-test)"]
        mm = re.search(r'(obligation|bounded-check)="([^"]+)', st.get("detail", ""))
        if mm and not how:
            how = ("deductive: " if mm.group(1) == "obligation" else "bounded: ") + mm.group(2)[:110]
    rows.append((m["id"], m["breaks_property"], m.get("change", m.get("needs_to_manifest", ""))[:150], "; ".join(caught), how, m.get("note", "")))
out = ["## Appendix A. Seeded changes and the checks that catch them", "",
       "| seed | property | needs, in order to manifest | check verdict | first failing obligation / bounded check | note |", "|---|---|---|---|---|---|"]
for r in rows:
    out.append("| " + " | ".join(str(x).replace("|", "/") for x in r) + " |")
text = (VERIF / "DESIGN.md").read_text()
marker = "## Appendix A."
tail = ""
if "## Appendix B." in text:
    tail = "\n" + text[text.index("## Appendix B.") :]
    text = text[: text.index("## Appendix B.")]
if marker in text:
    text = text[: text.index(marker)]
text = text.rstrip() + "\n\n" + "\n".join(out) + "\n" + tail
(VERIF / "DESIGN.md").write_text(text)
print(len(rows), "seeds")
