#!/bin/bash
# sanity before committing /verif: every Python file parses, every props module imports, MANIFEST regenerates and validates
cd /verif || exit 1
for f in props/C*.py contracts/*.py pyvc/*.py native/*.py tools/*.py; do python3 -c "import ast; ast.parse(open('$f').read())" || { echo "SYNTAX $f"; exit 1; }; done
python3-vt - <<'PY' || exit 1
import sys, importlib; sys.path.insert(0, '/verif')
for i in range(1, 21):
    m = importlib.import_module(f"props.C{i:02d}")
    assert getattr(m, "UNITS", None) is not None
print("props import ok")
PY
python3 tools/gen_manifest.py > /dev/null
python3-vt -c "
import json, jsonschema
jsonschema.validate(json.load(open('/verif/MANIFEST.json')), json.load(open('/root/.vp/MANIFEST.schema.json'))); print('manifest ok')"
