#!/bin/bash
# usage: verify_seed.sh <seed-id> <worktree> <property-id> [more property ids to check...]
# 1) confirms in the scratch worktree: demo fails with the patch, passes without, test suite outcome unchanged
# 2) applies the patch to /repo, runs the property's quick check, reverts /repo
id=$1; wt=$2; shift 2
out=/verif/seeded/$id; mkdir -p $out
cd $wt || exit 2
git checkout -q -- ladim; git apply patch.diff || exit 2
git diff -- ladim > $out/patch.diff
demo=$(ls demo_*.py | head -1); cp $demo $out/
/venv/bin/python $demo > $out/demo_with_patch.log 2>&1; with=$?
t_with=$(/venv/bin/python -m pytest -q -p no:cacheprovider --timeout=900 2>&1 | tail -1)
git checkout -q -- ladim
/venv/bin/python $demo > $out/demo_without_patch.log 2>&1; without=$?
t_without=$(/venv/bin/python -m pytest -q -p no:cacheprovider --timeout=900 2>&1 | tail -1)
git apply patch.diff
echo "[$id] demo with patch exit=$with, without exit=$without; tests with: $t_with | without: $t_without"
res=""
# the checks read the patched worktree (PYVC_REPO) so that /repo itself stays untouched while other work goes on;
# applying patch.diff to /repo and running the registered command gives the same verdicts
for pid in "$@"; do
  (cd /verif && PYVC_REPO=$wt PYVC_OUT=/tmp/seedout/$id timeout 1500 python3-vt -m pyvc.check $pid > $out/check_$pid.log 2>&1; echo $? > $out/check_$pid.exit)
  ex=$(cat $out/check_$pid.exit)
  res="$res $pid:exit=$ex"
  grep -h "VIOLATION\|CHECKER-ERROR\|UNDECIDED" $out/check_$pid.log | cut -c1-220 | head -4
done
echo "[$id] checks:$res"
python3 - <<PY
import json
json.dump(dict(seed="$id", demo_exit_with_patch=$with, demo_exit_without_patch=$without, tests_with="$t_with", tests_without="$t_without", checks="$res".split()), open("$out/verify.json","w"), indent=1)
PY
