"""Merge the `SELFTEST ...` lines of partial self-test runs (python3-vt -m pyvc.selftest Cxx ...; logs of `vp run`)
into seeded/selftest_last.json: entries for the same (seed, property) pair are replaced, new ones appended.
usage: python3 tools/merge_selftest.py <log> [<log> ...]"""
import json
import re
import sys
from pathlib import Path

VERIF = Path(__file__).resolve().parent.parent
rec = VERIF / "seeded" / "selftest_last.json"
old = json.loads(rec.read_text()) if rec.exists() else []
new = {}
for log in sys.argv[1:]:
    for ln in Path(log).read_text().splitlines():
        m = re.match(r"^SELFTEST (\S+)\s+(\S+)\s+(C\d\d)  (.*)$", ln)
        if m:
            st, seed, pid, detail = m.groups()
            new[(seed, pid)] = dict(seed=seed, property=pid, status=st, detail=detail)
out = [r for r in old if (r["seed"], r["property"]) not in new] + list(new.values())
rec.write_text(json.dumps(out, indent=1))
bad = [r for r in out if r["status"] in ("MISSED", "FALSE-ALARM")]
print(f"{len(out)} recorded runs ({len(new)} merged): {sum(r['status'] == 'detected' for r in out)} detected, {sum(r['status'] == 'clean' for r in out)} clean, {len(bad)} missed or false alarms")
