"""Native bounded stand-in for C18: one simulation written as v2 YAML, v2 TOML and legacy v1 YAML gives the same output."""
from __future__ import annotations

from pathlib import Path

import numpy as np
from netCDF4 import Dataset

from native.h_model import _main_time_loop, iso, write_forcing, write_release
from native.synth import Scratch


def toml_dump(d, prefix=""):
    lines, tables = [], []
    for k, v in d.items():
        if isinstance(v, dict):
            tables.append((k, v))
        else:
            lines.append(f"{k} = {toml_val(v)}")
    out = "\n".join(lines)
    for k, v in tables:
        name = f"{prefix}{k}"
        out += f"\n[{name}]\n" + toml_dump(v, name + ".")
    return out


def toml_val(v):
    if isinstance(v, bool):
        return "true" if v else "false"
    if isinstance(v, (int, float)):
        return repr(v)
    if isinstance(v, (list, tuple)):
        return "[" + ", ".join(toml_val(x) for x in v) + "]"
    return '"' + str(v) + '"'


def run_file(path):
    from ladim.configure import configure
    from ladim.model import Model

    config = configure(path)
    model = Model(config)
    _main_time_loop()(model)
    model.finish()


def read_all(path):
    with Dataset(path) as nc:
        out = {k: np.ma.filled(nc.variables[k][:].astype(float), -999.0) for k in ("time", "particle_count", "pid", "X", "Y", "Z", "release_time") if k in nc.variables}
        out["__dtypes__"] = np.array([ord(c) for k in sorted(out) for c in (k + ":" + str(nc.variables[k].dtype) + ";")], float)  # storage types as a comparable array
        return out


def spellings_bounded(p):
    import yaml

    cases, failures, samples = 0, [], []
    with Scratch() as d:
        write_forcing(d, sign=0.4, extra=False)
        scen = []
        # A: explicit grid file + subgrid + discrete release + diffusion 0 ; B: grid omitted, wildcard forcing, continuous release
        for tag, gridfile, subgrid, continuous, pattern in (("A", True, [2, 12, 2, 10], False, "f_000.nc"), ("B", False, None, True, "f_00?.nc"), ("C", True, None, True, "f_*.nc")):
            cases += 1
            sub = d / tag
            sub.mkdir()
            rows = [(iso(0), 1, 4.3, 5.2, 5.0, 11), (iso(0), 2, 6.1, 4.4, 30.0, 12), (iso(0.5), 1, 5.2, 6.3, 50.0, 13)]
            write_release(sub / "release.rls", rows, header=False)
            names = ["release_time", "mult", "X", "Y", "Z", "farmid"]
            ovars = dict(pid=dict(ncformat="i4", long_name="particle identifier"), X=dict(ncformat="f8", long_name="x"), Y=dict(ncformat="f8", long_name="y"), Z=dict(ncformat="f8", long_name="z"),
                         release_time=dict(ncformat="f8", long_name="release time", units="seconds since reference_time"))
            v1 = dict(
                time_control=dict(start_time=iso(0), stop_time=iso(1.5)),
                files=dict(particle_release_file=str(sub / "release.rls"), output_file=str(sub / "v1.nc")),
                gridforce=dict(module="ladim1.gridforce.ROMS", input_file=str(d / pattern)),
                particle_release=dict(variables=names, particle_variables=["release_time", "farmid"], release_time="time", farmid="int"),
                output_variables=dict(outper=600, instance=["pid", "X", "Y", "Z"], particle=["release_time"], format="NETCDF4", **ovars),
                numerics=dict(dt=300, advection="RK4", diffusion=0.0),
            )
            if gridfile:
                v1["gridforce"]["gridfile"] = str(d / "f_000.nc")
            if subgrid:
                v1["gridforce"]["subgrid"] = subgrid
            if continuous:
                v1["particle_release"].update(release_type="continuous", release_frequency=900)

            def v2(out, explicit_optional):
                c = dict(
                    version=2,
                    time=dict(start=iso(0), stop=iso(1.5), dt=300),
                    forcing=dict(module="ladim.ROMS", filename=str(d / pattern)),
                    state=dict(particle_variables=dict(release_time="time", farmid="int")),
                    tracker=dict(advection="RK4"),
                    release=dict(release_file=str(sub / "release.rls"), names=names),
                    output=dict(filename=str(sub / out), output_period=600,
                                instance_variables={k: dict(encoding=dict(datatype=ovars[k]["ncformat"]), attributes={a: b for a, b in ovars[k].items() if a != "ncformat"}) for k in ("pid", "X", "Y", "Z")},
                                particle_variables=dict(release_time=dict(encoding=dict(datatype="f8"), attributes={a: b for a, b in ovars["release_time"].items() if a != "ncformat"}))),
                )
                if gridfile or subgrid:
                    c["grid"] = dict(module="ladim.ROMS")
                    if gridfile:
                        c["grid"]["filename"] = str(d / "f_000.nc")
                    if subgrid:
                        c["grid"]["subgrid"] = subgrid
                if continuous:
                    c["release"].update(continuous=True, release_frequency=900)
                if explicit_optional:
                    c["ibm"] = dict()
                    c["warm_start"] = dict()
                return c

            if tag == "B":
                # a YAML anchor/alias used as a template: Y shares the mapping object of X (safe_dump writes &id/*id)
                v1["output_variables"]["Y"] = v1["output_variables"]["X"]
            (sub / "v1.yaml").write_text(yaml.safe_dump(v1, sort_keys=False))
            (sub / "v2.yaml").write_text(yaml.safe_dump(v2("v2y.nc", True), sort_keys=False))
            (sub / "v2.toml").write_text(toml_dump(v2("v2t.nc", False)))
            outs = {}
            for name, f, o in (("v2-yaml", "v2.yaml", "v2y.nc"), ("v2-toml", "v2.toml", "v2t.nc"), ("v1-yaml", "v1.yaml", "v1.nc")):
                try:
                    run_file(sub / f)
                    outs[name] = read_all(sub / o)
                except BaseException as e:  # noqa: BLE001
                    failures.append(dict(scenario=tag, spelling=name, what=f"raised {type(e).__name__}: {str(e)[:120]}"))
            ref = outs.get("v2-yaml")
            for name, o in outs.items():
                if ref is None or name == "v2-yaml":
                    continue
                for k in ref:
                    if k not in o or o[k].shape != ref[k].shape or not np.allclose(o[k], ref[k], rtol=0, atol=1e-9):
                        failures.append(dict(scenario=tag, what=f"{name} differs from v2-yaml in {k}"))
                        break
        # history independence: several configure() calls in ONE process; a set-up without grid section must take ITS OWN
        # forcing file as grid file whatever was configured before
        try:
            import shutil

            from ladim.configure import configure

            shutil.copy(d / "f_000.nc", d / "g_000.nc")
            base = (d / "B" / "v2.toml").read_text()
            other = base.replace(str(d / "f_00?.nc"), str(d / "g_000.nc")).replace("v2t.nc", "v2g.nc")
            (d / "B" / "v2g.toml").write_text(other)
            cases += 1
            seq = [configure(d / "B" / "v2.toml"), configure(d / "B" / "v2g.toml"), configure(d / "B" / "v2.toml")]
            for i, c in enumerate(seq):
                import glob

                first = sorted(glob.glob(str(c["forcing"]["filename"])))[0]
                if str(c["grid"].get("filename")) != first:
                    failures.append(dict(scenario="history", what=f"configure() call #{i + 1} in one process: grid section omitted but grid file {c['grid'].get('filename')} is not this set-up's first forcing file {first}"))
                    break
        except BaseException as e:  # noqa: BLE001
            failures.append(dict(scenario="history", what=f"raised {type(e).__name__}: {str(e)[:120]}"))
        samples.append(dict(scenarios=["A: explicit grid file + subgrid, discrete release", "B: grid omitted, wildcard forcing name, continuous release", "C: grid file, '*' wildcard, continuous"], spellings=["v2 YAML (explicit empty ibm/warm_start)", "v2 TOML (optional sections omitted)", "v1 YAML"]))
    return dict(cases=cases, failures=failures[:10], samples=samples, bound="3 scenarios x 3 spellings, 18-step runs, outputs compared variable by variable; one sequence of 3 configure() calls in one process")
