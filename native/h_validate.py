"""Native side of the encoder validation: run the REAL functions on the inputs of pyvc.validate and compare with the
results the symbolic interpreter produced in concrete mode."""
from __future__ import annotations

import importlib

import numpy as np

TOL = 1e-8


def _np(v, name):
    if isinstance(v, list):
        return np.array(v, dtype=int if name == "K" else float)
    return v


def _close(a, b):
    if a is None or b is None:
        return a is None and b is None
    if isinstance(a, (list, tuple)) or isinstance(b, (list, tuple)) or isinstance(a, np.ndarray) or isinstance(b, np.ndarray):
        if isinstance(a, tuple) or (isinstance(a, list) and a and isinstance(a[0], (list, np.ndarray)) and isinstance(b, list) and len(a) == len(b) and any(np.shape(x) != np.shape(a[0]) for x in a)):
            return len(a) == len(b) and all(_close(x, y) for x, y in zip(a, b))
        try:
            A, B = np.asarray(a, float), np.asarray(b, float)
        except Exception:  # noqa: BLE001
            return len(a) == len(b) and all(_close(x, y) for x, y in zip(a, b))
        return A.shape == B.shape and bool(np.all(np.abs(A - B) <= TOL * (1 + np.abs(B))))
    return abs(float(a) - float(b)) <= TOL * (1 + abs(float(b)))


def validate_encoder(p):
    cases, failures, samples = 0, [], []
    for it in p.get("items", []):
        if it.get("self"):
            # a method: the real class, instantiated without running __init__, carrying the given attribute values
            modname, _, cname = it["self"]["cls"].rpartition(".")
            cls = getattr(importlib.import_module(modname), cname)
            obj = cls.__new__(cls)
            for k, v in it["self"]["attrs"].items():
                setattr(obj, k, np.array(v, float) if isinstance(v, list) else v)
            fn = getattr(obj, it["qual"].rpartition(".")[2])
        else:
            modname, _, fname = it["qual"].rpartition(".")
            fn = getattr(importlib.import_module(modname), fname)
        args = {}
        for k, v in it["args"].items():
            if isinstance(v, dict) and "timedelta64" in v:
                args[k] = np.timedelta64(int(v["timedelta64"]), "s")
            elif isinstance(v, list) and v and isinstance(v[-1], str):
                args[k] = list(v)
            else:
                args[k] = _np(v, k)
        cases += 1
        try:
            res = fn(**args)
            real_raise = None
        except Exception as e:  # noqa: BLE001
            res, real_raise = None, type(e).__name__
        if it.get("raises") or real_raise:
            if it.get("raises") != real_raise:
                failures.append(dict(function=it["name"], what="exception behaviour differs", interpreter=it.get("raises"), real=real_raise, args=it["args"]))
            continue
        exp = it["result"]
        if isinstance(res, np.timedelta64):
            res = int(res / np.timedelta64(1, "s"))
        if isinstance(res, str) or isinstance(exp, str):
            if res != exp:
                failures.append(dict(function=it["name"], what="result differs", interpreter=exp, real=res, args=it["args"]))
            continue
        if isinstance(res, tuple):
            res = [np.asarray(r).tolist() for r in res]
        elif isinstance(res, np.ndarray):
            res = res.tolist()
        if not _close(res, exp):
            failures.append(dict(function=it["name"], what="result differs", interpreter=exp, real=res, args=it["args"]))
            continue
        for k, after in it.get("args_after", {}).items():
            if isinstance(args.get(k), np.ndarray) and not _close(args[k].tolist(), after):
                failures.append(dict(function=it["name"], what=f"argument {k} after the call differs", interpreter=after, real=args[k].tolist()))
                break
        if len(samples) < 3:
            samples.append(dict(function=it["name"], args={k: (v if not isinstance(v, list) else "array") for k, v in it["args"].items()}))
    # functions the interpreter could not run concretely (a construct outside its subset): reported, not a disagreement
    skipped = [dict(function=s["name"], why=s["why"][:160]) for s in p.get("skipped", [])]
    return dict(cases=cases, failures=failures[:10], samples=samples, skipped=skipped[:10], n_skipped=len(skipped),
                bound="random concrete inputs incl. cell edges/half-integers; relative tolerance 1e-8")
