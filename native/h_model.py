"""Whole-model native harnesses on synthetic ROMS files: step protocol (C19), independence (C14),
mirror runs (C10), restart (C08), release accounting (C04), refusals (C20)."""
from __future__ import annotations

import os
import textwrap
from pathlib import Path

import numpy as np
from netCDF4 import Dataset

from native.synth import Scratch, make_roms_file

EPOCH = np.datetime64("2020-01-01T00:00:00", "s")
DT = 600


def iso(hours=0.0, seconds=0):
    return str(EPOCH + np.timedelta64(int(round(hours * 3600)) + seconds, "s"))


def write_forcing(d, frame_hours=(0, 1, 2, 3, 4), files=None, sign=1.0, extra=True, mask=None, shear=True, time_dep=True, name="f"):
    """Depth-dependent, horizontally sheared, time-dependent current; optional scalar field."""
    files = files or [len(frame_hours)]
    pos = 0
    out = []

    def u(t, tv, K, J, I):
        h = tv / 3600.0
        return sign * (0.3 + (0.2 * K if shear else 0.0) + 0.02 * J + (0.05 * h if time_dep else 0.0))

    def v(t, tv, K, J, I):
        h = tv / 3600.0
        return sign * (0.1 - (0.05 * K if shear else 0.0) + 0.01 * I - (0.02 * h if time_dep else 0.0))

    for fi, n in enumerate(files):
        hrs = frame_hours[pos : pos + n]
        pos += n
        path = d / f"{name}_{fi:03d}.nc"
        make_roms_file(path, imax0=14, jmax0=12, kmax=4, times=[int(h * 3600) for h in hrs], u=u, v=v, h=60.0, mask=mask,
                       extra={"temp": lambda t, tv, K, J, I: 5.0 + K + (0.1 * tv / 3600.0 if time_dep else 0.0) + 0 * I} if extra else None)
        out.append(path)
    return out


def write_release(path, rows, header=True, cols=("release_time", "X", "Y", "Z")):
    lines = []
    if header:
        lines.append(" ".join(cols))
    for r in rows:
        lines.append(" ".join(str(x) for x in r))
    Path(path).write_text("\n".join(lines) + "\n")


def base_config(d, start_h=0.0, stop_h=2.0, advection="RK4", out="out.nc", period=1800, numrec=0, release_rows=None, extra=True, ibm=None,
                continuous=False, freq=0, names=None, rel_header=True, rel_cols=("release_time", "X", "Y", "Z"), layout="sparse", state_extra=None,
                particle_variables=None, forcing_pattern="f_*.nc", reversal=False, warm=None, out_pvars=None, vertadv=False):
    rows = release_rows if release_rows is not None else [(iso(start_h), 4.3, 5.2, 5.0), (iso(start_h), 6.1, 4.4, 30.0)]
    write_release(d / "release.rls", rows, header=rel_header, cols=rel_cols)
    ivars = dict(temp=float) if extra else {}
    ivars.update(state_extra or {})
    cfg = dict(
        state=dict(instance_variables=ivars, particle_variables=dict(particle_variables or {}), default_values=dict(temp=0.0) if extra else {}),
        time=dict(start=iso(start_h), stop=iso(stop_h), dt=DT, time_reversal=reversal),
        grid=dict(module="ladim.ROMS", filename=str(sorted(d.glob(forcing_pattern))[0])),
        forcing=dict(module="ladim.ROMS", filename=str(d / forcing_pattern), extra_forcing=["temp"] if extra else None),
        release=dict(release_file=str(d / "release.rls")),
        tracker=dict(advection=advection, diffusion=0.0, vertical_advection=vertadv),
        ibm=dict(ibm) if ibm else dict(),
        output=dict(
            filename=str(d / out),
            output_period=period,
            layout=layout,
            numrec=numrec,
            instance_variables={k: dict(encoding=dict(datatype=t), attributes=dict(long_name=k)) for k, t in (("pid", "i4"), ("X", "f8"), ("Y", "f8"), ("Z", "f8"), *((("temp", "f8"),) if extra else ()), *(((k, "f8") for k in (state_extra or {})))) if not (layout == "dense" and k == "pid")},
            particle_variables={k: dict(encoding=dict(datatype="f8"), attributes=dict(long_name=k, units="seconds since reference_time" if k == "release_time" else "1")) for k in (out_pvars or [])},
        ),
        warm_start=dict(warm) if warm else dict(),
    )
    if continuous:
        cfg["release"].update(continuous=True, release_frequency=freq)
    if names:
        cfg["release"]["names"] = list(names)
    return cfg


def run(cfg, nsteps=None, log=None):
    """Run the real Model the way main() does."""
    import copy

    from ladim.model import Model

    model = Model(copy.deepcopy(cfg))
    if log is not None:
        orig = model.update

        def logged():
            orig()
            log.append(dict(step=model.timer.step, pid=[int(p) for p in model.state.pid], X=[float(x) for x in model.state.X], alive=[bool(a) for a in model.state.alive]))

        model.update = logged
    _main_time_loop()(model)
    model.finish()
    return model


_LOOP = []


def _main_time_loop():
    """The time loop of the REAL ladim.main.main, extracted from its source (so that the harness runs what main runs)."""
    if _LOOP:
        return _LOOP[0]
    import ast

    import ladim

    import ladim.main as real_main

    tree = ast.parse((Path(ladim.__file__).parent / "main.py").read_text())
    fn = [n for n in tree.body if isinstance(n, ast.FunctionDef) and n.name == "main"][0]

    def flat(stmts):  # statements of main in execution order, looking into try: and with: blocks (not into handlers)
        out = []
        for st in stmts:
            if isinstance(st, ast.Try):
                out += flat(st.body)
            elif isinstance(st, ast.With):
                out += flat(st.body)
            else:
                out.append(st)
        return out

    body = flat(fn.body)
    loops = [k for k, st in enumerate(body) if isinstance(st, (ast.For, ast.While)) and "model.update" in ast.unparse(st)]
    if len(loops) != 1:
        raise RuntimeError("cannot find the time loop of ladim.main.main")
    # the statements of main between the construction of the model and the loop belong to the loop (loop variables)
    built = [k for k, st in enumerate(body[: loops[0]]) if isinstance(st, ast.Assign) and "Model(" in ast.unparse(st.value) and ast.unparse(st.targets[0]) == "model"]
    first = built[-1] + 1 if built else loops[0]
    stmts = body[first : loops[0] + 1]

    # every preparatory statement is tried on its own: one that needs a local of main the harness does not have
    # (the configuration file name, a wall-clock stamp) is skipped, the ones that define loop variables run
    lines = ["def time_loop(model):"]
    for st in stmts[:-1]:
        lines.append("    try:")
        lines += ["        " + ln for ln in ast.unparse(st).splitlines()]
        lines.append("    except NameError:")
        lines.append("        pass")
    lines += ["    " + ln for ln in ast.unparse(stmts[-1]).splitlines()]
    ns0 = dict(vars(real_main))
    # locals of main defined before the model is built (its logger, a wall-clock stamp): plain assignments that can be
    # evaluated without main's arguments are made available to the loop
    for st in body[: built[-1] if built else 0]:
        if isinstance(st, ast.Assign) and all(isinstance(t, ast.Name) for t in st.targets):
            try:
                exec(compile(ast.Module([st], []), "<main prelude>", "exec"), ns0)
            except Exception:  # noqa: BLE001
                pass
    exec("\n".join(lines), ns0)
    time_loop = ns0["time_loop"]
    ns = {"time_loop": time_loop}
    _LOOP.append(ns["time_loop"])
    return _LOOP[0]


def read_records(files):
    """[(time_seconds, {pid: (X, Y, Z, extras...)})] over the given sparse files in order."""
    recs = []
    for f in files:
        with Dataset(f) as nc:
            if "particle_count" not in nc.variables:  # dense layout: variables over (time, particle), index == pid
                t = nc.variables["time"][:]
                names = sorted(v for v in nc.variables if nc.variables[v].dimensions == ("time", "particle"))
                for r in range(len(t)):
                    rows = {v: np.ma.masked_invalid(np.ma.asarray(nc.variables[v][r, :])) for v in names}
                    npart = len(rows[names[0]]) if names else 0
                    rec = {}
                    for pid in range(npart):
                        if not np.ma.is_masked(rows["X"][pid]) and abs(float(rows["X"][pid])) < 1e30:
                            rec[pid] = tuple(float(rows[v][pid]) for v in names)
                    recs.append((float(t[r]), rec))
                continue
            pc = nc.variables["particle_count"][:]
            t = nc.variables["time"][:]
            s = 0
            names = [v for v in nc.variables if nc.variables[v].dimensions == ("particle_instance",) and v != "pid"]
            for r in range(len(pc)):
                c = int(pc[r])
                pid = nc.variables["pid"][s : s + c]
                rec = {int(pid[k]): tuple(float(nc.variables[v][s + k]) for v in sorted(names)) for k in range(c)}
                recs.append((float(t[r]), rec))
                s += c
    return recs


IBM_KILL = """
import numpy as np
class IBM:
    def __init__(self, modules, **kw):
        self.modules = modules
        self.kill_pid = kw.get("kill_pid", -1)
        self.kill_step = kw.get("kill_step", 10**9)
        self.log = kw.get("log")
        self.calls = 0
    def update(self):
        st = self.modules["state"]
        step = self.modules["time"].step
        self.calls += 1
        if self.log:
            with open(self.log, "a") as f:
                f.write(f"update {step} {len(st)} {int(np.sum(st.alive))} {float(st.X[0]) if len(st) else -1}\\n")
        if step >= self.kill_step:
            st.alive[st.pid == self.kill_pid] = False
    def close(self):
        if self.log:
            with open(self.log, "a") as f:
                f.write("close\\n")
"""


def _trajectory(recs, pid):
    return [rec[pid] for _t, rec in recs if pid in rec]


def stale_levels_replay(p):
    """D10 / C14: a dead neighbour removed at an output step must not change a particle's trajectory."""
    with Scratch() as d:
        write_forcing(d)
        (d / "ibm_kill.py").write_text(IBM_KILL)
        rows = [(iso(0), 4.3, 5.2, 5.0), (iso(0), 6.1, 4.4, 30.0), (iso(0), 5.2, 6.3, 50.0)]
        out = []
        for kill in (False, True):
            sub = d / ("k" if kill else "a")
            sub.mkdir()
            cfg = base_config(d, stop_h=1.5, release_rows=rows, out=f"{sub.name}/out.nc", period=600, ibm=dict(module=str(d / "ibm_kill"), kill_pid=0 if kill else -1, kill_step=1))
            run(cfg)
            out.append(read_records([sub / "out.nc"]))
        ta, tk = _trajectory(out[0], 1), _trajectory(out[1], 1)
        diff = max((max(abs(a - b) for a, b in zip(x, y)) for x, y in zip(ta, tk)), default=0.0)
        tc_a, tc_k = _trajectory(out[0], 2), _trajectory(out[1], 2)
        diff2 = max((max(abs(a - b) for a, b in zip(x, y)) for x, y in zip(tc_a, tc_k)), default=0.0)
        return dict(reproduced=bool(diff > 1e-9 or diff2 > 1e-9), max_difference_pid1=diff, max_difference_pid2=diff2, note="trajectory of pid 1/2 with neighbour pid 0 alive vs killed by the IBM at step 1 (removed at the next record)")


def independence_bounded(p):
    """Bounded stand-in for the two-run statements of C14."""
    cases, failures, samples = 0, [], []
    with Scratch() as d:
        write_forcing(d, sign=0.2)  # slow enough that nobody leaves the grid: deaths only where scripted
        (d / "ibm_kill.py").write_text(IBM_KILL)
        rows = [(iso(0), 4.3, 5.2, 5.0), (iso(0), 6.1, 4.4, 30.0), (iso(0.5), 5.2, 6.3, 50.0), (iso(0.5), 7.7, 5.1, 12.0)]

        def go(tag, rws, **kw):
            sub = d / tag
            sub.mkdir(exist_ok=True)
            cfg = base_config(d, release_rows=rws, out=f"{tag}/out.nc", period=600, **kw)
            run(cfg)
            return read_records([sub / "out.nc"])

        ref = go("ref", rows)
        # repeatability
        cases += 1
        again = go("again", rows)
        if again != ref:
            failures.append(dict(what="repeating the run changes the output"))
        # removing / adding / reordering other rows: up to renumbering
        for tag, rws, mapping in (
            ("drop0", rows[1:], {0: 1, 1: 2, 2: 3}),
            ("swap", [rows[1], rows[0], rows[3], rows[2]], {0: 1, 1: 0, 2: 3, 3: 2}),
            ("add", [rows[0], (iso(0), 8.2, 6.6, 20.0), *rows[1:]], {0: 0, 2: 1, 3: 2, 4: 3}),
            # rows not in chronological order in the file (pids follow the release order: by time, then file order)
            ("unsorted", [rows[2], rows[0], rows[3], rows[1]], {0: 0, 1: 1, 2: 2, 3: 3}),
        ):
            cases += 1
            other = go(tag, rws)
            for new, old in mapping.items():
                a, b = _trajectory(other, new), _trajectory(ref, old)
                if a != b:
                    failures.append(dict(what=f"trajectory of a particle changes when other release rows are {tag}", pid_new=new, pid_ref=old))
                    break
        # three release times listed site by site: the order of first appearance in the file (t1, t2, t0) is neither
        # ascending nor descending (pids still follow the release order: by time, then file order)
        cases += 1
        rows3 = [*rows, (iso(1.0), 4.9, 5.6, 8.0)]
        ref3 = go("ref3", rows3)
        site = go("bysite", [rows3[2], rows3[4], rows3[0], rows3[3], rows3[1]])
        for pid in range(5):
            if _trajectory(site, pid) != _trajectory(ref3, pid):
                failures.append(dict(what="trajectory of a particle changes when the release rows are listed site by site (three times, first appearance t1, t2, t0)", pid=pid))
                break
        # a neighbour dying (IBM kill -> removed at the next record): finding D10 when this fails
        for sch in ("EF", "RK4"):
            cases += 1
            a = go(f"alive{sch}", rows, advection=sch, ibm=dict(module=str(d / "ibm_kill"), kill_pid=-1))
            k = go(f"kill{sch}", rows, advection=sch, ibm=dict(module=str(d / "ibm_kill"), kill_pid=0, kill_step=1))
            for pid in (1, 2, 3):
                if _trajectory(a, pid) != _trajectory(k, pid):
                    failures.append(dict(what="trajectory depends on a neighbour dying before an output step", scheme=sch, pid=pid, D10=True))
                    break
        # whole-step time shift of everything
        cases += 1
        sh = d / "shift"
        sh.mkdir()
        write_forcing(sh, frame_hours=(1, 2, 3, 4, 5))
        rows_s = [(iso(float(np.round((np.datetime64(r[0]) - EPOCH) / np.timedelta64(1, "s") / 3600.0 + 1.0, 6))), *r[1:]) for r in rows]

        def u_shift_free(rws, base, start_h):
            cfg = base_config(base, start_h=start_h, stop_h=start_h + 2.0, release_rows=rws, out="out.nc", period=600)
            run(cfg)
            return read_records([base / "out.nc"])

        # time-independent forcing for the shift test (the forcing frames are shifted with everything else)
        for base, hrs in ((d / "t0", (0, 1, 2, 3)), (d / "t1", (1, 2, 3, 4))):
            base.mkdir()
            write_forcing(base, frame_hours=hrs, time_dep=False, sign=0.2)
        r0 = u_shift_free(rows, d / "t0", 0.0)
        r1 = u_shift_free(rows_s, d / "t1", 1.0)
        if [rec for _t, rec in r0] != [rec for _t, rec in r1]:
            failures.append(dict(what="shifting every time of the set-up by 6 steps changes the trajectories"))
        # an island, and other particles that leave through the open boundary (they die, stay in the state as dead or
        # inactive entries in the dense layout): a particle running into the island must behave the same whatever
        # other rows the release file holds, before or after its own
        isl = d / "island"
        isl.mkdir()
        mask = np.ones((12, 14))
        mask[4:7, 8] = 0
        write_forcing(isl, sign=1.0, shear=False, mask=mask)
        drifters = [(iso(0), 12.2, 2.0 + 0.9 * k, 5.0) for k in range(8)]
        mine = [(iso(0), 4.3, 8.6, 5.0), (iso(0), 7.2, 3.6, 5.0), (iso(0), 7.25, 3.75, 5.0)]  # the last two run into the island from its south-west corner
        for layout in ("sparse", "dense"):
            runs = {}
            for tag, rws in (("before", drifters + mine), ("alone", mine), ("after", mine + drifters), ("mixed", drifters[:3] + mine[:1] + drifters[3:6] + mine[1:] + drifters[6:])):
                sub = isl / f"{layout}_{tag}"
                sub.mkdir()
                cfg = base_config(isl, release_rows=rws, out=f"{sub.name}/out.nc", period=DT, advection="EF", layout=layout, extra=False)
                try:
                    run(cfg)
                    runs[tag] = read_records([sub / "out.nc"])
                except BaseException as e:  # noqa: BLE001
                    failures.append(dict(what=f"island scenario ({layout}, {tag}) raised {type(e).__name__}: {str(e)[:100]}"))
            cases += 1
            where = dict(before=[8, 9, 10], alone=[0, 1, 2], after=[0, 1, 2], mixed=[3, 7, 8])
            if "alone" in runs:
                for tag in ("before", "after", "mixed"):
                    if tag not in runs:
                        continue
                    for k in range(3):
                        if _trajectory(runs[tag], where[tag][k]) != _trajectory(runs["alone"], k):
                            failures.append(dict(what=f"{layout} layout, island scenario: the trajectory of a particle differs when other rows (particles leaving the grid) are listed {tag} it", particle=k))
                            break
        # the same with a depth-dependent current, particles at different depths and RK4: dead or inactive entries that
        # stay in the arrays (dense layout) in front of living particles must not shift the level data the others use
        shr = d / "outflow_shear"
        shr.mkdir()
        write_forcing(shr, sign=1.0, shear=True)
        mine2 = [(iso(0), 4.3, 8.6, 5.0), (iso(0), 5.2, 3.6, 30.0), (iso(0), 3.25, 5.75, 50.0)]
        drift2 = [(iso(0), 12.2, 2.0 + 0.9 * k, 3.0 + 6.0 * k) for k in range(6)]
        for layout in ("sparse", "dense"):
            runs = {}
            for tag, rws in (("before", drift2 + mine2), ("alone", mine2), ("mixed", drift2[:2] + mine2[:1] + drift2[2:4] + mine2[1:] + drift2[4:])):
                sub = shr / f"{layout}_{tag}"
                sub.mkdir()
                cfg = base_config(shr, release_rows=rws, out=f"{sub.name}/out.nc", period=DT, advection="RK4", layout=layout, extra=False)
                try:
                    run(cfg)
                    runs[tag] = read_records([sub / "out.nc"])
                except BaseException as e:  # noqa: BLE001
                    failures.append(dict(what=f"sheared outflow scenario ({layout}, {tag}) raised {type(e).__name__}: {str(e)[:100]}"))
            cases += 1
            where = dict(before=[6, 7, 8], alone=[0, 1, 2], mixed=[2, 5, 6])
            if "alone" in runs:
                for tag in ("before", "mixed"):
                    if tag not in runs:
                        continue
                    for k in range(3):
                        if _trajectory(runs[tag], where[tag][k]) != _trajectory(runs["alone"], k):
                            failures.append(dict(what=f"{layout} layout, sheared current, RK4: the trajectory of a particle differs when particles that leave the grid are listed {tag} it", particle=k))
                            break
        samples.append(dict(scenario="4 particles, 2 release times, depth-dependent sheared current, scalar forcing, RK4", checks="repeat, drop/swap/add rows, neighbour killed, time shift; island + outflow in both layouts; sheared outflow with particles at different depths"))
    return dict(cases=cases, failures=failures[:10], samples=samples, bound="one scenario family: 4 rows, 2 h, 3 row edits, kill x 2 schemes, 1 time shift; island/outflow scenario x 2 layouts x 4 row arrangements; sheared outflow x 2 layouts x 3 arrangements")


def protocol_bounded(p):
    """C19 on the real Model: IBM once per step after the move; kills visible from the next record; closes once;
    a module given by path runs instead of an importable module of the same name."""
    cases, failures, samples = 0, [], []
    with Scratch() as d:
        write_forcing(d)
        (d / "ibm_kill.py").write_text(IBM_KILL)
        log = d / "ibm.log"
        rows = [(iso(0), 4.3, 5.2, 5.0), (iso(0), 6.1, 4.4, 30.0), (iso(0.5), 5.2, 6.3, 50.0)]
        cfg = base_config(d, release_rows=rows, period=1200, ibm=dict(module=str(d / "ibm_kill"), kill_pid=1, kill_step=3, log=str(log)))
        steps = []
        model = run(cfg, log=steps)
        cases += 1
        lines = log.read_text().splitlines()
        ups = [l.split() for l in lines if l.startswith("update")]
        if [int(u[1]) for u in ups] != list(range(model.timer.Nsteps)):
            failures.append(dict(what="IBM not called exactly once per step", calls=[u[1] for u in ups]))
        if lines.count("close") != 1 or lines[-1] != "close":
            failures.append(dict(what="IBM close not called exactly once at the end"))
        recs = read_records([d / "out.nc"])
        # kill at step 3 (time 1800 s): record at 2400 s is the first without pid 1
        for t, rec in recs:
            if t < 2400 - 1e-6 and 1 not in rec:
                failures.append(dict(what="killed particle missing from a record before its death", time=t))
            if t >= 2400 - 1e-6 and 1 in rec:
                failures.append(dict(what="IBM kill not effective from the next record on", time=t))
        # record at time t shows the position before the move of that step: compare with the logged post-move state of the previous step
        for t, rec in recs:
            step = int(round(t / DT))
            if step >= 1 and 0 in rec:
                prev = steps[step - 1]
                if 0 in prev["pid"] and abs(prev["X"][prev["pid"].index(0)] - rec[0][0]) > 1e-9:
                    failures.append(dict(what="record does not show the positions valid at its own time", time=t))
        # scalar forcing in the record is the forcing at the record's positions and time
        # module by path takes precedence over an importable module of the same name
        cases += 1
        pkg = d / "pkg"
        pkg.mkdir()
        (pkg / "ibm_kill.py").write_text("class IBM:\n    def __init__(self, modules, **kw):\n        raise RuntimeError('importable module used instead of the path')\n    def update(self): pass\n")
        import sys

        sys.path.insert(0, str(pkg))
        cwd = os.getcwd()
        os.chdir(d)
        try:
            cfg2 = base_config(d, release_rows=rows, out="o2.nc", period=1200, ibm=dict(module="ibm_kill", kill_pid=-1))
            try:
                run(cfg2)
            except RuntimeError as e:
                failures.append(dict(what=str(e)))
        finally:
            os.chdir(cwd)
            sys.path.remove(str(pkg))
        # two simulations in ONE process whose plug-ins have the same file name in different directories:
        # each must run the file ITS configuration names (no process-wide cache keyed on the file name)
        cases += 1
        try:
            tags = {}
            for tag, kill in (("expA", 0), ("expB", 2)):
                sub = d / tag
                sub.mkdir()
                (sub / "my_ibm.py").write_text(IBM_KILL.replace("class IBM:", f"WHO = '{tag}'\nclass IBM:"))
                cfgx = base_config(d, release_rows=rows, out=f"{tag}.nc", period=1200, ibm=dict(module=str(sub / "my_ibm.py"), kill_pid=kill, kill_step=1))
                mx = run(cfgx)
                who = type(mx.ibm).update.__globals__.get("WHO")
                if who != tag:
                    failures.append(dict(what=f"simulation {tag}: the IBM that ran was loaded from {who}/my_ibm.py, the configuration names {sub / 'my_ibm.py'}"))
                last = read_records([d / f"{tag}.nc"])[-1][1]
                if kill in last:
                    failures.append(dict(what=f"simulation {tag}: particle {kill} should have been killed by this set-up's own IBM"))
        except BaseException as e:  # noqa: BLE001
            failures.append(dict(what=f"same-name plug-ins in two directories: raised {type(e).__name__}: {str(e)[:100]}"))
        samples.append(dict(ibm_log_head=lines[:3], records=len(recs)))
    return dict(cases=cases, failures=failures[:10], samples=samples, bound="one 12-step scenario with a logging IBM given by path; one path-vs-name precedence case; two simulations in one process with same-named plug-in files")


def mirror_bounded(p):
    """C10: a reversed run S -> E equals, record for record, the forward run over the mirrored time axis in the
    sign-flipped flow with mirrored release times; clock and time coordinate read S, S-dt, ..."""
    tier = p.get("tier", "quick")
    cases, failures, samples = 0, [], []
    S = 3.0
    layouts = [((0, 1, 2, 3, 4), [5]), ((0, 1.5, 2, 3, 4), [2, 3]), ((0, 1, 2, 3, 4), [1, 1, 1, 1, 1])]
    if tier == "thorough":
        layouts += [((0, 0.5, 1, 2.5, 3, 4), [3, 3]), ((0, 2, 4), [3])]
    with Scratch() as d:
        for li, (hours, files) in enumerate(layouts):
            for sch in ("EF", "RK2", "RK4"):
                for continuous in (False, True):
                    if tier == "quick" and continuous and sch != "RK4":
                        continue
                    cases += 1
                    rd, fd = d / f"r{cases}", d / f"f{cases}"
                    rd.mkdir()
                    fd.mkdir()
                    write_forcing(rd, frame_hours=hours, files=files, sign=0.2)
                    mh = tuple(sorted(2 * S - h for h in hours))
                    # mirrored frames carry the sign-flipped field of the original frame at the mirrored time
                    pos = 0
                    fl = list(reversed(files))
                    for fi, n in enumerate(fl):
                        hrs = mh[pos : pos + n]
                        pos += n

                        def uu(t, tv, K, J, I):
                            h = 2 * S - tv / 3600.0
                            return -0.2 * (0.3 + 0.2 * K + 0.02 * J + 0.05 * h)

                        def vv(t, tv, K, J, I):
                            h = 2 * S - tv / 3600.0
                            return -0.2 * (0.1 - 0.05 * K + 0.01 * I - 0.02 * h)

                        make_roms_file(fd / f"f_{fi:03d}.nc", imax0=14, jmax0=12, kmax=4, times=[int(h * 3600) for h in hrs], u=uu, v=vv, h=60.0,
                                       extra={"temp": lambda t, tv, K, J, I: 5.0 + K + 0.1 * (2 * S - tv / 3600.0) + 0 * I})
                    rel_r = [(iso(3.0), 4.3, 5.2, 5.0), (iso(3.0), 6.1, 4.4, 30.0), (iso(2.0), 5.2, 6.3, 50.0)]
                    rel_f = [(iso(2 * S - 3.0), 4.3, 5.2, 5.0), (iso(2 * S - 3.0), 6.1, 4.4, 30.0), (iso(2 * S - 2.0), 5.2, 6.3, 50.0)]
                    kw = dict(continuous=True, freq=1800) if continuous else {}
                    try:
                        # a discrete release file may list its rows chronologically also for a reversed run
                        rows_r = sorted(rel_r, key=lambda r: r[0]) if (not continuous and li % 2 == 0) else rel_r
                        cr = base_config(rd, start_h=3.0, stop_h=0.5, advection=sch, release_rows=rows_r, period=1200, reversal=True, **kw)
                        steps_r = []
                        run(cr, log=steps_r)
                        cf = base_config(fd, start_h=3.0, stop_h=5.5, advection=sch, release_rows=rel_f, period=1200, **kw)
                        run(cf)
                        rr, rf = read_records([rd / "out.nc"]), read_records([fd / "out.nc"])
                    except BaseException as e:  # noqa: BLE001
                        failures.append(dict(layout=li, scheme=sch, continuous=continuous, what=f"raised {type(e).__name__}: {e}"))
                        continue
                    bad = None
                    t0 = 0.5 * 3600  # reference time = min(start, stop) of the reversed run
                    if [t for t, _ in rr] != [3 * 3600 - t0 - k * 1200 for k in range(len(rr))]:
                        bad = f"reversed time coordinate {[t for t, _ in rr][:4]} is not S, S-P, ..."
                    elif len(rr) != len(rf):
                        bad = f"{len(rr)} records reversed, {len(rf)} forward"
                    else:
                        for k, ((_tr, a), (_tf, b)) in enumerate(zip(rr, rf)):
                            if set(a) != set(b) or any(max(abs(x - y) for x, y in zip(a[q], b[q])) > 1e-9 for q in a):
                                bad = f"record {k} differs between the reversed run and the mirrored forward run"
                                break
                    if bad:
                        failures.append(dict(layout=li, frames_h=hours, files=files, scheme=sch, continuous=continuous, what=bad))
        samples.append(dict(frames_h=layouts[1][0], files=layouts[1][1], start_h=3.0, stop_h=0.5, schemes="EF/RK2/RK4", release="2 times, discrete/continuous"))
    return dict(cases=cases, failures=failures[:10], samples=samples, bound=f"{len(layouts)} forcing layouts x schemes x discrete/continuous release, 15-step runs, 3 particles")


def restart_compare(d, tag, nfile_boundary, advection="RK4", stop_h=2.0, period=1200, numrec=2, kill=True, continuous=True, rows=None, pvars=True):
    """Cold split run; restart from the file ending at the given boundary; returns (failures, info)."""
    from ladim.configure import configure_v2

    rows = rows or [(iso(0), 4.3, 5.2, 5.0), (iso(0), 6.1, 4.4, 30.0), (iso(0), 5.0, 6.0, 10.0), (iso(1.0), 5.2, 6.3, 50.0)]
    cold = d / f"{tag}_cold"
    warm = d / f"{tag}_warm"
    cold.mkdir()
    warm.mkdir()
    ibm = dict(module=str(d / "ibm_age"), kill_age=2400.0 if kill else 1e12)
    common = dict(advection=advection, stop_h=stop_h, period=period, numrec=numrec, release_rows=rows, ibm=ibm, state_extra=dict(age=float),
                  particle_variables=dict(release_time="time") if pvars else None, out_pvars=["release_time"] if pvars else None, continuous=continuous, freq=1800)
    cfg = base_config(d, out=f"{cold.name}/out.nc", **common)
    cfg["state"]["default_values"]["age"] = 0.0
    run(cfg)
    cold_files = sorted(cold.glob("out_*.nc"))
    if nfile_boundary >= len(cold_files) - 1:  # restarting after the last file: no record follows
        return None, dict(files=len(cold_files))
    rfile = cold_files[nfile_boundary]
    nxt = f"{warm.name}/out_{nfile_boundary + 1:03d}.nc"
    cfgw = base_config(d, out=nxt, **common)
    cfgw["state"]["default_values"]["age"] = 0.0
    cfgw["warm_start"] = dict(filename=str(rfile), variables=["age", "temp", "release_time"] if pvars else ["age", "temp"])
    configure_v2(cfgw)
    run(cfgw)
    warm_files = sorted(warm.glob("out_*.nc"))
    fails = []
    exp_files = cold_files[nfile_boundary + 1 :]
    if [f.name for f in warm_files] != [f.name for f in exp_files]:
        fails.append(f"file names after restart {[f.name for f in warm_files]} != {[f.name for f in exp_files]}")
    rc, rw = read_records(exp_files), read_records(warm_files)
    # time coordinate is relative to each run's own reference time (its start): compare absolute times
    def abs_times(files, recs):
        out = []
        k = 0
        for f in files:
            with Dataset(f) as nc:
                units = nc.variables["time"].units
                ref = np.datetime64(units.split("since")[1].strip().replace(" ", "T"))
                for t in nc.variables["time"][:]:
                    out.append(ref + np.timedelta64(int(round(float(t))), "s"))
        return out

    tc, tw = abs_times(exp_files, rc), abs_times(warm_files, rw)
    if tc != tw:
        fails.append(f"record times after restart {[str(t) for t in tw]} != uninterrupted {[str(t) for t in tc]}")
    for k, ((_a, a), (_b, b)) in enumerate(zip(rc, rw)):
        if set(a) != set(b):
            fails.append(f"record {k} after restart: pids {sorted(b)} != uninterrupted {sorted(a)}")
            break
        dev = max((max(abs(x - y) for x, y in zip(a[q], b[q])) for q in a), default=0.0)
        if dev > 1e-4:
            fails.append(f"record {k} after restart differs from the uninterrupted run by {dev:.3g}")
            break
    # particle variables of the last files
    for fc, fw in zip(exp_files, warm_files) if pvars else ():
        with Dataset(fc) as a, Dataset(fw) as b:
            ra = np.ma.filled(a.variables["release_time"][:].astype(float), np.nan)
            rb = np.ma.filled(b.variables["release_time"][:].astype(float), np.nan)
            ua = np.datetime64(a.variables["release_time"].units.split("since")[1].strip().replace(" ", "T"))
            ub = np.datetime64(b.variables["release_time"].units.split("since")[1].strip().replace(" ", "T"))
            off = float((ub - ua) / np.timedelta64(1, "s"))
            if len(ra) != len(rb) or not np.allclose(ra, rb + off, equal_nan=True):
                fails.append(f"{fw.name}: particle variable release_time differs after restart (lengths {len(ra)} vs {len(rb)})")
    return fails, dict(files=len(cold_files))


IBM_AGE = """
import numpy as np
class IBM:
    def __init__(self, modules, **kw):
        self.modules = modules
        self.kill_age = kw.get("kill_age", 1e12)
        self.dt = modules["time"].dt / np.timedelta64(1, "s")
    def update(self):
        st = self.modules["state"]
        st["age"] = st.age + self.dt
        st.alive[st.age >= self.kill_age] = False
    def close(self):
        pass
"""


def restart_bounded(p):
    """C08: every file boundary of split runs (continuous release, IBM deaths + leaving the grid, IBM state
    variable, scalar forcing, three schemes, durations that are and are not multiples of the period)."""
    tier = p.get("tier", "quick")
    cases, failures, samples = 0, [], []
    with Scratch() as d:
        write_forcing(d, sign=0.6)
        (d / "ibm_age.py").write_text(IBM_AGE)
        combos = [("RK4", 2.0, 1200, 2), ("EF", 2.0, 1200, 1), ("RK2", 1.5, 1200, 2), ("RK4", 2.0 - 1 / 6, 1200, 2)]
        if tier == "thorough":
            combos += [("RK4", 2.0, 600, 3), ("EF", 1.5, 1800, 1)]
        for ci, (sch, stop_h, period, numrec) in enumerate(combos):
            for b in range(0, 6):
                try:
                    f, info = restart_compare(d, f"c{ci}b{b}", b, advection=sch, stop_h=stop_h, period=period, numrec=numrec)
                except BaseException as e:  # noqa: BLE001
                    f, info = [f"raised {type(e).__name__}: {e}"], {}
                if f is None:
                    break
                cases += 1
                if f:
                    failures.append(dict(scheme=sch, stop_h=stop_h, period=period, numrec=numrec, restart_after_file=b, first=f[0], nfail=len(f)))
        # history where the highest pids die without ever appearing in the restart file (pid reuse after restart)
        rows = [(iso(0), 4.3, 5.2, 5.0), (iso(1 / 3), 11.3, 5.0, 5.0), (iso(1 / 3), 11.4, 5.5, 5.0), (iso(1.0), 5.2, 6.3, 50.0), (iso(1.0), 5.4, 6.1, 40.0)]
        for b in (0, 1):
            cases += 1
            try:
                f, info = restart_compare(d, f"pidreuse{b}", b, advection="EF", stop_h=2.0, period=2400, numrec=1, kill=False, continuous=False, rows=rows)
            except BaseException as e:  # noqa: BLE001
                f = [f"raised {type(e).__name__}: {e}"]
            if f:
                failures.append(dict(history="particles released at 20 min leave the grid before the next record", restart_after_file=b, first=f[0], nfail=len(f)))
        # output WITHOUT particle variables; the newest particles appear in an earlier record of the restart file
        # but are dead in its last record: their pids must still not be handed out again
        rows2 = [(iso(0), 4.3, 5.2, 5.0), (iso(1 / 3), 11.3, 5.0, 5.0), (iso(1 / 3), 11.4, 5.5, 5.0), (iso(1.0), 5.2, 6.3, 50.0), (iso(1.0), 5.4, 6.1, 40.0)]
        cases += 1
        try:
            f, info = restart_compare(d, "nopv", 0, advection="EF", stop_h=2.0, period=1200, numrec=3, kill=False, continuous=False, rows=rows2, pvars=False)
        except BaseException as e:  # noqa: BLE001
            f = [f"raised {type(e).__name__}: {e}"]
        if f:
            failures.append(dict(history="no particle variables; particles released at 20 min are recorded once and dead in the last record of the restart file", first=f[0], nfail=len(f)))
        # continuous release with a later file entry that is NOT on the release-frequency grid (legal: it is never released):
        # the restarted run must keep the release ticks anchored at the FIRST file time, not at the restart time
        rows3 = [(iso(0), 4.3, 5.2, 5.0), (iso(0.75), 6.1, 4.4, 30.0)]
        for b in range(0, 4):
            try:
                f, info = restart_compare(d, f"offgrid{b}", b, advection="EF", stop_h=2.0, period=1200, numrec=2, kill=False, continuous=True, rows=rows3)
            except BaseException as e:  # noqa: BLE001
                f, info = [f"raised {type(e).__name__}: {e}"], {}
            if f is None:
                break
            cases += 1
            if f:
                failures.append(dict(history="continuous release every 30 min, second file entry at 45 min (off the release grid)", restart_after_file=b, first=f[0], nfail=len(f)))
        samples.append(dict(scenario="continuous release every 30 min, IBM ages and kills at 40 min, strong flow leaving the grid, scalar forcing temp", restart="from every completed file"))
    return dict(cases=cases, failures=failures[:12], samples=samples, bound=f"{len(combos)} scenario variants x every file boundary; pid-reuse, no-particle-variable and off-grid continuous-release histories")


def write_yaml(path, cfg):
    import yaml

    def plain(x):
        if isinstance(x, dict):
            return {k: plain(v) for k, v in x.items() if v is not None or k in ("tracker", "release")}
        if isinstance(x, (list, tuple)):
            return [plain(v) for v in x]
        if isinstance(x, Path):
            return str(x)
        if isinstance(x, type):
            return x.__name__
        return x

    Path(path).write_text(yaml.safe_dump(plain(cfg), sort_keys=False))


def refusals_bounded(p):
    """C20: every single fault injected into base scenarios must stop with SystemExit during start-up, no record written."""
    from ladim.configure import configure
    from ladim.model import Model

    from .refusal import deliberate

    cases, failures, samples = 0, [], []
    with Scratch() as d:
        bases = []
        for rev in (False, True):
            for files in ([5], [2, 3]):
                for continuous in (False, True):
                    bases.append((rev, files, continuous))

        def build(sub, rev, files, continuous, mutate=None, frame_hours=(0, 1, 2, 3, 4)):
            sub.mkdir(exist_ok=True)
            write_forcing(sub, frame_hours=frame_hours, files=files, sign=0.2)
            start, stop = (3.0, 0.5) if rev else (0.5, 3.0)
            rows = [(iso(start), 4.3, 5.2, 5.0), (iso(2.0), 6.1, 4.4, 30.0)]
            if rev:
                rows = sorted(rows, key=lambda r: r[0], reverse=True)
            kw = dict(continuous=True, freq=1800) if continuous else {}
            cfg = base_config(sub, start_h=start, stop_h=stop, release_rows=rows, period=1800, reversal=rev, **kw)
            cfg["version"] = 2
            if mutate:
                mutate(cfg, sub)
            write_yaml(sub / "ladim.yaml", cfg)
            return sub / "ladim.yaml"

        def attempt(yaml_path, sub):
            try:
                config = configure(yaml_path)
                model = Model(config)
            except SystemExit:
                recs = 0
                for f in sub.glob("out*.nc"):
                    try:
                        with Dataset(f) as nc:
                            recs += len(nc.dimensions["time"])
                    except Exception:  # noqa: BLE001
                        pass
                return "refused", recs
            except BaseException as e:  # noqa: BLE001
                if deliberate(e):  # an explicit raise of the package: a refusal by another exception class
                    recs = 0
                    for f in sub.glob("out*.nc"):
                        try:
                            with Dataset(f) as nc:
                                recs += len(nc.dimensions["time"])
                        except Exception:  # noqa: BLE001
                            pass
                    return "refused", recs
                return f"crashed with {type(e).__name__}: {str(e)[:80]}", 0
            try:
                model.finish()
            except BaseException:  # noqa: BLE001
                pass
            return "started", 0

        def rm(path):
            def f(cfg, sub):
                pass

            return f

        faults = {
            "forcing ends before the window ends": lambda cfg, sub: (write_forcing(sub, frame_hours=(0, 1, 2), files=[3], sign=0.2), [f.unlink() for f in sub.glob("f_00[1-9].nc")]),
            "forcing starts after the window starts": lambda cfg, sub: ([f.unlink() for f in sub.glob("f_*.nc")], write_forcing(sub, frame_hours=(1, 2, 3, 4), files=[4], sign=0.2)),
            "forcing frames out of order across files": lambda cfg, sub: ([f.unlink() for f in sub.glob("f_*.nc")], write_forcing(sub, frame_hours=(0, 3, 1, 2, 4), files=[2, 3], sign=0.2)),
            "forcing frame duplicated across files": lambda cfg, sub: ([f.unlink() for f in sub.glob("f_*.nc")], write_forcing(sub, frame_hours=(0, 1, 2, 2, 3, 4), files=[3, 3], sign=0.2)),
            "forcing file out of order behind a file that lies wholly after the window": lambda cfg, sub: ([f.unlink() for f in sub.glob("f_*.nc")], write_forcing(sub, frame_hours=(0, 1, 2, 3, 6, 7, 4, 5), files=[4, 2, 2], sign=0.2)),
            "forcing frame duplicated in a file wholly after the window": lambda cfg, sub: ([f.unlink() for f in sub.glob("f_*.nc")], write_forcing(sub, frame_hours=(0, 1, 2, 3, 5, 6, 6, 7), files=[4, 2, 2], sign=0.2)),
            "missing start": lambda cfg, sub: cfg["time"].pop("start"),
            "missing stop": lambda cfg, sub: cfg["time"].pop("stop"),
            "missing dt": lambda cfg, sub: cfg["time"].pop("dt"),
            "stop on the wrong side of start": lambda cfg, sub: cfg["time"].update(start=cfg["time"]["stop"], stop=cfg["time"]["start"]),
            "all release rows after the window": lambda cfg, sub: write_release(sub / "release.rls", [(iso(9), 4.3, 5.2, 5.0)] if not cfg["time"]["time_reversal"] else [(iso(-5), 4.3, 5.2, 5.0)]),
            "only release row exactly at the stop time (the window is stop-exclusive)": lambda cfg, sub: write_release(sub / "release.rls", [(cfg["time"]["stop"], 4.3, 5.2, 5.0)]),
            "all release rows before the window (discrete)": lambda cfg, sub: (cfg["release"].pop("continuous", None), cfg["release"].pop("release_frequency", None), write_release(sub / "release.rls", [(iso(-5), 4.3, 5.2, 5.0)] if not cfg["time"]["time_reversal"] else [(iso(9), 4.3, 5.2, 5.0)])),
            "release rows without a position": lambda cfg, sub: write_release(sub / "release.rls", [(cfg["time"]["start"], 5.0)], cols=("release_time", "Z")),
            "missing release file": lambda cfg, sub: (sub / "release.rls").unlink(),
            "missing forcing files": lambda cfg, sub: cfg["forcing"].update(filename=str(sub / "nothing_*.nc")),
            "missing grid file": lambda cfg, sub: cfg["grid"].update(filename=str(sub / "nogrid.nc")),
            "missing tracker section": lambda cfg, sub: cfg.pop("tracker"),
            "missing time section": lambda cfg, sub: cfg.pop("time"),
            "missing release section": lambda cfg, sub: cfg.pop("release"),
            "missing output section": lambda cfg, sub: cfg.pop("output"),
            "missing forcing section": lambda cfg, sub: cfg.pop("forcing"),
            "illegal subgrid (i0 >= i1)": lambda cfg, sub: cfg["grid"].update(subgrid=[6, 3, 2, 8]),
            "illegal subgrid (beyond the grid)": lambda cfg, sub: cfg["grid"].update(subgrid=[1, 40, 1, 8]),
            "illegal subgrid (touching the boundary row 0)": lambda cfg, sub: cfg["grid"].update(subgrid=[1, 8, 0, 8]),
        }
        for bi, (rev, files, continuous) in enumerate(bases):
            sub = d / f"base{bi}"
            cases += 1
            r, _ = attempt(build(sub, rev, files, continuous), sub)
            if r != "started":
                failures.append(dict(base=dict(reversed=rev, files=files, continuous=continuous), fault=None, what=f"valid base scenario was {r}"))
                continue
            for name, mut in faults.items():
                if "discrete" in name and continuous:
                    pass
                sub = d / f"b{bi}_{abs(hash(name)) % 10**6}"
                cases += 1
                try:
                    y = build(sub, rev, files, continuous, mutate=mut)
                except BaseException as e:  # noqa: BLE001
                    failures.append(dict(fault=name, what=f"harness could not build: {e}"))
                    continue
                r, recs = attempt(y, sub)
                if r != "refused" or recs:
                    failures.append(dict(base=dict(reversed=rev, files=files, continuous=continuous), fault=name, what=f"{r}; {recs} output records written"))
        # missing / malformed configuration file
        for name, content in (("missing configuration file", None), ("malformed YAML", "time: [1, 2\n  x: : :"), ("invalid version", "version: 7\ntime: {}\n")):
            cases += 1
            f = d / "cfg_fault.yaml"
            if content is None:
                f = d / "does_not_exist.yaml"
            else:
                f.write_text(content)
            try:
                configure(f)
                failures.append(dict(fault=name, what="configure returned"))
            except SystemExit:
                pass
            except BaseException as e:  # noqa: BLE001
                if not deliberate(e):
                    failures.append(dict(fault=name, what=f"crashed with {type(e).__name__}"))
        samples.append(dict(base="reversed, 2 forcing files, continuous release", faults=list(faults)[:6]))
    return dict(cases=cases, failures=failures[:15], samples=samples, bound=f"{len(bases)} base scenarios (forward/reversed x single/multi-file x discrete/continuous) x {len(faults)} single faults + 3 configuration-file faults")
