"""Dispatcher for native harnesses (run under /venv/bin/python with the real ladim):
    python -m native.run <harness>   < payload.json   -> last stdout line is the JSON result
"""
from __future__ import annotations

import importlib
import json
import logging
import sys
import traceback
import warnings

warnings.filterwarnings("ignore")
logging.disable(logging.CRITICAL)

MODULES = ["native.h_tracker", "native.h_time", "native.h_roms", "native.h_state", "native.h_output", "native.h_forcing", "native.h_release", "native.h_config", "native.h_model", "native.h_validate"]


def main():
    name = sys.argv[1]
    payload = json.loads(sys.stdin.read() or "{}")
    fn = None
    for m in MODULES:
        try:
            mod = importlib.import_module(m)
        except ModuleNotFoundError as e:
            if e.name == m:
                continue
            raise
        if hasattr(mod, name):
            fn = getattr(mod, name)
            break
    if fn is None:
        print(json.dumps({"error": f"unknown harness {name}"}))
        return
    try:
        res = fn(payload)
    except Exception as e:  # noqa: BLE001
        res = {"error": f"{type(e).__name__}: {e}", "stderr": traceback.format_exc()[-1500:]}
    print(json.dumps(res, default=str))


if __name__ == "__main__":
    main()
