"""Native replays / bounded stand-ins for ROMS.Forcing (C03): real Grid, TimeKeeper, State, Forcing on synthetic files."""
from __future__ import annotations

import itertools

import numpy as np

from native.synth import Scratch, make_roms_file

DT = 3600
EPOCH = np.datetime64("2020-01-01T00:00:00", "s")


def g(hours):
    """Frame value as a function of the frame time (nonlinear so that stale frames show)."""
    return 0.01 * hours * hours + 0.1


def run_layout(d, frame_hours, partition, start_h, stop_h, extra=True, check_frac=True, time_axis="seconds"):
    """frame_hours: sorted list of frame times (hours since epoch); partition: list of file sizes;
    start_h/stop_h: model start/stop (hours); reversed when stop < start.
    Returns list of failures (dicts)."""
    from ladim.ROMS import Forcing, Grid
    from ladim.state import State
    from ladim.timekeeper import TimeKeeper

    for f in d.glob("f_*.nc"):
        f.unlink()
    pos = 0
    for fi, sz in enumerate(partition):
        hrs = frame_hours[pos : pos + sz]
        pos += sz
        if time_axis == "days":  # float64 days since 1970: the frame times are NOT exactly representable (CF decoding rounds them to the second)
            # (with the epoch at 00:10:00 the float value of every third hourly frame lies just BELOW its whole second)
            e0 = int((EPOCH - np.datetime64("1970-01-01T00:00:00", "s")) / np.timedelta64(1, "s")) + 600
            tkw = dict(times=[(e0 + h * 3600) / 86400.0 for h in hrs], units="days since 1970-01-01 00:00:00")
            ttv = lambda tv: np.round((tv * 86400.0 - e0) / 3600.0, 6)  # noqa: E731  file time value -> hours since the epoch
        else:
            tkw = dict(times=[h * 3600 for h in hrs])
            ttv = lambda tv: tv / 3600.0  # noqa: E731
        make_roms_file(
            d / f"f_{fi:03d}.nc",
            **tkw,
            u=lambda t, tv, K, J, I: g(ttv(tv)) + 0 * I,
            v=lambda t, tv, K, J, I: -2 * g(ttv(tv)) + 0 * I,
            extra={"temp": lambda t, tv, K, J, I: 100.0 + ttv(tv) + 0 * I} if extra else None,
        )
    rev = stop_h < start_h
    epoch = EPOCH + np.timedelta64(600, "s") if time_axis == "days" else EPOCH
    timer = TimeKeeper(start=epoch + np.timedelta64(start_h, "h"), stop=epoch + np.timedelta64(stop_h, "h"), dt=DT, time_reversal=rev)
    grid = Grid(d / "f_000.nc")
    state = State(instance_variables=dict(temp=float) if extra else None, default_values=dict(temp=0.0) if extra else None)
    state.append(X=np.array([3.2, 4.4]), Y=np.array([2.7, 3.1]), Z=np.array([5.0, 40.0]))
    modules = dict(time=timer, grid=grid, state=state)
    force = Forcing(modules=modules, filename=d / "f_*.nc", extra_forcing=["temp"] if extra else None)
    fails = []
    fh = np.array(frame_hours, float)
    sg = -1 if rev else 1

    def expect_u(hour):
        return float(np.interp(hour, fh, g(fh)))

    for n in range(timer.Nsteps):
        timer.update()
        force.update()
        hour = start_h + sg * n
        u = float(force.fields["u"][1, 2, 3])
        v = float(force.fields["v"][1, 2, 3])
        eu = expect_u(hour)
        if abs(u - eu) > 1e-4 or abs(v + 2 * eu) > 2e-4:
            fails.append(dict(step=n, what="velocity field at the step", observed=u, expected=eu))
        if extra:
            t = float(force.fields["temp"][1, 2, 3])
            # latest frame at or before the model time, in simulation order
            if rev:
                cand = fh[fh >= hour - 1e-9]
                et = 100.0 + float(cand.min())
            else:
                cand = fh[fh <= hour + 1e-9]
                et = 100.0 + float(cand.max())
            if abs(t - et) > 1e-3:
                fails.append(dict(step=n, what="scalar field = latest frame", observed=t, expected=et))
            ts = float(state["temp"][0]) if "temp" in state.variables else None
        if check_frac:
            U, V = force.velocity(state.X, state.Y, state.Z, fractional_step=0.5)
            eh = expect_u(hour + sg * 0.5)
            if abs(float(U[0]) - sg * eh) > 1e-4:
                fails.append(dict(step=n, what="velocity half a step ahead", observed=float(U[0]), expected=sg * eh))
        U0 = force.variables["u"]
        if abs(float(U0[0]) - sg * eu) > 1e-4:
            fails.append(dict(step=n, what="particle velocity (sign: reversed => flipped)", observed=float(U0[0]), expected=sg * eu))
    force.close()
    return fails


def partitions(n, tier):
    outs = [[n], [1] * n]
    if n >= 2:
        outs.append([n // 2, n - n // 2])
    if n >= 4:
        outs.append([1, n - 2, 1])
        if tier == "thorough":
            outs.append([2, n - 2])
            outs.append([n - 1, 1])
    seen, res = set(), []
    for o in outs:
        o = [x for x in o if x > 0]
        if tuple(o) not in seen and sum(o) == n:
            seen.add(tuple(o))
            res.append(o)
    return res


def forcing_layouts_bounded(p):
    """Bounded stand-in for C03: every frame layout / file partition / start offset / direction in a small space."""
    tier = p.get("tier", "quick")
    layouts = [
        [0, 1, 2, 3, 4, 5, 6],  # spacing == dt
        [0, 2, 4, 6, 8],  # spacing 2
        [0, 3, 6, 9],  # spacing 3
        [0, 1, 3, 4, 7, 8, 9],  # irregular incl. spacing 1
        [0, 2, 3, 6, 10],
    ]
    if tier == "thorough":
        layouts += [[0, 5, 10], [0, 1, 2, 4, 8, 9, 10], [0, 4, 5, 6, 10]]
    cases, failures, samples = 0, [], []
    with Scratch() as d:
        for fh in layouts:
            last = fh[-1]
            for part in partitions(len(fh), tier):
                windows = []
                for a in range(0, min(4, last)):
                    for b in (last, last - 1):
                        if b - a >= 2:
                            windows.append((a, b))
                            windows.append((b, a))  # reversed
                if tier == "quick":
                    windows = windows[:6] + windows[-2:]
                for start_h, stop_h in windows:
                    cases += 1
                    try:
                        f = run_layout(d, fh, part, start_h, stop_h)
                    except BaseException as e:  # noqa: BLE001
                        f = [dict(what=f"raised {type(e).__name__}: {e}")]
                    if not f and cases % 8 == 1:  # every eighth case again with a float time axis in days since 1970
                        cases += 1
                        try:
                            f = [dict(x, time_axis="float64 days since 1970-01-01") for x in run_layout(d, fh, part, start_h, stop_h, time_axis="days")]
                        except BaseException as e:  # noqa: BLE001
                            f = [dict(what=f"raised {type(e).__name__}: {e}", time_axis="float64 days since 1970-01-01")]
                    if f:
                        failures.append(dict(frames_h=fh, files=part, start_h=start_h, stop_h=stop_h, first=f[0], nfail=len(f)))
                    elif len(samples) < 2:
                        samples.append(dict(frames_h=fh, files=part, start_h=start_h, stop_h=stop_h, checked="u lerp, temp latest frame, velocity(0.5), particle velocity, every step"))
    return dict(cases=cases, failures=failures[:12], samples=samples, bound=f"{len(layouts)} frame layouts (spacing 1..5 dt, irregular) x file partitions (one file, one frame per file, halves, 1+rest+1) x start offsets 0..3 x 2 stops x forward/reversed, 1 h step; every eighth case also with the time axis in float64 days since 1970")


def forcing_replay(p):
    with Scratch() as d:
        f = run_layout(d, p["frames_h"], p["files"], p["start_h"], p["stop_h"], extra=p.get("extra", True))
    return dict(reproduced=bool(f), failures=f[:5])
