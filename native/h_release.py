"""Native bounded stand-in for C04: the real ParticleReleaser + State + TimeKeeper against a plain-Python oracle."""
from __future__ import annotations

import itertools

import numpy as np

from native.synth import Scratch

EPOCH = np.datetime64("2020-01-01T00:00:00", "s")
DT = 600


def tstr(step):
    return str(EPOCH + np.timedelta64(int(step) * DT, "s"))


class _Grid:
    def ll2xy(self, lon, lat):
        return (np.asarray(lon) - 5.0) * 10.0, (np.asarray(lat) - 60.0) * 20.0


def oracle(rows, start, stop, continuous, freq_steps):
    """rows: list of (step_of_time, mult, x, y, z, extra). Returns {model_step: [(x, y, z, extra), ...]} (absolute steps)."""
    rev = stop < start
    sg = -1 if rev else 1
    out = {}

    def inside(t):
        return (start <= t < stop) if not rev else (stop < t <= start)

    if not continuous:
        for t, m, *vals in rows:
            if inside(t):
                out.setdefault(t, []).extend([tuple(vals)] * m)
        return out
    times = []
    for r in rows:
        if r[0] not in times:
            times.append(r[0])
    # ticks from the first file time, every freq steps, in simulation direction
    t = times[0]
    while (t < stop) if not rev else (t > stop):
        # latest file time at or before the tick (simulation order)
        prev = [ft for ft in times if ((ft <= t) if not rev else (ft >= t))]
        if prev:
            ft = prev[-1]
            if inside(t):
                for rt, m, *vals in rows:
                    if rt == ft:
                        out.setdefault(t, []).extend([tuple(vals)] * m)
        t += sg * freq_steps
    return out


def run_case(d, rows, start, stop, continuous=False, freq_steps=1, header=True, lonlat=False):
    from ladim.release import ParticleReleaser
    from ladim.state import State
    from ladim.timekeeper import TimeKeeper

    cols = ["release_time", "mult"] + (["lon", "lat"] if lonlat else ["X", "Y"]) + ["Z", "weight"]
    lines = [" ".join(cols)] if header else []
    for t, m, x, y, z, w in rows:
        px, py = ((x / 10.0 + 5.0, y / 20.0 + 60.0) if lonlat else (x, y))
        lines.append(f"{tstr(t)} {m} {px!r} {py!r} {z} {w}")
    path = d / "release.rls"
    path.write_text("\n".join(lines) + "\n")
    rev = stop < start
    timer = TimeKeeper(start=tstr(start), stop=tstr(stop), dt=DT, time_reversal=rev)
    state = State(instance_variables=dict(weight=float), particle_variables=dict(release_time="time"))
    modules = dict(time=timer, grid=_Grid(), state=state)
    kw = dict(continuous=True, release_frequency=freq_steps * DT) if continuous else {}
    if not header:
        kw["names"] = cols
    rel = ParticleReleaser(modules=modules, release_file=path, **kw)
    got = {}
    sg = -1 if rev else 1
    for n in range(timer.Nsteps):
        timer.update()
        before = len(state)
        rel.update()
        if len(state) > before:
            t = start + sg * n
            new = [(float(state.X[k]), float(state.Y[k]), float(state.Z[k]), float(state["weight"][k])) for k in range(before, len(state))]
            got[t] = new
            rt = state["release_time"][before:]
            if not np.all(rt == np.datetime64(tstr(t))):
                got[t] = [(float("nan"),) * 4] * len(new)  # release_time variable does not carry the release time
    return got


def release_bounded(p):
    tier = p.get("tier", "quick")
    cases, failures, samples = 0, [], []
    rng = np.random.default_rng(p.get("seed", 0))
    with Scratch() as d:
        # tables: up to 3 file times on an 8-step axis, 1-2 rows per time, mult 0..2
        axis = list(range(0, 9))
        tables = []
        for times in ([2], [0, 4], [1, 3, 6], [0, 8], [3, 4], [2, 5, 7]):
            rows = []
            for t in times:
                for r in range(1 + (t % 2)):
                    rows.append((t, int(rng.integers(0, 3)), float(np.round(3 + rng.random() * 5, 3)), float(np.round(3 + rng.random() * 4, 3)), float(rng.integers(0, 40)), float(rng.integers(1, 100))))
            tables.append(rows)
        # a source switched off: a file time whose rows all have mult 0 (in continuous mode nothing is released from it on)
        tables.append([(0, 2, 4.5, 5.5, 5.0, 7.0), (0, 1, 6.25, 4.75, 10.0, 8.0), (4, 0, 4.5, 5.5, 5.0, 7.0), (4, 0, 6.25, 4.75, 10.0, 8.0), (6, 3, 5.5, 6.5, 20.0, 9.0)])
        windows = [(0, 8), (1, 7), (2, 6), (0, 4), (4, 8), (3, 5)]
        for rows, (a, b) in itertools.product(tables, windows):
            for rev in (False, True):
                start, stop = (b, a) if rev else (a, b)
                rws = sorted(rows, key=lambda r: -r[0]) if rev else rows  # simulation order
                for continuous, freq in ((False, 1), (True, 1), (True, 2), (True, 3)):
                    if tier == "quick" and continuous and freq == 3:
                        continue
                    if continuous:
                        # the property's quantifier: file times on the release-frequency grid anchored at the first file time
                        if any((r[0] - rws[0][0]) % freq for r in rws):
                            continue
                    for header, lonlat in ((True, False), (False, True)):
                        exp = oracle(rws, start, stop, continuous, freq)
                        cases += 1
                        try:
                            got = run_case(d, rws, start, stop, continuous, freq, header, lonlat)
                            refused = False
                        except SystemExit:
                            got, refused = {}, True
                        except BaseException as e:  # noqa: BLE001
                            from .refusal import deliberate

                            if not deliberate(e):
                                failures.append(dict(rows=rws, start=start, stop=stop, continuous=continuous, freq=freq, what=f"raised {type(e).__name__}: {e}"))
                                continue
                            got, refused = {}, True
                        exp = {t: v for t, v in exp.items() if v}
                        if refused:
                            # a set-up without any release row in the window may be refused (C20); with particles it must not
                            if exp:
                                failures.append(dict(rows=rws, start=start, stop=stop, continuous=continuous, freq=freq, what="refused although rows are scheduled in the window"))
                            continue
                        ok = set(got) == set(exp) and all(len(got[t]) == len(exp[t]) and np.allclose(np.array(got[t], float), np.array(exp[t], float), atol=1e-6) for t in exp)
                        if not ok:
                            failures.append(dict(rows=rws, start=start, stop=stop, continuous=continuous, freq=freq, header=header, lonlat=lonlat, expected={k: len(v) for k, v in exp.items()}, got={k: len(v) for k, v in got.items()}))
        samples.append(dict(rows=tables[2], window=[1, 7], modes="discrete, continuous freq 1/2, forward/reversed, header in file / names in config, X,Y / lon,lat"))
    return dict(cases=cases, failures=failures[:10], samples=samples, bound=f"{len(tables)} tables (<= 3 file times, <= 2 rows/time, mult 0..3, one with an all-zero file time) x {len(windows)} windows on an 8-step axis x forward/reversed x discrete/continuous(freq 1,2{',3' if tier != 'quick' else ''}) x 2 input spellings")
