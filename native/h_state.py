"""Native bounded stand-in for C05: all interleavings of State operations up to a bound against a reference model."""
from __future__ import annotations

import itertools

import numpy as np


def _check(state, ref, npid, where):
    """ref: list of dicts(pid, X, xi, alive); pvals: dict pid -> xp"""
    pid = state.pid
    n = len(pid)
    f = None
    if len(ref) != n:
        f = "number of instances"
    elif any(len(state[v]) != n for v in state.instance_variables):
        f = "instance arrays not equally long"
    elif n and (np.any(np.diff(pid) <= 0) or np.any(pid < np.arange(n))):
        f = "pid not strictly increasing with pid[k] >= k"
    elif state.npid != npid or (n and pid.max() >= npid):
        f = "npid / pid reuse"
    elif [int(p) for p in pid] != [r["pid"] for r in ref]:
        f = "pids differ from the reference history"
    elif not np.allclose(state.X, [r["X"] for r in ref]) or list(state.alive) != [r["alive"] for r in ref]:
        f = "instance values do not follow the particle"
    elif len(state["xp"]) != npid or not np.allclose(state["xp"], np.arange(npid) * 10.0):
        f = "particle variable not addressed by pid"
    return None if f is None else dict(where=where, what=f)


def state_histories_bounded(p):
    from ladim.state import State

    tier = p.get("tier", "quick")
    depth = 4 if tier == "quick" else 6
    ops = ["append_scalar", "append_array", "append_broadcast", "kill_first", "kill_last", "kill_alt", "compactify", "setitem", "append_empty"]
    cases, failures, samples = 0, [], []
    rng = np.random.default_rng(p.get("seed", 0))
    seqs = itertools.product(ops, repeat=depth)
    extra = []
    for _ in range(200 if tier == "quick" else 3000):  # random longer histories
        extra.append(tuple(rng.choice(ops, size=int(rng.integers(depth + 1, 14)))))
    for seq in itertools.chain(seqs, extra):
        state = State(instance_variables=dict(xi=float), particle_variables=dict(xp=float), default_values=dict(xi=-1.0))
        ref, npid = [], 0
        cases += 1
        bad = None
        for k, op in enumerate(seq):
            if op.startswith("append"):
                m = {"append_scalar": 1, "append_array": 3, "append_broadcast": 2, "append_empty": 0}[op]
                xs = [100.0 * npid + i for i in range(m)]
                xp = [10.0 * (npid + i) for i in range(m)]
                if op == "append_scalar":
                    state.append(X=xs[0], Y=1.0, Z=2.0, xp=xp[0])
                elif op == "append_array":
                    state.append(X=np.array(xs), Y=np.ones(m), Z=np.zeros(m), xp=np.array(xp), xi=np.array(xs))
                elif op == "append_broadcast":
                    state.append(X=np.array(xs), Y=1.0, Z=2.0, xp=np.array(xp))
                else:
                    state.append(X=np.array([]), Y=np.array([]), Z=np.array([]), xp=np.array([]))
                for i in range(m):
                    ref.append(dict(pid=npid + i, X=xs[i], alive=True))
                npid += m
            elif op.startswith("kill"):
                n = len(state)
                if n:
                    idx = {"kill_first": [0], "kill_last": [n - 1], "kill_alt": list(range(0, n, 2))}[op]
                    state.alive[idx] = False
                    for i in idx:
                        ref[i]["alive"] = False
            elif op == "compactify":
                state.compactify()
                ref = [r for r in ref if r["alive"]]
            elif op == "setitem":
                state["X"] = state.X + 0.5
                for r in ref:
                    r["X"] += 0.5
                # one variable assigned from another, then the source moved IN PLACE (as the tracker does):
                # the assigned variable must keep its own values
                state["Y"] = state["X"]
                keep = np.array(state.X, copy=True)
                xs = state.X
                xs += 0.25
                for r in ref:
                    r["X"] += 0.25
                if len(keep) and not np.array_equal(np.asarray(state.Y), keep):
                    bad = dict(step=k, what="state['Y'] = state['X'] followed by an in-place change of X changed Y too (variables share a buffer)")
                    break
            bad = _check(state, ref, npid, k)
            if bad:
                break
        if bad:
            failures.append(dict(history=list(seq), **bad))
            if len(failures) > 10:
                break
    samples.append(dict(history=["append_array", "kill_alt", "compactify", "append_scalar"], checks="lengths aligned, pid increasing/>=k/never reused, values follow the particle, particle variable by pid"))
    return dict(cases=cases, failures=failures[:10], samples=samples, bound=f"all {len(ops)}^{depth} operation sequences + random histories up to length 13")
