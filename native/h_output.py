"""Native replays / bounded stand-ins for ladim/out_netcdf.py (C06, C07): real Output, State, TimeKeeper."""
from __future__ import annotations

import itertools
from pathlib import Path

import numpy as np
from netCDF4 import Dataset

from native.synth import Scratch

EPOCH = np.datetime64("2020-01-01T00:00:00", "s")
DT = 60


class _Grid:
    def xy2ll(self, x, y):
        return 5.0 + 0.01 * np.asarray(x), 60.0 + 0.02 * np.asarray(y)


IVARS = dict(
    pid=dict(encoding=dict(datatype="i4"), attributes=dict(long_name="particle identifier")),
    X=dict(encoding=dict(datatype="f8"), attributes=dict(long_name="x")),
    Z=dict(encoding=dict(datatype="f4"), attributes=dict(long_name="z")),
)
PVARS = dict(
    release_time=dict(encoding=dict(datatype="f8"), attributes=dict(long_name="release time", units="seconds since reference_time")),
    x0=dict(encoding=dict(datatype="f8"), attributes=dict(long_name="initial x")),
)


def drive(d, nsteps, ops, numrec, layout="sparse", pvars=True, rev=False, script=None, lonlat=False, stem="out", ref=None):
    """Run the step protocol's output part on real modules; returns (files, history) where history[r] is the
    expected record r: dict(time, pids, X)."""
    from ladim.out_netcdf import Output
    from ladim.state import State
    from ladim.timekeeper import TimeKeeper

    start = EPOCH + np.timedelta64(3600, "s")
    stop = start + np.timedelta64((-1 if rev else 1) * nsteps * DT, "s")
    timer = TimeKeeper(start=start, stop=stop, dt=DT, time_reversal=rev, reference=ref)
    # lon/lat written to the output are also state variables (placeholders: the output computes them from X, Y)
    state = State(instance_variables=dict(lon=float, lat=float) if lonlat else None, particle_variables=dict(release_time="time", x0=float) if pvars else None,
                  default_values=dict(lon=-999.0, lat=-999.0) if lonlat else None)
    ivars = {k: dict(v) for k, v in IVARS.items()}
    if lonlat:
        ivars["lon"] = dict(encoding=dict(datatype="f8"), attributes=dict())
        ivars["lat"] = dict(encoding=dict(datatype="f8"), attributes=dict())
    out = Output(
        modules=dict(time=timer, grid=_Grid(), state=state),
        filename=d / f"{stem}.nc",
        output_period=ops * DT,
        instance_variables=ivars,
        particle_variables={k: dict(v) for k, v in PVARS.items()} if pvars else None,
        layout=layout,
        numrec=numrec,
    )
    history = []
    released = {}
    script = script or {}
    for step in range(nsteps):
        timer.update()
        act = script.get(step, {})
        m = act.get("release", 2 if step % 2 == 0 else 0)
        if m:
            x = 10.0 + state.npid + np.arange(m)
            kw = dict(X=x, Y=np.full(m, 3.0), Z=np.full(m, 1.5))
            if pvars:
                kw.update(release_time=np.full(m, timer.time), x0=x)
            for i in range(m):
                released[state.npid + i] = (float(x[i]), timer.time)
            state.append(**kw)
        if step >= 0 and step % ops == 0:
            alive = np.asarray(state.alive)
            history.append(dict(step=step, time=timer.time, pids=[int(p) for p in np.asarray(state.pid)[alive]], X=[float(v) for v in np.asarray(state.X)[alive]], npid=state.npid))
        out.update()
        # after the record: move and kill (what tracker/ibm would do)
        if len(state):
            state["X"] = state.X + 0.25
            kill = act.get("kill", "first" if step % 3 == 1 else None)
            if kill == "first":
                state.alive[0] = False
            elif kill == "last":
                state.alive[-1] = False
            elif kill == "all":
                state.alive[:] = False
    out.close()
    files = sorted(d.glob(f"{stem}*.nc"))
    return files, history, released, timer


def verify(files, history, released, timer, numrec, layout, pvars, stem="out", lonlat=False):
    """All C06/C07 clauses on the files written; returns list of failure strings."""
    fails = []
    nrec = len(history)
    nfiles_exp = 1 if not numrec else -(-nrec // numrec)
    if numrec:
        names = [f"{stem}_{k:03d}.nc" for k in range(nfiles_exp)]
    else:
        names = [f"{stem}.nc"]
    if [f.name for f in files] != names:
        fails.append(f"file names {[f.name for f in files]} != {names}")
        return fails
    r = 0
    ref = timer.reference_time
    for fi, path in enumerate(files):
        try:
            nc = Dataset(path)
        except Exception as e:  # noqa: BLE001
            fails.append(f"{path.name} unreadable: {e}")
            return fails
        with nc:
            nt = len(nc.dimensions["time"])
            exp_nt = min(numrec, nrec - fi * numrec) if numrec else nrec
            if nt != exp_nt:
                fails.append(f"{path.name}: {nt} records, expected {exp_nt}")
                return fails
            times = nc.variables["time"][:]
            if "since" not in nc.variables["time"].units or str(ref) not in nc.variables["time"].units:
                fails.append(f"{path.name}: time units {nc.variables['time'].units!r} do not name the reference time {ref}")
            if layout == "sparse":
                pc = nc.variables["particle_count"][:]
                if int(pc.sum()) != len(nc.dimensions["particle_instance"]):
                    fails.append(f"{path.name}: counts sum {int(pc.sum())} != instance dimension {len(nc.dimensions['particle_instance'])}")
            for lr in range(nt):
                h = history[r]
                et = float((h["time"] - ref) / np.timedelta64(1, "s"))
                if abs(float(times[lr]) - et) > 1e-9:
                    fails.append(f"{path.name} record {lr}: time {float(times[lr])} != {et}")
                if layout == "sparse":
                    s0 = int(np.sum(pc[:lr]))
                    cnt = int(pc[lr])
                    pid = [int(v) for v in nc.variables["pid"][s0 : s0 + cnt]]
                    X = [float(v) for v in nc.variables["X"][s0 : s0 + cnt]]
                    if pid != h["pids"] or not np.allclose(X, h["X"]):
                        fails.append(f"{path.name} record {lr}: pids {pid} / X differ from the state at that time {h['pids']}")
                    if any(pid[k] < k for k in range(len(pid))) or any(a >= b for a, b in zip(pid, pid[1:])):
                        fails.append(f"{path.name} record {lr}: pids not strictly increasing with pid[k] >= k")
                    if lonlat:
                        lon = np.asarray(nc.variables["lon"][s0 : s0 + cnt])
                        lat = np.asarray(nc.variables["lat"][s0 : s0 + cnt])
                        if len(lon) != cnt or not np.allclose(lon, 5.0 + 0.01 * np.asarray(h["X"])) or not np.allclose(lat, 60.0 + 0.02 * 3.0):
                            fails.append(f"{path.name} record {lr}: lon/lat is not xy2ll of the record's positions")
                        if len(nc.variables["lon"]) != int(pc.sum()):
                            fails.append(f"{path.name}: lon has {len(nc.variables['lon'])} instances, the counts sum to {int(pc.sum())}")
                else:
                    row = np.ma.filled(nc.variables["X"][lr, :].astype(float), np.nan)
                    for p in range(len(row)):
                        if p in h["pids"]:
                            if abs(row[p] - h["X"][h["pids"].index(p)]) > 1e-9:
                                fails.append(f"{path.name} record {lr}: dense X[{p}] wrong")
                        elif not np.isnan(row[p]) and abs(row[p]) < 1e30:
                            fails.append(f"{path.name} record {lr}: dense X[{p}] = {row[p]} should be fill (unborn/dead)")
                    if h["pids"] and max(h["pids"]) >= len(row):
                        fails.append(f"{path.name} record {lr}: dense row too short")
                    if lonlat:
                        lrow = np.ma.filled(nc.variables["lon"][lr, :].astype(float), np.nan)
                        for p in h["pids"]:
                            if p >= len(lrow) or abs(lrow[p] - (5.0 + 0.01 * h["X"][h["pids"].index(p)])) > 1e-9:
                                fails.append(f"{path.name} record {lr}: dense lon[{p}] is not xy2ll of the record's position")
                                break
                r += 1
            if pvars:
                npid = history[r - 1]["npid"]
                x0 = np.ma.filled(nc.variables["x0"][:].astype(float), np.nan)
                rt = np.ma.filled(nc.variables["release_time"][:].astype(float), np.nan)
                if len(x0) < npid:
                    fails.append(f"{path.name}: particle variable x0 has {len(x0)} entries, {npid} particles released so far")
                else:
                    for p in range(npid):
                        ex, et = released[p]
                        if abs(x0[p] - ex) > 1e-9 or abs(rt[p] - float((et - ref) / np.timedelta64(1, "s"))) > 1e-9:
                            fails.append(f"{path.name}: particle variables of pid {p} wrong")
                            break
    if r != nrec:
        fails.append(f"{r} records in the files, {nrec} scheduled")
    return fails


def output_runs_bounded(p):
    tier = p.get("tier", "quick")
    maxn = 6 if tier == "quick" else 14
    cases, failures, samples = 0, [], []
    with Scratch() as d:
        for nsteps in range(1, maxn + 1):
            for ops in range(1, min(nsteps, 5) + 1):
                for numrec in (0, 1, 2, 3):
                    combos = [("sparse", True, False), ("sparse", False, True), ("dense", True, False)]
                    if tier == "thorough":
                        combos += [("dense", False, True), ("sparse", True, True)]
                    for layout, pvars, rev in combos:
                        sub = d / f"r{cases}"
                        sub.mkdir()
                        cases += 1
                        ll = (nsteps + ops + numrec) % 2 == 0  # lon/lat requested in every second set-up (both layouts)
                        try:
                            files, hist, rel, timer = drive(sub, nsteps, ops, numrec, layout, pvars, rev, ref=EPOCH if cases % 2 else None, lonlat=ll)
                            f = verify(files, hist, rel, timer, numrec, layout, pvars, lonlat=ll)
                            if not f and numrec and layout == "sparse":
                                # concatenation of the split files equals the unsplit run
                                sub2 = d / f"u{cases}"
                                sub2.mkdir()
                                files2, hist2, rel2, timer2 = drive(sub2, nsteps, ops, 0, layout, pvars, rev, ref=EPOCH if cases % 2 else None)
                                a = np.concatenate([Dataset(x).variables["X"][:] for x in files]) if files else []
                                b = Dataset(files2[0]).variables["X"][:]
                                if len(a) != len(b) or not np.allclose(a, b):
                                    f = ["concatenated split files differ from the unsplit run"]
                        except BaseException as e:  # noqa: BLE001
                            f = [f"raised {type(e).__name__}: {e}"]
                        if f:
                            failures.append(dict(nsteps=nsteps, period_steps=ops, numrec=numrec, layout=layout, particle_variables=pvars, reversed=rev, first=f[0], nfail=len(f)))
        # histories with empty records and with the highest pids dead at the end
        for script in (
            {0: dict(release=3, kill="all"), 1: dict(release=0), 2: dict(release=2, kill="last")},
            {0: dict(release=4, kill="last"), 1: dict(release=0, kill="last"), 2: dict(release=0, kill="last"), 3: dict(release=0)},
            {0: dict(release=0), 1: dict(release=0), 2: dict(release=1)},
        ):
            for numrec in (0, 2):
                sub = d / f"s{cases}"
                sub.mkdir()
                cases += 1
                full = {k: script.get(k, dict(release=0)) for k in range(6)}
                try:
                    files, hist, rel, timer = drive(sub, 6, 1, numrec, "sparse", True, False, script=full)
                    f = verify(files, hist, rel, timer, numrec, "sparse", True)
                except BaseException as e:  # noqa: BLE001
                    f = [f"raised {type(e).__name__}: {e}"]
                if f:
                    failures.append(dict(script=str(script), numrec=numrec, first=f[0]))
        samples.append(dict(nsteps=7, period_steps=3, numrec=2, layout="sparse", checks="file names, records per file, time coordinate, counts, content by the documented retrieval rule, particle variables by pid, concatenation == unsplit"))
    # filename generator
    from ladim.out_netcdf import filename_generator

    for proto, exp0 in (("out.nc", "out_000.nc"), ("a/cake_04.nc", "cake_04.nc"), ("x_0031.nc", "x_0031.nc"), ("run_1_.nc", "run_1__000.nc"), ("y_998.nc", "y_998.nc")):
        g = filename_generator(Path(proto))
        cases += 1
        names = [next(g).name for _ in range(1101)]
        stem = Path(proto).stem
        import re as _re

        m = _re.search(r"_(\d+)$", stem)
        base, n0, w = (stem[: m.start()], int(m.group(1)), len(m.group(1))) if m else (stem, 0, 3)
        expn = [f"{base}_{n0 + k:0{w}d}.nc" for k in range(1101)]
        if names != expn or names[0] != exp0:
            failures.append(dict(prototype=proto, first=names[0], expected_first=exp0))
    return dict(cases=cases, failures=failures[:12], samples=samples, bound=f"nsteps 1..{maxn} x period 1..5 steps x numrec 0..3 x layouts/particle variables/direction; 3 death/empty-record scripts; 5 file-name prototypes x 1101 names")


def output_replay(p):
    with Scratch() as d:
        try:
            files, hist, rel, timer = drive(d, p["nsteps"], p["ops"], p.get("numrec", 0), p.get("layout", "sparse"), p.get("pvars", True), p.get("rev", False), script={int(k): v for k, v in p.get("script", {}).items()} or None)
            f = verify(files, hist, rel, timer, p.get("numrec", 0), p.get("layout", "sparse"), p.get("pvars", True))
        except BaseException as e:  # noqa: BLE001
            f = [f"raised {type(e).__name__}: {e}"]
    return dict(reproduced=bool(f), failures=f[:5])
