"""What counts as "the set-up is refused with an error" (C20) when the real code is run.

A refusal is a DELIBERATE stop: SystemExit (the repository's convention, after a critical log line), or any exception
raised by an explicit ``raise`` statement of the package itself (ValueError, FileNotFoundError, ...). An exception that
escapes from inside an operation (a KeyError of a dictionary lookup, an IndexError, an AttributeError, ...) is a crash,
not a refusal: nothing decided to stop there. The property says "stops with an error"; it does not name the class.
"""
from __future__ import annotations

import linecache
from pathlib import Path


def deliberate(exc: BaseException) -> bool:
    if isinstance(exc, SystemExit):
        return True
    if isinstance(exc, (KeyboardInterrupt, MemoryError, AssertionError, NotImplementedError)):
        return False
    import ladim

    root = str(Path(ladim.__file__).resolve().parent)
    tb = exc.__traceback__
    last = None
    while tb is not None:
        last = tb
        tb = tb.tb_next
    if last is None:
        return False
    fn = last.tb_frame.f_code.co_filename
    if not str(Path(fn).resolve()).startswith(root):
        return False
    line = linecache.getline(fn, last.tb_lineno).strip()
    if line.startswith("raise"):
        return True
    # a multi-line raise statement: tb_lineno may point into the call
    for back in range(1, 6):
        prev = linecache.getline(fn, last.tb_lineno - back).strip()
        if prev.startswith("raise"):
            return True
        if prev.endswith(":") or not prev:
            break
    return False
