"""Native replays / bounded checks for ladim/ROMS.py."""
from __future__ import annotations

import numpy as np

from native.synth import Scratch, make_roms_file


def grid_metric(p):
    """Replay: a grid whose pn differs from pm; Grid.metric must return (1/pm, 1/pn) of the particle's cell."""
    from ladim.ROMS import Grid

    with Scratch() as d:
        jj, ii = np.meshgrid(np.arange(7), np.arange(8), indexing="ij")
        pm = 1.0 / (800.0 + 10 * ii + jj)
        pn = 1.0 / (400.0 + 5 * jj + ii)
        make_roms_file(d / "g.nc", pm=pm, pn=pn, grid_only=True)
        g = Grid(d / "g.nc")
        X, Y = np.array([2.3, 4.6]), np.array([3.4, 2.2])
        dx, dy = g.metric(X, Y)
        I, J = X.round().astype(int), Y.round().astype(int)
        ex, ey = 1.0 / pm[J, I], 1.0 / pn[J, I]
        bad = bool(np.max(np.abs(dx - ex)) > 1e-9 or np.max(np.abs(dy - ey)) > 1e-9)
        return dict(reproduced=bad, observed=[np.asarray(dx).tolist(), np.asarray(dy).tolist()], expected=[ex.tolist(), ey.tolist()])
