"""Native replays / bounded checks for ladim/ROMS.py."""
from __future__ import annotations

import numpy as np

from native.synth import Scratch, make_roms_file


def grid_metric(p):
    """Replay: a grid whose pn differs from pm; Grid.metric must return (1/pm, 1/pn) of the particle's cell."""
    from ladim.ROMS import Grid

    with Scratch() as d:
        jj, ii = np.meshgrid(np.arange(7), np.arange(8), indexing="ij")
        pm = 1.0 / (800.0 + 10 * ii + jj)
        pn = 1.0 / (400.0 + 5 * jj + ii)
        make_roms_file(d / "g.nc", pm=pm, pn=pn, grid_only=True)
        g = Grid(d / "g.nc")
        X, Y = np.array([2.3, 4.6]), np.array([3.4, 2.2])
        dx, dy = g.metric(X, Y)
        I, J = X.round().astype(int), Y.round().astype(int)
        ex, ey = 1.0 / pm[J, I], 1.0 / pn[J, I]
        bad = bool(np.max(np.abs(dx - ex)) > 1e-9 or np.max(np.abs(dy - ey)) > 1e-9)
        return dict(reproduced=bad, observed=[np.asarray(dx).tolist(), np.asarray(dy).tolist()], expected=[ex.tolist(), ey.tolist()])


def vertical_bounded(p):
    """Bounded stand-in for C12 (incl. Vstretching 2, not proved): ordering, bounds, interleave, lookup consistency."""
    from ladim.ROMS import s_stretch, sdepth, z2s

    tier = p.get("tier", "quick")
    Ns = [1, 2, 3, 10, 35, 60] if tier == "quick" else list(range(1, 61))
    cases, failures, samples = 0, [], []
    rng = np.random.default_rng(p.get("seed", 0))
    for N in Ns:
        for vs in (1, 2, 4):
            for ts in (0.1, 1.0, 3.0, 5.0, 7.0, 10.0):
                for tb in ((0.0, 0.5, 1.0) if vs == 1 else (0.1, 0.5, 1.0, 2.0, 4.0)):
                    Cr = s_stretch(N, ts, tb, stagger="rho", Vstretching=vs)
                    Cw = s_stretch(N, ts, tb, stagger="w", Vstretching=vs)
                    cases += 1
                    bad = None
                    if np.any(np.diff(Cr) <= 0) or np.any(np.diff(Cw) <= 0):
                        bad = "stretching curve not strictly increasing"
                    elif Cr.min() < -1 or Cr.max() > 0 or abs(Cw[0] + 1) > 1e-12 or abs(Cw[-1]) > 1e-12:
                        bad = "stretching curve range / end points"
                    elif np.any(Cw[:-1] >= Cr) or np.any(Cr >= Cw[1:]):
                        bad = "C_w and C_r do not interleave"
                    if bad:
                        failures.append(dict(N=N, Vstretching=vs, theta_s=ts, theta_b=tb, what=bad))
                        continue
                    for vt in (1, 2):
                        H = np.array([[1.0, 7.0, 50.0], [300.0, 2500.0, 5000.0]])
                        for hc in (0.0, 1.0) if vt == 1 else (0.0, 10.0, 250.0):
                            zr = sdepth(H, hc, Cr, stagger="rho", Vtransform=vt)
                            zw = sdepth(H, hc, Cw, stagger="w", Vtransform=vt)
                            cases += 1
                            bad = None
                            if np.any(np.diff(zr, axis=0) <= 0) or np.any(np.diff(zw, axis=0) <= 0):
                                bad = "levels not strictly increasing"
                            elif np.any(zr < -H - 1e-9) or np.any(zr > 1e-9):
                                bad = "rho levels outside [-h, 0]"
                            elif np.max(np.abs(zw[0] + H)) > 1e-9 or np.max(np.abs(zw[-1])) > 1e-9:
                                bad = "w levels do not start at -h / end at 0"
                            elif np.any(zw[:-1] >= zr) or np.any(zr >= zw[1:]):
                                bad = "rho and w levels do not interleave"
                            elif N >= 2:
                                X = np.array([0.2, 1.4, 2.0, 0.6, 1.0])
                                Y = np.array([0.3, 0.9, 0.0, 1.2, 0.51])
                                hh = H[Y.round().astype(int), X.round().astype(int)]
                                Z = np.array([-1.0, 0.0, 0.5, 1.0, 1.3]) * hh
                                K, A = z2s(zr, X, Y, Z)
                                col = zr[:, Y.round().astype(int), X.round().astype(int)]
                                pp = np.arange(len(X))
                                got = A * col[K - 1, pp] + (1 - A) * col[K, pp]
                                exp = np.clip(-Z, col[0], col[-1])
                                if np.any(K < 1) or np.any(K >= N) or np.any(A < 0) or np.any(A > 1) or np.max(np.abs(got - exp)) > 1e-6 * (1 + np.abs(exp).max()):
                                    bad = "level lookup inconsistent"
                            if bad:
                                failures.append(dict(N=N, Vstretching=vs, Vtransform=vt, theta_s=ts, theta_b=tb, hc=hc, what=bad))
    samples.append(dict(N=35, Vstretching=2, theta_s=7.0, theta_b=0.5, Vtransform=2, checks="ordering, range, end points, interleave, lookup"))
    return dict(cases=cases, failures=failures[:10], samples=samples, bound=f"N in {Ns if len(Ns) < 10 else '1..60'}, theta_s in 0.1..10, theta_b in 0..1 (V1) / 0.1..4 (V2, V4), Vtransform 1 (hc 0, 1) and 2 (hc 0, 10, 250), h from 1 m to 5000 m")


class _Checked(np.ndarray):
    """ndarray that refuses negative (wrapping) and out-of-range integer indices."""

    def __getitem__(self, idx):
        tup = idx if isinstance(idx, tuple) else (idx,)
        for ax, i in enumerate(tup):
            if isinstance(i, (int, np.integer)) and not (0 <= int(i) < self.shape[ax]):
                raise IndexError(f"index {int(i)} outside axis {ax} of size {self.shape[ax]}")
        return np.asarray(super().__getitem__(idx)) if not isinstance(idx, tuple) or any(isinstance(i, slice) for i in tup) else super().__getitem__(idx)


def kernel_bounds_bounded(p):
    """Bounded stand-in for C17: the kernels' Python source (numba .py_func) is run with bounds-checked arrays on
    boundary positions, subgrids, fast flow towards the open boundary, all schemes, surface and bottom depths."""
    import ladim.ROMS as RM
    import ladim.tracker as TR
    from ladim.ROMS import Forcing, Grid
    from ladim.state import State
    from ladim.timekeeper import TimeKeeper
    from ladim.tracker import Tracker

    tier = p.get("tier", "quick")
    cases, failures, samples = 0, [], []
    saved = (RM.trilinear, RM.z2s_kernel, TR.RKstep, TR.clip)
    tri, zk = RM.trilinear.py_func, RM.z2s_kernel.py_func

    def tri_checked(F, X, Y, K, A):
        return tri(np.asarray(F).view(_Checked), X, Y, K, A)

    def zk_checked(I, J, Z, z_rho):
        return zk(I, J, Z, np.asarray(z_rho).view(_Checked))

    RM.trilinear, RM.z2s_kernel = tri_checked, zk_checked
    try:
        with Scratch() as d:
            make_roms_file(d / "f.nc", imax0=9, jmax0=8, kmax=3, times=[0, 7200], u=lambda t, tv, K, J, I: 5.0 + 0 * I, v=lambda t, tv, K, J, I: -4.0 + 0 * I, h=30.0)
            subgrids = [None, (1, 8, 1, 7), (2, 6, 2, 6), (3, 8, 1, 5)]
            if tier == "thorough":
                subgrids += [(1, 4, 1, 4), (4, 8, 3, 7), (-6, -1, -5, -1)]
            for sub in subgrids:
                for sch in ("EF", "RK2", "RK4"):
                    for rev in (False, True):
                        timer = TimeKeeper(start="2020-01-01T00:00:00" if not rev else "2020-01-01T02:00:00", stop="2020-01-01T02:00:00" if not rev else "2020-01-01T00:00:00", dt=600, time_reversal=rev)
                        grid = Grid(d / "f.nc", subgrid=sub)
                        e = 1e-6
                        xs = [grid.xmin + 0.5 + e, grid.xmax - 0.5 - e, 0.5 * (grid.xmin + grid.xmax)]
                        ys = [grid.ymin + 0.5 + e, grid.ymax - 0.5 - e, 0.5 * (grid.ymin + grid.ymax)]
                        X = np.array([x for x in xs for y in ys])
                        Y = np.array([y for x in xs for y in ys])
                        ok = grid.ingrid(X, Y)
                        X, Y = X[ok], Y[ok]
                        if len(X) == 0:
                            continue
                        Z = np.resize(np.array([-5.0, 0.0, 4.9, 15.0, 30.0, 45.0]), len(X)).astype(float)
                        state = State()
                        state.append(X=X, Y=Y, Z=Z)
                        modules = dict(time=timer, grid=grid, state=state)
                        force = Forcing(modules=modules, filename=d / "f.nc")
                        modules["forcing"] = force
                        trk = Tracker(advection=sch, diffusion=0.0, modules=modules)
                        cases += 1
                        try:
                            for _ in range(3):
                                timer.update()
                                force.update()
                                trk.update()
                        except IndexError as ex:
                            failures.append(dict(subgrid=sub, scheme=sch, reversed=rev, what=str(ex)))
                        finally:
                            force.close()
            samples.append(dict(subgrid=subgrids[2], scheme="RK4", positions="valid-region corners +- 1e-6, depths -5..45 m in 30 m water, 5 m/s towards the open boundary"))
    finally:
        RM.trilinear, RM.z2s_kernel, TR.RKstep, TR.clip = saved
    return dict(cases=cases, failures=failures[:10], samples=samples, bound=f"{len(subgrids)} subgrids x 3 schemes x forward/reversed x 3 steps, 9 boundary positions, 6 depths")


def lonlat_bounded(p):
    """Bounded stand-in for C16: ll2xy(xy2ll(P)) == P on synthetic conformal grids and subgrids (Newton convergence
    is numerical analysis, not proved); sample2D corpus incl. substitute value 0.0; release by lon/lat."""
    from ladim.ROMS import Grid
    from ladim.sample import sample2D

    tier = p.get("tier", "quick")
    cases, failures, samples = 0, [], []

    def stereo(im, jm, dx_km, rot, xp, yp):
        """Polar stereographic grid: lon/lat of grid index (i, j)."""
        jj, ii = np.meshgrid(np.arange(jm), np.arange(im), indexing="ij")
        x = (ii - xp) * dx_km
        y = (jj - yp) * dx_km
        r = np.hypot(x, y)
        Rearth = 6371.0
        lat = 90.0 - 2.0 * np.degrees(np.arctan(r / (2 * Rearth * (1 + np.sin(np.radians(60.0))) / 2)))
        lon = rot + np.degrees(np.arctan2(x, -y))
        return lon, lat

    grids = [(40, 30, 20.0, 58.0, 20.0, 150.0), (120, 90, 4.0, 10.0, -50.0, 400.0)]
    if tier == "thorough":
        grids += [(400, 300, 4.0, 58.0, 150.0, 700.0), (60, 50, 10.0, -30.0, 30.0, 200.0)]
    with Scratch() as d:
        for gi, (im, jm, dxk, rot, xp, yp) in enumerate(grids):
            lon, lat = stereo(im, jm, dxk, rot, xp, yp)
            make_roms_file(d / f"g{gi}.nc", imax0=im, jmax0=jm, lon=lon, lat=lat, grid_only=True)
            for sub in (None, (3, im - 4, 2, jm - 3), (im // 3, 2 * im // 3, jm // 4, 3 * jm // 4)):
                g = Grid(d / f"g{gi}.nc", subgrid=sub)
                xs = np.linspace(g.xmin + 0.5 + 1e-6, g.xmax - 0.5 - 1e-6, 9)
                ys = np.linspace(g.ymin + 0.5 + 1e-6, g.ymax - 0.5 - 1e-6, 7)
                X, Y = [a.ravel() for a in np.meshgrid(np.concatenate([xs, np.round(xs[1:-1])]), np.concatenate([ys, np.round(ys[1:-1])]))]
                lo, la = g.xy2ll(X, Y)
                # xy2ll is the bilinear interpolation of the global coordinate arrays (subgrid independent)
                I, J = X.astype(int), Y.astype(int)
                P, Q = X - I, Y - J
                ref = (1 - P) * (1 - Q) * lon[J, I] + P * (1 - Q) * lon[J, I + 1] + (1 - P) * Q * lon[J + 1, I] + P * Q * lon[J + 1, I + 1]
                cases += 1
                if np.max(np.abs(lo - ref)) > 1e-9:
                    failures.append(dict(grid=gi, subgrid=sub, what="xy2ll is not the bilinear interpolation of lon_rho at the position", err=float(np.max(np.abs(lo - ref)))))
                try:
                    X2, Y2 = g.ll2xy(lo, la)
                except Exception as e:  # noqa: BLE001
                    failures.append(dict(grid=gi, subgrid=sub, what=f"ll2xy raised {type(e).__name__}: {e}"))
                    continue
                err = float(max(np.max(np.abs(X2 - X)), np.max(np.abs(Y2 - Y))))
                lo2, la2 = g.xy2ll(np.clip(X2, g.xmin, g.xmax - 1e-9), np.clip(Y2, g.ymin, g.ymax - 1e-9))
                res = float(np.max((lo2 - lo) ** 2 + (la2 - la) ** 2))
                cases += 1
                # solver tolerance: squared lon/lat residual below 1e-7 deg^2; position within 0.05 cell
                if not (res <= 1e-7 and err <= 0.05):
                    failures.append(dict(grid=gi, subgrid=sub, what="ll2xy(xy2ll(P)) != P beyond the solver tolerance", max_position_error=err, max_sq_residual=res))
        samples.append(dict(grid="polar stereographic 120x90, 4 km", subgrids=3, positions="9x7 lattice + cell centres"))
    # sample2D corpus
    rng = np.random.default_rng(p.get("seed", 0))
    F = rng.normal(size=(6, 7))
    M = (rng.random((6, 7)) > 0.3).astype(float)
    X = np.array([-3.0, 0.0, 2.5, 5.999, 6.0, 3.3, 1.0])
    Y = np.array([1.0, 0.0, 4.999, 2.0, 2.0, 5.0, -0.1])
    outside = (X < 0) | (X >= 6) | (Y < 0) | (Y >= 5)
    for ov in (0.0, -1.0, 1e30, 7.5):
        for mask in (None, M):
            cases += 1
            r = sample2D(F, X, Y, mask=mask, undef_value=-99.0, outside_value=ov)
            if not np.all(r[outside] == ov):
                failures.append(dict(what="sample2D outside value not returned", outside_value=ov, got=r[outside].tolist()))
            Xi, Yi = X[~outside], Y[~outside]
            I, J = Xi.astype(int), Yi.astype(int)
            Pp, Qq = Xi - I, Yi - J
            W = [(1 - Pp) * (1 - Qq), (1 - Pp) * Qq, Pp * (1 - Qq), Pp * Qq]
            C = [(J, I), (J + 1, I), (J, I + 1), (J + 1, I + 1)]
            if mask is not None:
                W = [w * mask[c] for w, c in zip(W, C)]
            sw = sum(W)
            exp = np.where(sw == 0, -99.0, sum(w * F[c] for w, c in zip(W, C)) / np.where(sw == 0, 1.0, sw))
            if np.max(np.abs(r[~outside] - exp)) > 1e-12:
                failures.append(dict(what="sample2D inside value", mask=mask is not None))
    try:
        sample2D(F, X, Y)
        failures.append(dict(what="sample2D outside_value None did not raise"))
    except ValueError:
        pass
    cases += 1
    return dict(cases=cases, failures=failures[:10], samples=samples, bound=f"{len(grids)} polar-stereographic grids x 3 subgrids x ~130 positions, solver tolerance (squared lon/lat residual 1e-7 deg^2, position 0.05 cell); sample2D corpus with substitute values 0.0, -1, 1e30, 7.5")


def sample2d_replay(p):
    from ladim.sample import sample2D

    F = np.arange(12.0).reshape(3, 4) + 5.0
    ov = p.get("outside_value", 0.0)
    r = sample2D(F, np.array([-3.0, 1.5]), np.array([1.0, 1.0]), outside_value=ov)
    return dict(reproduced=bool(r[0] != ov), observed=float(r[0]), expected=ov)


def sampling_bounded(p):
    """Bounded stand-in for the end-to-end clause of C02: real Grid + Forcing on synthetic files; the sampled
    velocity of a field linear in x, y (global coordinates) is exact, independent of the loaded subgrid, the same
    for packed and float storage (to packing precision), zero through land faces; scalar = own cell value."""
    from ladim.ROMS import Forcing, Grid
    from ladim.state import State
    from ladim.timekeeper import TimeKeeper

    tier = p.get("tier", "quick")
    cases, failures, samples = 0, [], []
    rng = np.random.default_rng(p.get("seed", 0))
    with Scratch() as d:
        # u-point (j, i) sits at x = i + 1/2 ; v-point (j, i) at y = j + 1/2 (global grid coordinates)
        def u(t, tv, K, J, I):
            return 0.1 + 0.02 * (I + 0.5) - 0.03 * J + 0.05 * K

        def v(t, tv, K, J, I):
            return -0.2 + 0.01 * I + 0.04 * (J + 0.5) - 0.02 * K

        make_roms_file(d / "lin.nc", imax0=12, jmax0=10, kmax=4, times=[0, 7200], u=u, v=v, h=40.0, extra={"temp": lambda t, tv, K, J, I: 100.0 * K + 10.0 * J + I})
        make_roms_file(d / "packed.nc", imax0=12, jmax0=10, kmax=4, times=[0, 7200], u=u, v=v, h=40.0, extra={"temp": lambda t, tv, K, J, I: 100.0 * K + 10.0 * J + I}, scale_factor=dict(u=1e-4, v=1e-4, temp=0.5))
        mask = np.ones((10, 12))
        mask[4:6, 5] = 0
        make_roms_file(d / "land.nc", imax0=12, jmax0=10, kmax=4, times=[0, 7200], u=lambda *a: 1.0 + 0 * a[4], v=lambda *a: 1.0 + 0 * a[4], h=40.0, mask=mask)
        X = np.concatenate([rng.uniform(3.6, 7.4, 30), [4.0, 5.0, 4.5, 6.999999, 3.500001]])
        Y = np.concatenate([rng.uniform(3.6, 5.4, 30), [4.0, 4.5, 5.0, 5.499999, 3.500001]])
        Z = np.concatenate([rng.uniform(0, 40, 30), [0.0, 40.0, -3.0, 55.0, 20.0]])
        ref = {}
        for fname in ("lin.nc", "packed.nc"):
            for sub in (None, (2, 10, 3, 8), (3, 9, 2, 7)):  # sub-rectangles whose x and y offsets differ
                timer = TimeKeeper(start="2020-01-01T00:00:00", stop="2020-01-01T02:00:00", dt=600)
                grid = Grid(d / fname, subgrid=sub)
                state = State(instance_variables=dict(temp=float), default_values=dict(temp=0.0))
                state.append(X=X, Y=Y, Z=Z)
                modules = dict(time=timer, grid=grid, state=state)
                force = Forcing(modules=modules, filename=d / fname, extra_forcing=["temp"])
                timer.update()
                force.update()
                U, V = force.velocity(state.X, state.Y, state.Z)
                cases += 1
                # level weights of the unstretched 4-level column of depth 40: z_k = -40 + (k+1/2)*10
                zc = np.clip(-Z, -35.0, -5.0)
                kf = (zc + 35.0) / 10.0  # fractional level index
                eU = 0.1 + 0.02 * X - 0.03 * Y + 0.05 * kf
                eV = -0.2 + 0.01 * X + 0.04 * Y - 0.02 * kf
                tol = 2e-4 if fname == "packed.nc" else 2e-6
                if np.max(np.abs(U - eU)) > tol or np.max(np.abs(V - eV)) > tol:
                    failures.append(dict(file=fname, subgrid=sub, what="velocity is not the exact value of the linear field at the particle position", err=float(max(np.max(np.abs(U - eU)), np.max(np.abs(V - eV))))))
                T = np.asarray(state["temp"])
                lo = np.minimum(np.floor(kf + 1e-9), 2.0)  # the two bracketing levels (K-1, K), also below/above the level range
                hi = lo + 1.0
                okc = np.zeros(len(X), bool)
                # at an exact half-integer coordinate either neighbouring cell counts as the particle's own cell
                for I in (np.floor(X + 0.5).astype(int), np.ceil(X - 0.5).astype(int)):
                    for J in (np.floor(Y + 0.5).astype(int), np.ceil(Y - 0.5).astype(int)):
                        lev = (T - 10.0 * J - I) / 100.0
                        okc |= (np.abs(lev - np.round(lev)) < 1e-6) & (np.round(lev) >= lo - 1e-9) & (np.round(lev) <= hi + 1e-9)
                if not np.all(okc):
                    bad = np.where(~okc)[0][:3]
                    failures.append(dict(file=fname, subgrid=sub, what="scalar forcing is not the own cell's value at one of the two bracketing levels", X=X[bad].tolist(), Y=Y[bad].tolist(), Z=Z[bad].tolist(), temp=T[bad].tolist(), kf=kf[bad].tolist()))
                key = fname
                if key in ref and (np.max(np.abs(ref[key][0] - U)) > 1e-12 or np.max(np.abs(ref[key][1] - V)) > 1e-12):
                    failures.append(dict(file=fname, subgrid=sub, what="velocity depends on the loaded subgrid"))
                ref.setdefault(key, (U.copy(), V.copy()))
                force.close()
        # sloping bottom: the level bracket and weight come from the particle's OWN column, whatever the other
        # particles of the call are (all shallow / mixed) and whatever rectangle is loaded
        jj, ii = np.meshgrid(np.arange(10), np.arange(12), indexing="ij")
        hslope = 10.0 + 10.0 * ii + 3.0 * jj
        make_roms_file(d / "slope.nc", imax0=12, jmax0=10, kmax=5, times=[0, 7200], u=lambda t, tv, K, J, I: 0.1 * K + 0 * I, v=lambda t, tv, K, J, I: -0.05 * K + 0 * I, h=hslope)
        Xs = np.array([2.3, 3.1, 4.4, 6.2, 8.7, 2.6, 3.499, 5.0])
        Ys = np.array([4.6, 3.2, 5.4, 4.1, 6.3, 2.8, 4.45, 5.0])  # no half-integer ties (own cell ambiguous there)
        for zset, Zs in (("all shallow", np.full(8, 5.0)), ("mixed", np.array([5.0, 5.0, 40.0, 5.0, 70.0, 2.0, 12.0, 30.0])), ("surface", np.full(8, 0.5))):
            for sub in (None, (1, 11, 2, 9), (2, 10, 1, 8)):
                keep = np.ones(len(Xs), bool) if sub is None else (Xs > sub[0] + 0.6) & (Xs < sub[1] - 1.6) & (Ys > sub[2] + 0.6) & (Ys < sub[3] - 1.6)
                if not keep.any():
                    continue
                timer = TimeKeeper(start="2020-01-01T00:00:00", stop="2020-01-01T02:00:00", dt=600)
                grid = Grid(d / "slope.nc", subgrid=sub)
                state = State()
                state.append(X=Xs[keep], Y=Ys[keep], Z=Zs[keep])
                force = Forcing(modules=dict(time=timer, grid=grid, state=state), filename=d / "slope.nc")
                timer.update()
                force.update()
                U, V = force.velocity(state.X, state.Y, state.Z)
                cases += 1
                full = Grid(d / "slope.nc")
                for n, (x, y, z) in enumerate(zip(Xs[keep], Ys[keep], Zs[keep])):
                    col = np.asarray(full.z_r[:, int(round(y)) - full.j0, int(round(x)) - full.i0])  # own column (C12: increasing upwards)
                    zc = min(max(-z, col[0]), col[-1])
                    k = int(np.clip(np.searchsorted(col, zc), 1, len(col) - 1))
                    w = (zc - col[k - 1]) / (col[k] - col[k - 1])
                    kf = (k - 1) + w
                    if abs(U[n] - 0.1 * kf) > 2e-6 or abs(V[n] + 0.05 * kf) > 2e-6:
                        failures.append(dict(file="slope.nc", subgrid=sub, depths=zset, what="velocity is not interpolated between the two levels of the particle's own column that bracket its depth", X=float(x), Y=float(y), Z=float(z), got=float(U[n]), expected=float(0.1 * kf)))
                        break
                force.close()
        # land faces
        timer = TimeKeeper(start="2020-01-01T00:00:00", stop="2020-01-01T02:00:00", dt=600)
        grid = Grid(d / "land.nc")
        state = State()
        state.append(X=np.array([4.5, 5.5, 4.5, 7.0]), Y=np.array([4.0, 5.0, 6.0, 4.5]), Z=np.full(4, 10.0))
        force = Forcing(modules=dict(time=timer, grid=grid, state=state), filename=d / "land.nc")
        timer.update()
        force.update()
        U, V = force.velocity(state.X, state.Y, state.Z)
        cases += 1
        # X=4.5,Y=4 lies on the u-face between cell (4,4) sea and (4,5) land: u must be 0 there
        if abs(U[0]) > 1e-12 or abs(U[1]) > 1e-12:
            failures.append(dict(what="non-zero velocity through a land face", U=U.tolist()))
        if abs(U[3] - 1.0) > 1e-6:
            failures.append(dict(what="velocity in open water altered by the mask", U=U.tolist()))
        force.close()
        samples.append(dict(field="u = 0.1 + 0.02 x - 0.03 y + 0.05 k", subgrids=3, storage=["float", "packed"], positions=len(X)))
    return dict(cases=cases, failures=failures[:10], samples=samples, bound="2 storage kinds x 3 subgrids x 35 positions (incl. cell edges/corners, above surface, below bottom); one land mask; sloping bottom x 3 depth sets x 3 subgrids")
