"""Synthetic ROMS grid/forcing files and small real-object builders for replays and bounded checks."""
from __future__ import annotations

import os
import shutil
import tempfile
from pathlib import Path

import numpy as np
from netCDF4 import Dataset


class Scratch:
    """A scratch directory outside /repo and /verif/<tracked>, removed on exit."""

    def __enter__(self):
        base = os.environ.get("PYVC_SCRATCH") or tempfile.gettempdir()
        self.dir = Path(tempfile.mkdtemp(prefix="pyvc_", dir=base))
        return self.dir

    def __exit__(self, *a):
        shutil.rmtree(self.dir, ignore_errors=True)


def s_levels(kmax, h, hc=0.0):
    """Cs_r, Cs_w for an unstretched grid (C == S)."""
    S_r = -1.0 + (0.5 + np.arange(kmax)) / kmax
    S_w = np.linspace(-1.0, 0.0, kmax + 1)
    return S_r, S_w


def make_roms_file(
    path,
    imax0=8,
    jmax0=7,
    kmax=3,
    times=(0,),
    units="seconds since 2020-01-01 00:00:00",
    h=None,
    mask=None,
    pm=None,
    pn=None,
    u=None,
    v=None,
    extra=None,
    lon=None,
    lat=None,
    scale_factor=None,
    grid_only=False,
    vtransform=None,
):
    """Write a minimal ROMS file. u(t,k,j,i) shape (nt,kmax,jmax0,imax0-1); v (nt,kmax,jmax0-1,imax0).

    u, v, extra[name] may be callables f(t_index, time_value, k, j, i) evaluated on index grids,
    arrays, or None (zeros)."""
    nt = len(times)
    with Dataset(path, "w", format="NETCDF4") as nc:
        nc.createDimension("xi_rho", imax0)
        nc.createDimension("eta_rho", jmax0)
        nc.createDimension("xi_u", imax0 - 1)
        nc.createDimension("eta_u", jmax0)
        nc.createDimension("xi_v", imax0)
        nc.createDimension("eta_v", jmax0 - 1)
        nc.createDimension("s_rho", kmax)
        nc.createDimension("s_w", kmax + 1)
        nc.createDimension("ocean_time", None)
        def var2(name, val, default):
            x = nc.createVariable(name, "f8", ("eta_rho", "xi_rho"))
            arr = default if val is None else val
            x[:, :] = np.broadcast_to(np.asarray(arr, float), (jmax0, imax0))

        var2("h", h, 100.0)
        var2("mask_rho", mask, 1.0)
        var2("pm", pm, 1.0 / 1000.0)
        var2("pn", pn, 1.0 / 1000.0)
        jj, ii = np.meshgrid(np.arange(jmax0), np.arange(imax0), indexing="ij")
        var2("lon_rho", lon if lon is not None else 5.0 + 0.02 * ii + 0.001 * jj, None)
        var2("lat_rho", lat if lat is not None else 60.0 + 0.01 * jj - 0.0005 * ii, None)
        var2("angle", None, 0.0)
        x = nc.createVariable("hc", "f8", ())
        x[...] = 0.0
        S_r, S_w = s_levels(kmax, 1.0)
        x = nc.createVariable("Cs_r", "f8", ("s_rho",))
        x[:] = S_r
        x = nc.createVariable("Cs_w", "f8", ("s_w",))
        x[:] = S_w
        if vtransform is not None:
            x = nc.createVariable("Vtransform", "i4", ())
            x[...] = vtransform
        x = nc.createVariable("ocean_time", "f8", ("ocean_time",))
        x.units = units
        x[:] = np.asarray(times, float)
        if grid_only:
            return

        def field(name, dims, shape, val):
            if scale_factor and name in scale_factor:
                x = nc.createVariable(name, "i2", ("ocean_time", *dims))
                x.scale_factor = np.float32(scale_factor[name])
                x.add_offset = np.float32(0.0)
                x.set_auto_maskandscale(False)
            else:
                x = nc.createVariable(name, "f4", ("ocean_time", *dims))
            K, J, I = np.meshgrid(np.arange(shape[0]), np.arange(shape[1]), np.arange(shape[2]), indexing="ij")
            for t in range(nt):
                if val is None:
                    a = np.zeros(shape)
                elif callable(val):
                    a = np.broadcast_to(np.asarray(val(t, times[t], K, J, I), float), shape)
                else:
                    a = np.asarray(val, float)[t]
                if scale_factor and name in scale_factor:
                    a = np.round(a / scale_factor[name]).astype("i2")
                x[t, :, :, :] = a

        field("u", ("s_rho", "eta_u", "xi_u"), (kmax, jmax0, imax0 - 1), u)
        field("v", ("s_rho", "eta_v", "xi_v"), (kmax, jmax0 - 1, imax0), v)
        for name, val in (extra or {}).items():
            field(name, ("s_rho", "eta_rho", "xi_rho"), (kmax, jmax0, imax0), val)


class StubTimer:
    """Just enough of TimeKeeper for module constructors that only read dt."""

    def __init__(self, dt=600, time_reversal=False):
        self.dt = np.timedelta64(int(dt), "s")
        self.time_reversal = time_reversal
        self.step = 0
