"""Native replays / bounded stand-ins for ladim/timekeeper.py."""
from __future__ import annotations

import datetime
import itertools

import numpy as np

EPOCH = np.datetime64("2020-01-01T00:00:00", "s")


def _t(sec):
    return EPOCH + np.timedelta64(int(sec), "s")


def _mk(start, stop, dt, rev, ref=None):
    from ladim.timekeeper import TimeKeeper

    return TimeKeeper(start=_t(start), stop=_t(stop), dt=int(dt), reference=None if ref is None else _t(ref), time_reversal=bool(rev))


def _sec(t):
    return int((np.datetime64(t, "s") - EPOCH) / np.timedelta64(1, "s"))


def clock_violations(start, stop, dt, rev, ref, nsteps, steps):
    """All C13 clock clauses on a real TimeKeeper; returns a list of failures."""
    fails = []
    tk = _mk(start, stop, dt, rev, ref)
    sg = -1 if rev else 1
    if tk.Nsteps != abs(stop - start) // dt:
        fails.append(dict(clause="Nsteps", observed=int(tk.Nsteps), expected=abs(stop - start) // dt))
    refsec = ref if ref is not None else min(start, stop)
    for n in range(nsteps):
        tk.update()
        if _sec(tk.time) != start + sg * n * dt or tk.step != n:
            fails.append(dict(clause="clock at step n", n=n, observed=_sec(tk.time), expected=start + sg * n * dt))
            break
        if abs(tk.nctime() - (start + sg * n * dt - refsec)) > 1e-9:
            fails.append(dict(clause="nctime at step n", n=n, observed=tk.nctime(), expected=start + sg * n * dt - refsec))
            break
    for n in steps:
        exp = start + sg * n * dt
        if _sec(tk.step2time(n)) != exp:
            fails.append(dict(clause="step2time", n=n, observed=_sec(tk.step2time(n)), expected=exp))
        if tk.time2step(_t(exp)) != n:
            fails.append(dict(clause="time2step(step2time(n))", n=n, observed=int(tk.time2step(_t(exp))), expected=n))
        if tk.step2isotime(n) != str(_t(exp)):
            fails.append(dict(clause="step2isotime", n=n, observed=tk.step2isotime(n), expected=str(_t(exp))))
        for unit, usec in (("s", 1), ("m", 60), ("h", 3600)):
            if abs(tk.step2nctime(n, unit) - (exp - refsec) / usec) > 1e-9:
                fails.append(dict(clause=f"step2nctime unit {unit}", n=n, observed=tk.step2nctime(n, unit), expected=(exp - refsec) / usec))
    units = tk.cf_units("s")
    if units != f"seconds since {_t(refsec)}":
        fails.append(dict(clause="cf_units", observed=units, expected=f"seconds since {_t(refsec)}"))
    return fails


def timekeeper_replay(p):
    fails = clock_violations(p["start"], p["stop"], p["dt"], p["rev"], p.get("ref"), p.get("nsteps", 3), p.get("steps", [-2, -1, 0, 1, 2]))
    return dict(reproduced=bool(fails), failures=fails[:5])


def timekeeper_init_replay(p):
    """Direction check / attributes of __init__ for one (start, stop, dt, reversal)."""
    try:
        tk = _mk(p["start"], p["stop"], p["dt"], p["rev"], p.get("ref"))
    except BaseException as e:  # noqa: BLE001
        from .refusal import deliberate

        if not deliberate(e):
            raise
        expected_exit = bool(p["rev"]) != (p["stop"] < p["start"])
        return dict(reproduced=not expected_exit, observed="SystemExit", expected="SystemExit" if expected_exit else "normal return")
    sg = -1 if p["rev"] else 1
    fails = []
    if bool(p["rev"]) != (p["stop"] < p["start"]):
        fails.append("accepted a stop on the wrong side of start")
    if _sec(tk.time) != p["start"] - sg * p["dt"] or tk.step != -1:
        fails.append(dict(clause="clock at step -1", observed=_sec(tk.time), expected=p["start"] - sg * p["dt"]))
    return dict(reproduced=bool(fails), failures=fails)


def timekeeper_bounded(p):
    """Bounded stand-in: the clock clauses on a lattice, and every period spelling incl. the ISO-8601 string branch."""
    from ladim.timekeeper import duration2iso, normalize_period

    thorough = p.get("tier") == "thorough"
    cases, failures, samples = 0, [], []
    lat = [0, 7, 60, 3600, 86400 + 30] if not thorough else [0, 1, 7, 59, 60, 61, 3599, 3600, 86399, 86400, 86430, 2 * 86400]
    dts = [1, 7, 60, 600, 3600] if not thorough else [1, 2, 7, 59, 60, 600, 3599, 3600, 86400]
    for start, stop in itertools.product(lat, lat):
        if start == stop:
            continue
        for dt in dts:
            for ref in (None, 0, 40):
                rev = stop < start
                cases += 1
                f = clock_violations(start, stop, dt, rev, ref, min(4, abs(stop - start) // dt), [-3, -1, 0, 1, 5])
                if f:
                    failures.append(dict(start=start, stop=stop, dt=dt, rev=rev, ref=ref, first=f[0]))
                # wrong direction must be refused
                try:
                    _mk(start, stop, dt, not rev, ref)
                    failures.append(dict(start=start, stop=stop, dt=dt, rev=not rev, clause="wrong direction accepted"))
                except BaseException as e:  # noqa: BLE001
                    from .refusal import deliberate

                    if not deliberate(e):
                        failures.append(dict(start=start, stop=stop, dt=dt, rev=not rev, clause=f"wrong direction: crashed with {type(e).__name__} instead of refusing"))
    samples.append(dict(start=lat[1], stop=lat[3], dt=dts[1], clauses="clock, nctime, step2time/time2step inverse, step2isotime, step2nctime s/m/h, cf_units"))
    # period spellings
    vals = [0, 1, 9, 10, 59, 60, 99, 100, 999, 1000, 86399, 86400, 10**5, 10**6]
    if not thorough:
        vals = [0, 1, 59, 60, 100, 1000, 86400]
    S = np.timedelta64(1, "s")
    for v in vals:
        cases += 1
        for spelled, exp in (
            (v, v),
            (np.timedelta64(v, "s"), v),
            (datetime.timedelta(seconds=v), v),
            ([v, "s"], v),
            ([v, "m"], 60 * v),
            ([v, "h"], 3600 * v),
        ):
            got = normalize_period(spelled)
            if int(got / S) != exp or got.dtype != np.dtype("m8[s]"):
                failures.append(dict(clause="period spelling", spelled=str(spelled), observed=str(got), expected=exp))
    for h, m, s in itertools.product([None, *vals], repeat=3):
        if h is None and m is None and s is None:
            continue
        cases += 1
        txt = "PT" + (f"{h}H" if h is not None else "") + (f"{m}M" if m is not None else "") + (f"{s}S" if s is not None else "")
        exp = 3600 * (h or 0) + 60 * (m or 0) + (s or 0)
        try:
            got = int(normalize_period(txt) / S)
        except Exception as e:  # noqa: BLE001
            got = f"{type(e).__name__}"
        if got != exp:
            failures.append(dict(clause="ISO-8601 period", spelled=txt, observed=got, expected=exp))
    samples.append(dict(spelled="PT1H30M", expected=5400))
    for bad in ["", "PT", "P1D", "PT1D", "1H", "PT-1S", "PT1.5S", "PT1S1H", "PT 1S", "pt1s", "PT1H2", "PTS", None, 1.5, ["x", "s"], [1], (1, "s")]:
        cases += 1
        try:
            r = normalize_period(bad)
            # a tuple is not a documented spelling; [1.5,'s'] etc. fall through to ValueError
            failures.append(dict(clause="malformed period accepted", spelled=repr(bad), observed=str(r)))
        except ValueError:
            pass
        except Exception as e:  # noqa: BLE001
            failures.append(dict(clause="malformed period: wrong exception", spelled=repr(bad), observed=type(e).__name__))
    # duration2iso round trip for whole seconds below one day
    for v in [1, 59, 60, 61, 3599, 3600, 3661, 86399]:
        cases += 1
        back = int(normalize_period(duration2iso(np.timedelta64(v, "s"))) / S)
        if back != v:
            failures.append(dict(clause="duration2iso round trip", seconds=v, iso=duration2iso(np.timedelta64(v, "s")), observed=back))
    return dict(cases=cases, failures=failures[:20], samples=samples, bound=f"times on lattice {lat}, dt in {dts}, steps -3..5; H/M/S each absent or in {vals}")
