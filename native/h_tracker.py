"""Native replays / bounded checks for ladim/tracker.py (real numba kernels, real Tracker)."""
from __future__ import annotations

import numpy as np

from native.synth import StubTimer

TOL = 1e-9


def rkstep(p):
    """Replay: partial RK step against X + frac*U*dtdx."""
    from ladim.tracker import RKstep

    X, Y, U, V = (np.array(p[k], float) for k in ("X", "Y", "U", "V"))
    dtdx, dtdy = np.array(p["dtdx"], float), np.array(p["dtdy"], float)
    frac = float(p["frac"])
    X0, Y0 = X.copy(), Y.copy()
    Xp, Yp = RKstep(X, Y, U, V, frac, dtdx, dtdy)
    ex, ey = X0 + frac * U * dtdx, Y0 + frac * V * dtdy
    bad = bool(np.max(np.abs(Xp - ex), initial=0) > TOL or np.max(np.abs(Yp - ey), initial=0) > TOL)
    changed = bool(np.any(X != X0) or np.any(Y != Y0))
    return dict(reproduced=bad or changed, observed=[Xp.tolist(), Yp.tolist()], expected=[ex.tolist(), ey.tolist()], inputs_mutated=changed)


def clip(p):
    from ladim.tracker import clip as rclip

    X, Y = np.array(p["X"], float), np.array(p["Y"], float)
    ex = np.maximum(np.minimum(X, p["xmax"]), p["xmin"])
    ey = np.maximum(np.minimum(Y, p["ymax"]), p["ymin"])
    rclip(X, Y, p["xmin"], p["xmax"], p["ymin"], p["ymax"])
    bad = bool(np.any(np.abs(X - ex) > TOL) or np.any(np.abs(Y - ey) > TOL))
    return dict(reproduced=bad, observed=[X.tolist(), Y.tolist()], expected=[ex.tolist(), ey.tolist()])


class TableForce:
    """Velocity defined by the solver's table of vel(x, y, z, frac) values (0 elsewhere), or analytic."""

    def __init__(self, tabU, tabV, lim=None, analytic=None):
        self.tabU, self.tabV = tabU, tabV
        self.lim = lim
        self.samples = []
        self.analytic = analytic
        self.variables = {}

    def _look(self, tab, x, y, z, f):
        for args, val in tab:
            if abs(args[0] - x) < 1e-7 and abs(args[1] - y) < 1e-7 and abs(args[2] - z) < 1e-7 and abs(args[3] - f) < 1e-7:
                return val
        return 0.0

    def velocity(self, X, Y, Z, fractional_step=0, method="bilinear"):
        self.samples.append((np.array(X, float).copy(), np.array(Y, float).copy(), float(fractional_step)))
        if self.analytic:
            return self.analytic(np.asarray(X, float), np.asarray(Y, float), float(fractional_step))
        U = np.array([self._look(self.tabU, x, y, z, float(fractional_step)) for x, y, z in zip(X, Y, Z)])
        V = np.array([self._look(self.tabV, x, y, z, float(fractional_step)) for x, y, z in zip(X, Y, Z)])
        return U, V


TABLEAUX = {
    "EF": ([[]], [1.0], [0.0]),
    "RK2": ([[], [0.5]], [0.0, 1.0], [0.0, 0.5]),
    "RK4": ([[], [0.5], [0.0, 0.5], [0.0, 0.0, 1.0]], [1 / 6, 1 / 3, 1 / 3, 1 / 6], [0.0, 0.5, 0.5, 1.0]),
}


def tableau_velocity(scheme, force, X, Y, Z, dtdx, dtdy, lim):
    A, b, c = TABLEAUX[scheme]
    ku, kv = [], []
    for s in range(len(b)):
        if s == 0:
            xs, ys = X, Y
        else:
            xs = X + dtdx * sum(A[s][r] * ku[r] for r in range(s))
            ys = Y + dtdy * sum(A[s][r] * kv[r] for r in range(s))
            xs = np.maximum(np.minimum(xs, lim[1]), lim[0])
            ys = np.maximum(np.minimum(ys, lim[3]), lim[2])
        u, v = force.velocity(xs, ys, Z, c[s])
        ku.append(np.asarray(u, float))
        kv.append(np.asarray(v, float))
    return sum(bb * k for bb, k in zip(b, ku)), sum(bb * k for bb, k in zip(b, kv))


def _tracker(scheme, dt):
    from ladim.tracker import Tracker

    return Tracker(advection=scheme, modules={"time": StubTimer(dt)})


def scheme(p):
    """Replay of EF/RK2/RK4 on the real Tracker: tableau velocity, sampled positions inside the clipped domain, inputs intact."""
    sch = p["scheme"]
    trk = _tracker(sch, p["dt"])
    X, Y, Z = (np.array(p[k], float) for k in ("X", "Y", "Z"))
    trk.dx, trk.dy = np.array(p["dx"], float), np.array(p["dy"], float)
    lim = [p["xmin"], p["xmax"], p["ymin"], p["ymax"]]
    trk.xmin, trk.xmax, trk.ymin, trk.ymax = lim
    force = TableForce(p.get("velU", []), p.get("velV", []))
    X0, Y0 = X.copy(), Y.copy()
    U, V = getattr(trk, sch)(X, Y, Z, force)
    ref = TableForce(p.get("velU", []), p.get("velV", []))
    eU, eV = tableau_velocity(sch, ref, X0, Y0, Z, p["dt"] / trk.dx, p["dt"] / trk.dy, lim)
    mism = bool(np.max(np.abs(np.asarray(U) - eU), initial=0) > TOL or np.max(np.abs(np.asarray(V) - eV), initial=0) > TOL)
    outside = False
    for xs, ys, _f in force.samples:
        if np.any(xs < lim[0] - 1e-12) or np.any(xs > lim[1] + 1e-12) or np.any(ys < lim[2] - 1e-12) or np.any(ys > lim[3] + 1e-12):
            outside = True
    mutated = bool(np.any(X != X0) or np.any(Y != Y0))
    what = p.get("what", "any")
    rep = {"result": mism, "domain": outside, "frame": mutated, "any": mism or outside or mutated}[what]
    return dict(reproduced=bool(rep), mismatch=mism, sampled_outside_domain=outside, inputs_mutated=mutated, observed=[np.asarray(U).tolist(), np.asarray(V).tolist()], expected=[eU.tolist(), eV.tolist()], sampled=[(a.tolist(), b.tolist(), f) for a, b, f in force.samples])


def scheme_order(p):
    """Bounded stand-in for the limit statement of C01: observed convergence order of the real Tracker
    schemes in a smooth time-dependent analytic field (solid rotation with time-varying rate)."""
    tier = p.get("tier", "quick")
    cases, failures, samples = 0, [], []

    def field(X, Y, tfrac, t0, dt):
        t = t0 + tfrac * dt
        w = 1e-4 * (1.0 + 0.5 * np.sin(2e-4 * t))
        return -w * (Y - 50.0) * 1000.0, w * (X - 50.0) * 1000.0  # m/s on a 1000 m grid

    def exact(x0, y0, T):
        # theta(t) = integral of w
        th = 1e-4 * (T + 0.5 * (1 - np.cos(2e-4 * T)) / 2e-4)
        dx, dy = x0 - 50.0, y0 - 50.0
        return 50 + dx * np.cos(th) - dy * np.sin(th), 50 + dx * np.sin(th) + dy * np.cos(th)

    T = 14400.0
    for sch, order in (("EF", 1), ("RK2", 2), ("RK4", 4)):
        errs = []
        for nsteps in (8, 16, 32):
            dt = T / nsteps
            trk = _tracker(sch, dt)
            X, Y, Z = np.array([60.0, 42.0]), np.array([50.0, 57.0]), np.array([5.0, 5.0])
            trk.xmin, trk.xmax, trk.ymin, trk.ymax = 1.01, 98.99, 1.01, 98.99
            for n in range(nsteps):
                trk.dx = trk.dy = np.full(2, 1000.0)
                t0 = n * dt
                force = TableForce([], [], analytic=lambda x, y, f, t0=t0, dt=dt: field(x, y, f, t0, dt))
                U, V = getattr(trk, sch)(X, Y, Z, force)
                X = X + np.asarray(U) * dt / 1000.0
                Y = Y + np.asarray(V) * dt / 1000.0
            ex, ey = exact(np.array([60.0, 42.0]), np.array([50.0, 57.0]), T)
            errs.append(float(np.max(np.hypot(X - ex, Y - ey))))
        rates = [float(np.log2(errs[i] / errs[i + 1])) for i in range(2)]
        cases += 1
        samples.append(dict(scheme=sch, errors=errs, observed_order=rates))
        if not all(r > order - 0.35 for r in rates):
            failures.append(dict(scheme=sch, expected_order=order, observed_order=rates, errors=errs))
    # analytic helpers
    from ladim.analytical import get_velocity1, get_velocity2, get_velocity4

    class St:
        pass

    def samp(x, y):
        return -1e-4 * (y - 50.0), 1e-4 * (x - 50.0)

    for fn, order, kw in ((get_velocity1, 1, {}), (get_velocity2, 2, dict(s=1.0)), (get_velocity2, 2, dict(s=0.5)), (get_velocity2, 2, dict(s=2 / 3)), (get_velocity4, 4, {})):
        errs = []
        for nsteps in (8, 16, 32):
            dt = T / nsteps
            st = St()
            st.X, st.Y = np.array([60.0]), np.array([50.0])
            for n in range(nsteps):
                vel = fn(st, samp, dt, **kw) if fn is not get_velocity1 else fn(st, samp)
                st.X = st.X + dt * vel.U
                st.Y = st.Y + dt * vel.V
            th = 1e-4 * T
            ex, ey = 50 + 10 * np.cos(th), 50 + 10 * np.sin(th)
            errs.append(float(np.hypot(st.X[0] - ex, st.Y[0] - ey)))
        rates = [float(np.log2(errs[i] / errs[i + 1])) for i in range(2)]
        cases += 1
        samples.append(dict(helper=fn.__name__, kw=kw, errors=errs, observed_order=rates))
        if not all(r > order - 0.35 for r in rates):
            failures.append(dict(helper=fn.__name__, kw=kw, expected_order=order, observed_order=rates))
    return dict(cases=cases, failures=failures, samples=samples, bound="3 schemes + 5 analytic helpers x step counts 8,16,32 over 4 h in a time-dependent rotation; order tolerance 0.35")


# ---------------------------------------------------------------- whole-step bounded checks


class ArrayGrid:
    """A grid with the BaseGrid interface over given arrays (used where no NetCDF file is needed)."""

    def __init__(self, M, H=None, dx=None, dy=None, i0=1, j0=1):
        self.M = np.asarray(M, int)
        self.jmax, self.imax = self.M.shape
        self.i0, self.j0 = i0, j0
        self.H = np.full(self.M.shape, 50.0) if H is None else np.asarray(H, float)
        self.dx = np.full(self.M.shape, 1000.0) if dx is None else np.asarray(dx, float)
        self.dy = np.full(self.M.shape, 1000.0) if dy is None else np.asarray(dy, float)
        self.xmin, self.xmax = float(i0), float(i0 + self.imax - 1)
        self.ymin, self.ymax = float(j0), float(j0 + self.jmax - 1)

    def _ij(self, X, Y):
        return Y.round().astype(int) - self.j0, X.round().astype(int) - self.i0

    def metric(self, X, Y):
        J, I = self._ij(X, Y)
        return self.dx[J, I], self.dy[J, I]

    def depth(self, X, Y):
        J, I = self._ij(X, Y)
        return self.H[J, I]

    def ingrid(self, X, Y):
        return (self.xmin + 0.5 < X) & (X < self.xmax - 0.5) & (self.ymin + 0.5 < Y) & (Y < self.ymax - 0.5)

    def atsea(self, X, Y):
        J, I = self._ij(X, Y)
        return self.M[J, I] > 0


def _real_grid(M, H, pm, pn, d):
    """The real ROMS Grid on a synthetic file carrying the given mask/depth/metric."""
    from ladim.ROMS import Grid
    from native.synth import make_roms_file

    jm, im = np.asarray(M).shape
    make_roms_file(d / "grid.nc", imax0=im, jmax0=jm, kmax=3, mask=M, h=H, pm=pm, pn=pn, grid_only=True)
    return Grid(d / "grid.nc")


def tracker_step_bounded(p):
    """Run-time contract of one tracking step (C09, C15, C01.6) on the real Tracker + real ROMS Grid over
    random coastlines (islands, one-cell channels), strong flow, all schemes, diffusion on/off."""
    from ladim.state import State
    from ladim.tracker import Tracker
    from native.synth import Scratch

    tier = p.get("tier", "quick")
    rng = np.random.default_rng(p.get("seed", 0) + 17)
    nscen = 24 if tier == "quick" else 200
    cases, failures, samples = 0, [], []
    with Scratch() as d:
        for sc in range(nscen):
            jm, im = int(rng.integers(6, 12)), int(rng.integers(6, 12))
            M = (rng.random((jm, im)) > 0.25).astype(float)
            if sc % 3 == 0:  # one-cell channel
                M[:, :] = 0
                M[jm // 2, :] = 1
                M[:, im // 2] = 1
            H = rng.uniform(5, 200, (jm, im))
            pm, pn = 1.0 / rng.uniform(400, 1200, (jm, im)), 1.0 / rng.uniform(400, 1200, (jm, im))
            grid = _real_grid(M, H, pm, pn, d)
            sea = np.argwhere(M[2:-2, 2:-2] > 0) + 2
            if len(sea) == 0:
                continue
            for sch in ("", "EF", "RK2", "RK4"):
                for diff, vdiff, vadv in ((0.0, 0.0, False), (50.0, 1e-4, True)):
                    n = 12
                    pick = sea[rng.integers(0, len(sea), n)]
                    X0 = pick[:, 1] + rng.uniform(-0.49, 0.49, n)
                    Y0 = pick[:, 0] + rng.uniform(-0.49, 0.49, n)
                    # boundary values: every second particle starts exactly on a cell face (half-integer coordinate,
                    # where round-half-even and floor(x + 0.5) name different cells); kept only if that is a sea position
                    X0[::4] = pick[::4, 1] + rng.choice([-0.5, 0.5], len(X0[::4]))
                    Y0[2::4] = pick[2::4, 0] + rng.choice([-0.5, 0.5], len(Y0[2::4]))
                    ok = grid.ingrid(X0, Y0) & grid.atsea(X0, Y0)
                    X0, Y0 = X0[ok], Y0[ok]
                    n = len(X0)
                    if n == 0:
                        continue
                    state = State()
                    H0 = grid.depth(X0, Y0)
                    state.append(X=X0, Y=Y0, Z=rng.uniform(0, 1, n) * H0)
                    state["active"] = rng.random(n) > 0.2
                    speed = rng.choice([0.1, 2.0, 20.0])
                    ang = rng.uniform(0, 2 * np.pi)

                    def vel(x, y, f, speed=speed, ang=ang):
                        return speed * np.cos(ang + 0.3 * x) * np.ones_like(x), speed * np.sin(ang + 0.2 * y) * np.ones_like(y)

                    force = TableForce([], [], analytic=vel)
                    force.variables = {"w": rng.uniform(-0.001, 0.001, n)}
                    modules = dict(state=state, grid=grid, forcing=force, time=StubTimer(600))
                    trk = Tracker(advection=sch, diffusion=diff, vertdiff=vdiff, vertical_advection=vadv, modules=modules)
                    trk.rng = np.random.default_rng(int(rng.integers(1 << 30)))
                    for _step in range(3):
                        Xb, Yb, Zb = state.X.copy(), state.Y.copy(), state.Z.copy()
                        ab, acb = state.alive.copy(), state.active.copy()
                        hb = grid.depth(Xb, Yb)
                        force.variables["w"] = rng.uniform(-0.001, 0.001, len(state))
                        cases += 1
                        try:
                            trk.update()
                        except Exception as e:  # noqa: BLE001  (the code under test failed: a finding, not a harness crash)
                            failures.append(dict(scenario=sc, scheme=sch, diffusion=diff, step=_step, what=f"Tracker.update raised {type(e).__name__}: {str(e)[:100]}"))
                            break
                        X, Y, Z = state.X, state.Y, state.Z
                        f = None
                        if np.any(state.alive & ~ab):
                            f = "a dead particle became alive"
                        elif not np.all(grid.ingrid(X, Y)):
                            f = "particle outside the valid region after the step"
                        elif not np.all(grid.atsea(X, Y)):
                            f = "particle on land after the step"
                        elif not np.all(np.isfinite(X) & np.isfinite(Y)):
                            f = "non-finite position"
                        elif np.any((~acb) & ((X != Xb) | (Y != Yb))):
                            f = "inactive particle moved"
                        elif (vdiff > 0 or vadv) and np.any(((Z < -1e-9) | (Z > hb + 1e-9)) & (Zb >= 0) & (Zb <= hb)):
                            f = "depth outside [0, h(start cell)]"
                        elif not (vdiff > 0 or vadv) and np.any(Z != Zb):
                            f = "depth changed with vertical switches off"
                        if f:
                            failures.append(dict(scenario=sc, scheme=sch, diffusion=diff, step=_step, what=f))
                            break
            if sc < 2:
                samples.append(dict(scenario=sc, shape=[jm, im], sea_cells=int(M.sum())))
    return dict(cases=cases, failures=failures[:10], samples=samples, bound=f"{nscen} random coastlines (6..11 cells, 1/3 one-cell channels) x 4 schemes x diffusion off/on x 3 steps, 12 particles")


def tracker_history_bounded(p):
    """C01/C15/C05 over HISTORIES of tracking steps (diffusion off, so every step is deterministic): the real Tracker and
    State on a grid whose metric and depth differ from cell to cell; several consecutive updates without a change of
    the particle set, a step where one particle is replaced by another (same count), a release. After EVERY update the
    new state is compared with an independent evaluation of the selected scheme from the state before it (metric and
    depth of the start cell), so a value cached from an earlier call shows up."""
    from ladim.state import State
    from ladim.tracker import Tracker

    tier = p.get("tier", "quick")
    rng = np.random.default_rng(p.get("seed", 0) + 5)
    cases, failures, samples = 0, [], []
    jm, im = 30, 34
    jj, ii = np.meshgrid(np.arange(jm), np.arange(im), indexing="ij")
    dxa = 600.0 + 25.0 * ii + 7.0 * jj
    dya = 900.0 - 11.0 * ii + 13.0 * jj
    H = 15.0 + 6.0 * ii + 2.5 * jj
    grid = ArrayGrid(np.ones((jm, im)), H=H, dx=dxa, dy=dya)
    lim = [grid.xmin + 0.01, grid.xmax - 0.01, grid.ymin + 0.01, grid.ymax - 0.01]
    dt = 600

    def vel(x, y, f):
        return 0.35 + 0.02 * (x - 15) - 0.015 * (y - 12) + 0.1 * f, -0.25 + 0.01 * (x - 15) + 0.02 * (y - 12) - 0.05 * f

    nrep = 2 if tier == "quick" else 8
    for sch in ("", "EF", "RK2", "RK4"):
        for vadv in (False, True):
            for rep in range(nrep):
                n = 6
                state = State()
                X0, Y0 = rng.uniform(8, 22, n), rng.uniform(8, 20, n)
                state.append(X=X0, Y=Y0, Z=rng.uniform(0.2, 0.8, n) * grid.depth(X0, Y0))
                force = TableForce([], [], analytic=vel)
                force.variables = {"w": np.zeros(n)}
                trk = Tracker(advection=sch, diffusion=0.0, vertdiff=0.0, vertical_advection=vadv, modules=dict(state=state, grid=grid, forcing=force, time=StubTimer(dt)))
                script = ["step", "step", "swap", "step", "release", "step", "swap", "step"]
                bad = None
                for k, op in enumerate(script):
                    if op == "swap":  # one particle dies and is removed, another one is released: same count
                        state.alive[int(rng.integers(0, len(state)))] = False
                        state.compactify()
                        x, y = rng.uniform(8, 22, 1), rng.uniform(8, 20, 1)
                        state.append(X=x, Y=y, Z=0.9 * grid.depth(x, y))
                        continue
                    if op == "release":
                        x, y = rng.uniform(8, 22, 2), rng.uniform(8, 20, 2)
                        state.append(X=x, Y=y, Z=0.5 * grid.depth(x, y))
                        continue
                    Xb, Yb, Zb = state.X.copy(), state.Y.copy(), state.Z.copy()
                    w = rng.uniform(-0.03, 0.03, len(state))  # up to 18 m per step: reflections happen in the shallow cells
                    force.variables["w"] = w
                    cases += 1
                    try:
                        trk.update()
                    except Exception as e:  # noqa: BLE001
                        bad = f"Tracker.update raised {type(e).__name__}: {str(e)[:100]}"
                        break
                    dxs, dys = grid.metric(Xb, Yb)
                    if sch:
                        U, V = tableau_velocity(sch, TableForce([], [], analytic=vel), Xb, Yb, Zb, dt / dxs, dt / dys, lim)
                    else:
                        U, V = np.zeros(len(Xb)), np.zeros(len(Xb))
                    eX, eY = Xb + U * dt / dxs, Yb + V * dt / dys
                    eZ = Zb.copy()
                    if vadv:
                        h = grid.depth(Xb, Yb)
                        eZ = Zb + w * dt
                        eZ = np.where(eZ < 0, -eZ, eZ)
                        eZ = np.where(eZ > h, 2 * h - eZ, eZ)
                    dev = max(float(np.max(np.abs(state.X - eX))), float(np.max(np.abs(state.Y - eY))))
                    dz = float(np.max(np.abs(state.Z - eZ)))
                    if dev > 1e-9 or dz > 1e-9:
                        bad = f"update #{k} of the history {script}: position differs from the scheme applied to the state before it by {dev:.3g} cells, depth by {dz:.3g} m"
                        break
                if bad:
                    failures.append(dict(scheme=sch or "none", vertical_advection=vadv, what=bad))
    samples.append(dict(grid="dx = 600 + 25 i + 7 j, dy = 900 - 11 i + 13 j, h = 15 + 6 i + 2.5 j", history=["step", "step", "swap", "step", "release", "step", "swap", "step"]))
    return dict(cases=cases, failures=failures[:10], samples=samples, bound=f"4 schemes x vertical advection off/on x {nrep} random starts x a history of 5 updates with a same-count replacement and a release in between")


def diffusion_moments(p):
    """Bounded: sample mean/variance of the real Tracker's random walk against 2*D*dt (5-sigma bands)."""
    from ladim.state import State
    from ladim.tracker import Tracker

    tier = p.get("tier", "quick")
    npart = 20000 if tier == "quick" else 200000
    cases, failures, samples = 0, [], []
    # both on, horizontal only, vertical only (a generator state shared between the directions must not be reused)
    for D, Dz, dt, dx in ((1.0, 1e-3, 600, 800.0), (100.0, 1e-2, 60, 4000.0), (0.01, 1e-4, 3600, 160.0), (1.0, 0.0, 600, 800.0), (0.0, 1e-3, 600, 800.0)):
        for seed in range(2 if tier == "quick" else 6):
            grid = ArrayGrid(np.ones((200, 200)), H=np.full((200, 200), 1e6), dx=np.full((200, 200), dx), dy=np.full((200, 200), 2 * dx))
            state = State()
            state.append(X=np.full(npart, 100.0), Y=np.full(npart, 100.0), Z=np.full(npart, 5e5))
            force = TableForce([], [])
            trk = Tracker(advection="", diffusion=D, vertdiff=Dz, modules=dict(state=state, grid=grid, forcing=force, time=StubTimer(dt)))
            trk.rng = np.random.default_rng(1000 * seed + p.get("seed", 0))
            nsteps = 5
            incr = []
            for _ in range(nsteps):
                xb = state.X.copy()
                trk.update()
                incr.append(state.X - xb)
            cases += 1
            if D > 0:
                ci = float(np.corrcoef(incr[0], incr[1])[0, 1])
                if abs(ci) > 5 / npart**0.5:
                    failures.append(dict(D=D, Dz=Dz, what="displacements of consecutive steps are correlated (draws must be independent between steps)", corr=ci))
            t = nsteps * dt
            for nm, arr, scale, var in (("x", state.X - 100.0, dx, 2 * D * t), ("y", state.Y - 100.0, 2 * dx, 2 * D * t), ("z", state.Z - 5e5, 1.0, 2 * Dz * t)):
                m = float(np.mean(arr) * scale)
                v = float(np.var(arr) * scale**2)
                se_m = (var / npart) ** 0.5
                se_v = var * (2.0 / npart) ** 0.5
                if abs(m) > 5 * se_m or abs(v - var) > 5 * se_v:
                    failures.append(dict(D=D, Dz=Dz, dt=dt, dx=dx, direction=nm, mean=m, variance=v, expected_variance=var))
            c = float(np.corrcoef(state.X, state.Y)[0, 1])
            if abs(c) > 5 / npart**0.5:
                failures.append(dict(D=D, what="x/y displacements correlated", corr=c))
            samples.append(dict(D=D, Dz=Dz, dt=dt, var_x_m2=float(np.var(state.X) * dx**2), expected=2 * D * t))
    # determinism with zero coefficients
    grid = ArrayGrid(np.ones((20, 20)))
    state = State()
    state.append(X=np.full(5, 10.0), Y=np.full(5, 10.0), Z=np.full(5, 5.0))
    trk = Tracker(advection="", diffusion=0.0, vertdiff=0.0, modules=dict(state=state, grid=grid, forcing=TableForce([], []), time=StubTimer(600)))
    trk.update()
    cases += 1
    if np.any(state.X != 10.0) or np.any(state.Z != 5.0):
        failures.append(dict(what="movement with zero coefficients"))
    return dict(cases=cases, failures=failures[:10], samples=samples[:3], bound=f"{npart} particles, 5 steps, 5 parameter sets (both on, horizontal only, vertical only), 5-sigma bands, step-to-step correlation")
