"""Native replays / bounded checks for ladim/tracker.py (real numba kernels, real Tracker)."""
from __future__ import annotations

import numpy as np

from native.synth import StubTimer

TOL = 1e-9


def rkstep(p):
    """Replay: partial RK step against X + frac*U*dtdx."""
    from ladim.tracker import RKstep

    X, Y, U, V = (np.array(p[k], float) for k in ("X", "Y", "U", "V"))
    dtdx, dtdy = np.array(p["dtdx"], float), np.array(p["dtdy"], float)
    frac = float(p["frac"])
    X0, Y0 = X.copy(), Y.copy()
    Xp, Yp = RKstep(X, Y, U, V, frac, dtdx, dtdy)
    ex, ey = X0 + frac * U * dtdx, Y0 + frac * V * dtdy
    bad = bool(np.max(np.abs(Xp - ex), initial=0) > TOL or np.max(np.abs(Yp - ey), initial=0) > TOL)
    changed = bool(np.any(X != X0) or np.any(Y != Y0))
    return dict(reproduced=bad or changed, observed=[Xp.tolist(), Yp.tolist()], expected=[ex.tolist(), ey.tolist()], inputs_mutated=changed)


def clip(p):
    from ladim.tracker import clip as rclip

    X, Y = np.array(p["X"], float), np.array(p["Y"], float)
    ex = np.maximum(np.minimum(X, p["xmax"]), p["xmin"])
    ey = np.maximum(np.minimum(Y, p["ymax"]), p["ymin"])
    rclip(X, Y, p["xmin"], p["xmax"], p["ymin"], p["ymax"])
    bad = bool(np.any(np.abs(X - ex) > TOL) or np.any(np.abs(Y - ey) > TOL))
    return dict(reproduced=bad, observed=[X.tolist(), Y.tolist()], expected=[ex.tolist(), ey.tolist()])


class TableForce:
    """Velocity defined by the solver's table of vel(x, y, z, frac) values (0 elsewhere), or analytic."""

    def __init__(self, tabU, tabV, lim=None, analytic=None):
        self.tabU, self.tabV = tabU, tabV
        self.lim = lim
        self.samples = []
        self.analytic = analytic
        self.variables = {}

    def _look(self, tab, x, y, z, f):
        for args, val in tab:
            if abs(args[0] - x) < 1e-7 and abs(args[1] - y) < 1e-7 and abs(args[2] - z) < 1e-7 and abs(args[3] - f) < 1e-7:
                return val
        return 0.0

    def velocity(self, X, Y, Z, fractional_step=0, method="bilinear"):
        self.samples.append((np.array(X, float).copy(), np.array(Y, float).copy(), float(fractional_step)))
        if self.analytic:
            return self.analytic(np.asarray(X, float), np.asarray(Y, float), float(fractional_step))
        U = np.array([self._look(self.tabU, x, y, z, float(fractional_step)) for x, y, z in zip(X, Y, Z)])
        V = np.array([self._look(self.tabV, x, y, z, float(fractional_step)) for x, y, z in zip(X, Y, Z)])
        return U, V


TABLEAUX = {
    "EF": ([[]], [1.0], [0.0]),
    "RK2": ([[], [0.5]], [0.0, 1.0], [0.0, 0.5]),
    "RK4": ([[], [0.5], [0.0, 0.5], [0.0, 0.0, 1.0]], [1 / 6, 1 / 3, 1 / 3, 1 / 6], [0.0, 0.5, 0.5, 1.0]),
}


def tableau_velocity(scheme, force, X, Y, Z, dtdx, dtdy, lim):
    A, b, c = TABLEAUX[scheme]
    ku, kv = [], []
    for s in range(len(b)):
        if s == 0:
            xs, ys = X, Y
        else:
            xs = X + dtdx * sum(A[s][r] * ku[r] for r in range(s))
            ys = Y + dtdy * sum(A[s][r] * kv[r] for r in range(s))
            xs = np.maximum(np.minimum(xs, lim[1]), lim[0])
            ys = np.maximum(np.minimum(ys, lim[3]), lim[2])
        u, v = force.velocity(xs, ys, Z, c[s])
        ku.append(np.asarray(u, float))
        kv.append(np.asarray(v, float))
    return sum(bb * k for bb, k in zip(b, ku)), sum(bb * k for bb, k in zip(b, kv))


def _tracker(scheme, dt):
    from ladim.tracker import Tracker

    return Tracker(advection=scheme, modules={"time": StubTimer(dt)})


def scheme(p):
    """Replay of EF/RK2/RK4 on the real Tracker: tableau velocity, sampled positions inside the clipped domain, inputs intact."""
    sch = p["scheme"]
    trk = _tracker(sch, p["dt"])
    X, Y, Z = (np.array(p[k], float) for k in ("X", "Y", "Z"))
    trk.dx, trk.dy = np.array(p["dx"], float), np.array(p["dy"], float)
    lim = [p["xmin"], p["xmax"], p["ymin"], p["ymax"]]
    trk.xmin, trk.xmax, trk.ymin, trk.ymax = lim
    force = TableForce(p.get("velU", []), p.get("velV", []))
    X0, Y0 = X.copy(), Y.copy()
    U, V = getattr(trk, sch)(X, Y, Z, force)
    ref = TableForce(p.get("velU", []), p.get("velV", []))
    eU, eV = tableau_velocity(sch, ref, X0, Y0, Z, p["dt"] / trk.dx, p["dt"] / trk.dy, lim)
    mism = bool(np.max(np.abs(np.asarray(U) - eU), initial=0) > TOL or np.max(np.abs(np.asarray(V) - eV), initial=0) > TOL)
    outside = False
    for xs, ys, _f in force.samples:
        if np.any(xs < lim[0] - 1e-12) or np.any(xs > lim[1] + 1e-12) or np.any(ys < lim[2] - 1e-12) or np.any(ys > lim[3] + 1e-12):
            outside = True
    mutated = bool(np.any(X != X0) or np.any(Y != Y0))
    what = p.get("what", "any")
    rep = {"result": mism, "domain": outside, "frame": mutated, "any": mism or outside or mutated}[what]
    return dict(reproduced=bool(rep), mismatch=mism, sampled_outside_domain=outside, inputs_mutated=mutated, observed=[np.asarray(U).tolist(), np.asarray(V).tolist()], expected=[eU.tolist(), eV.tolist()], sampled=[(a.tolist(), b.tolist(), f) for a, b, f in force.samples])


def scheme_order(p):
    """Bounded stand-in for the limit statement of C01: observed convergence order of the real Tracker
    schemes in a smooth time-dependent analytic field (solid rotation with time-varying rate)."""
    tier = p.get("tier", "quick")
    cases, failures, samples = 0, [], []

    def field(X, Y, tfrac, t0, dt):
        t = t0 + tfrac * dt
        w = 1e-4 * (1.0 + 0.5 * np.sin(2e-4 * t))
        return -w * (Y - 50.0) * 1000.0, w * (X - 50.0) * 1000.0  # m/s on a 1000 m grid

    def exact(x0, y0, T):
        # theta(t) = integral of w
        th = 1e-4 * (T + 0.5 * (1 - np.cos(2e-4 * T)) / 2e-4)
        dx, dy = x0 - 50.0, y0 - 50.0
        return 50 + dx * np.cos(th) - dy * np.sin(th), 50 + dx * np.sin(th) + dy * np.cos(th)

    T = 14400.0
    for sch, order in (("EF", 1), ("RK2", 2), ("RK4", 4)):
        errs = []
        for nsteps in (8, 16, 32):
            dt = T / nsteps
            trk = _tracker(sch, dt)
            X, Y, Z = np.array([60.0, 42.0]), np.array([50.0, 57.0]), np.array([5.0, 5.0])
            trk.xmin, trk.xmax, trk.ymin, trk.ymax = 1.01, 98.99, 1.01, 98.99
            for n in range(nsteps):
                trk.dx = trk.dy = np.full(2, 1000.0)
                t0 = n * dt
                force = TableForce([], [], analytic=lambda x, y, f, t0=t0, dt=dt: field(x, y, f, t0, dt))
                U, V = getattr(trk, sch)(X, Y, Z, force)
                X = X + np.asarray(U) * dt / 1000.0
                Y = Y + np.asarray(V) * dt / 1000.0
            ex, ey = exact(np.array([60.0, 42.0]), np.array([50.0, 57.0]), T)
            errs.append(float(np.max(np.hypot(X - ex, Y - ey))))
        rates = [float(np.log2(errs[i] / errs[i + 1])) for i in range(2)]
        cases += 1
        samples.append(dict(scheme=sch, errors=errs, observed_order=rates))
        if not all(r > order - 0.35 for r in rates):
            failures.append(dict(scheme=sch, expected_order=order, observed_order=rates, errors=errs))
    # analytic helpers
    from ladim.analytical import get_velocity1, get_velocity2, get_velocity4

    class St:
        pass

    def samp(x, y):
        return -1e-4 * (y - 50.0), 1e-4 * (x - 50.0)

    for fn, order, kw in ((get_velocity1, 1, {}), (get_velocity2, 2, dict(s=1.0)), (get_velocity2, 2, dict(s=0.5)), (get_velocity2, 2, dict(s=2 / 3)), (get_velocity4, 4, {})):
        errs = []
        for nsteps in (8, 16, 32):
            dt = T / nsteps
            st = St()
            st.X, st.Y = np.array([60.0]), np.array([50.0])
            for n in range(nsteps):
                vel = fn(st, samp, dt, **kw) if fn is not get_velocity1 else fn(st, samp)
                st.X = st.X + dt * vel.U
                st.Y = st.Y + dt * vel.V
            th = 1e-4 * T
            ex, ey = 50 + 10 * np.cos(th), 50 + 10 * np.sin(th)
            errs.append(float(np.hypot(st.X[0] - ex, st.Y[0] - ey)))
        rates = [float(np.log2(errs[i] / errs[i + 1])) for i in range(2)]
        cases += 1
        samples.append(dict(helper=fn.__name__, kw=kw, errors=errs, observed_order=rates))
        if not all(r > order - 0.35 for r in rates):
            failures.append(dict(helper=fn.__name__, kw=kw, expected_order=order, observed_order=rates))
    return dict(cases=cases, failures=failures, samples=samples, bound="3 schemes + 5 analytic helpers x step counts 8,16,32 over 4 h in a time-dependent rotation; order tolerance 0.35")
