"""Entry point: python3-vt -m pyvc.check <PROPERTY-ID> [--tier quick|thorough]

Generates the verification conditions for every function under contract of the
property from /repo's *current working tree*, discharges them, runs the bounded
stand-ins and the encoder validation natively, writes /verif/evidence/<id>.json
and prints VIOLATION / KNOWN-FINDING lines.

Exit codes: 0 held on everything explored; 1 violation; 3 checker error.
"""
from __future__ import annotations

import argparse
import importlib
import json
import multiprocessing as mp
import os
import re
import subprocess
import sys
import time
from dataclasses import asdict
from pathlib import Path

VERIF = Path(__file__).resolve().parent.parent
OUT = Path(os.environ.get("PYVC_OUT", str(VERIF)))  # evidence/replays go here (default: /verif)
sys.path.insert(0, str(VERIF))

NATIVE_PY = "/venv/bin/python"


def slug(s: str) -> str:
    return re.sub(r"[^A-Za-z0-9]+", "_", s).strip("_")[:90]


def _run_one(job):
    kind, modname, idx, timeout_s, want_smt2 = job
    from pyvc.spec import run_lemma, run_unit

    mod = importlib.import_module(modname)
    _fill_known_contracts()
    # wall-clock limit per unit: a generator that does not come back (e.g. closure blow-up on changed code) makes the
    # unit UNDECIDED instead of hanging the check
    import signal

    limit = int(os.environ.get("PYVC_UNIT_LIMIT_S", "900" if timeout_s <= 60 else "3600"))

    class _Limit(BaseException):
        pass

    fired = []

    def _alarm(signum, frame):
        # raised wherever the interpreter is - inside a ctypes argument conversion it surfaces as ctypes.ArgumentError,
        # inside generic handlers of the generator it may be taken for an internal error: hence the flag, and the alarm
        # is re-armed so that the unit cannot continue unbounded after one swallowed exception
        fired.append(1)
        signal.alarm(20)
        raise _Limit()

    old_handler = signal.signal(signal.SIGALRM, _alarm)
    signal.alarm(limit)
    try:
        if kind == "unit":
            spec = mod.UNITS[idx]
            res = run_unit(spec, timeout_s=timeout_s, want_smt2=want_smt2)
        else:
            res = run_lemma(mod.LEMMAS[idx], timeout_s=timeout_s, want_smt2=want_smt2)
    except BaseException as e:  # noqa: BLE001
        if not fired and not isinstance(e, _Limit):
            raise
        signal.alarm(0)
        from pyvc.spec import UnitResult

        u = mod.UNITS[idx] if kind == "unit" else mod.LEMMAS[idx]
        res = UnitResult(u.unit_name() if kind == "unit" else "lemma:" + u.name, getattr(u, "func", ""))
        res.unsupported = f"the VC generator did not finish this unit within {limit} s (wall clock)"
    finally:
        signal.alarm(0)
        signal.signal(signal.SIGALRM, old_handler)
    if fired and not res.unsupported:
        # the limit fired but was absorbed inside the generator: whatever the unit reports afterwards is not a verdict
        res.unsupported = f"the VC generator did not finish this unit within {limit} s (wall clock)"
        res.error = ""
        res.obligations = []
    d = asdict(res)
    return d


def _placeholder(job, text, error=False):
    """result record of a unit whose worker process did not deliver one"""
    from pyvc.spec import UnitResult

    kind, modname, idx = job[0], job[1], job[2]
    mod = importlib.import_module(modname)
    u = mod.UNITS[idx] if kind == "unit" else mod.LEMMAS[idx]
    res = UnitResult(u.unit_name() if kind == "unit" else "lemma:" + u.name, getattr(u, "func", ""))
    if error:
        res.error = text
    else:
        res.unsupported = text
    return asdict(res)


def _child(job, conn):
    try:
        d = _run_one(job)
    except BaseException as e:  # noqa: BLE001
        d = _placeholder(job, f"worker failed: {type(e).__name__}: {e}", error=True)
    try:
        conn.send(d)
    finally:
        conn.close()


def _run_jobs(jobs, njobs):
    """One process per unit, at most njobs at a time. The in-process alarm of _run_one cannot interrupt a long call inside
    the solver library (a simplification of a huge term does not return to the interpreter), so the parent enforces a hard
    limit on top of it: the worker is killed and the unit is UNDECIDED."""
    import time as _time

    ctx = mp.get_context("fork")
    results = [None] * len(jobs)
    pending = list(enumerate(jobs))
    running = {}
    while pending or running:
        while pending and len(running) < njobs:
            i, job = pending.pop(0)
            rd, wr = ctx.Pipe(duplex=False)
            p = ctx.Process(target=_child, args=(job, wr))
            p.start()
            wr.close()
            soft = int(os.environ.get("PYVC_UNIT_LIMIT_S", "900" if job[3] <= 60 else "3600"))
            running[i] = (p, rd, _time.time(), job, soft + 180)
        progressed = False
        for i, (p, rd, t0, job, hard) in list(running.items()):
            if rd.poll(0):
                try:
                    results[i] = rd.recv()
                except EOFError:
                    results[i] = _placeholder(job, f"the worker process of this unit ended without a result (exit code {p.exitcode})", error=True)
                p.join()
                del running[i]
                progressed = True
            elif not p.is_alive():
                p.join()
                results[i] = _placeholder(job, f"the worker process of this unit ended without a result (exit code {p.exitcode})", error=True)
                del running[i]
                progressed = True
            elif _time.time() - t0 > hard:
                p.kill()
                p.join()
                results[i] = _placeholder(job, f"the VC generator did not finish this unit within {hard} s (wall clock, worker killed)")
                del running[i]
                progressed = True
        if not progressed:
            _time.sleep(0.05)
    return results


def _fill_known_contracts():
    """Names of all repository functions some contract is written for (any property): such a function must be called
    through its contract; a function nobody wrote a contract for (e.g. a new helper) is inlined instead."""
    from pyvc import interp

    if interp.KNOWN_CONTRACTS:
        return
    names = set()
    for k in range(1, 21):
        try:
            m = importlib.import_module(f"props.C{k:02d}")
        except Exception:  # noqa: BLE001
            continue
        for u in getattr(m, "UNITS", []):
            names.add(u.func)
            names.update(getattr(u, "callees", {}) or {})
            names.update(getattr(u, "inline", ()) or ())
    interp.KNOWN_CONTRACTS.update(names)


def belongs(label: str, pid: str) -> bool:
    m = re.match(r"^(?:precondition of [^:]+: )?(C\d\d(?:/C\d\d)*)[:.]", label)
    if m:
        return pid in m.group(1).split("/")
    return True


def run_native(harness: str, payload: dict, timeout=1800):
    """Run a native harness under /venv/bin/python (real numpy/numba/netCDF4/pandas)."""
    env = dict(os.environ)
    env["PYTHONPATH"] = f"{VERIF}:{os.environ.get('PYVC_REPO', '/repo')}"
    env.setdefault("NUMBA_CACHE_DIR", str(VERIF / "scratch" / "numba_cache"))
    p = subprocess.run(
        [NATIVE_PY, "-m", "native.run", harness],
        input=json.dumps(payload),
        capture_output=True,
        text=True,
        cwd=str(VERIF),
        env=env,
        timeout=timeout,
    )
    out = p.stdout.strip().splitlines()
    for line in reversed(out):
        if line.startswith("{"):
            try:
                return json.loads(line)
            except json.JSONDecodeError:
                continue
    return {"error": f"native harness {harness} produced no result (exit {p.returncode})", "stderr": p.stderr[-2000:], "stdout": p.stdout[-500:]}


def main(argv=None):
    ap = argparse.ArgumentParser()
    ap.add_argument("prop")
    ap.add_argument("--tier", default=os.environ.get("VERIF_TIER", "quick"))
    ap.add_argument("--replay", default=None)
    ap.add_argument("--jobs", type=int, default=int(os.environ.get("PYVC_JOBS", "8")))
    ap.add_argument("--no-selftest", action="store_true")
    args = ap.parse_args(argv)
    pid = args.prop
    tier = args.tier if args.tier in ("quick", "thorough") else "quick"
    seed = int(os.environ.get("VERIF_SEED", "0") or 0)
    t0 = time.time()
    (VERIF / "scratch").mkdir(exist_ok=True)
    if args.replay:
        return replay(pid, args.replay)

    modname = f"props.{pid}"
    try:
        mod = importlib.import_module(modname)
    except Exception as e:  # noqa: BLE001
        print(f"CHECKER-ERROR property={pid} cannot load {modname}: {type(e).__name__}: {e}")
        return 3
    timeout_s = 45.0 if tier == "quick" else 120.0  # generous: on the unchanged tree every VC takes < 3 s; the slack absorbs a loaded machine
    if os.environ.get("PYVC_TIMEOUT_S"):  # the self-test only needs ONE refuted obligation: shorter budget per obligation
        timeout_s = float(os.environ["PYVC_TIMEOUT_S"])
    want_smt2 = True if tier == "thorough" else "samples"
    jobs = [("unit", modname, i, timeout_s, want_smt2) for i in range(len(getattr(mod, "UNITS", [])))]
    jobs += [("lemma", modname, i, timeout_s, want_smt2) for i in range(len(getattr(mod, "LEMMAS", [])))]
    results = []
    if jobs:
        results = _run_jobs(jobs, min(args.jobs, len(jobs)))

    known = json.loads((VERIF / "known_findings.json").read_text()) if (VERIF / "known_findings.json").exists() else {"findings": []}
    open_findings = [f for f in known.get("findings", []) if f.get("property") == pid and f.get("status") == "open"]

    errors, undecided, refuted, discharged = [], [], [], []
    all_obls = []
    fuc = []
    solver_time = 0.0
    by_backend = {}
    assumed = set()
    inlined = set()
    notes = []
    canaries = canaries_refuted = 0
    paths = 0
    for r in results:
        if r["error"]:
            errors.append(f"{r['unit']}: {r['error']}")
        if r["unsupported"]:
            undecided.append(dict(unit=r["unit"], label="(whole function) " + r["unsupported"], reason="unsupported construct"))
        if r["describe"]:
            fuc.append(dict(unit=r["unit"], **r["describe"], paths=r["paths"], obligations=len(r["obligations"]), modular_callees=r["called_specs"], inlined=r["inlined"]))
        assumed.update(r["externals"])
        inlined.update(r["inlined"])
        notes.extend(r["notes"])
        canaries += r["canaries"]
        canaries_refuted += r["canaries_refuted"]
        paths += r["paths"]
        if not r["error"] and not r["unsupported"] and r["paths"] == 0:
            errors.append(f"{r['unit']}: no feasible path (vacuous contract)")
        own = 0
        for o in r["obligations"]:
            if not belongs(o["label"], pid):
                continue
            own += 1
            all_obls.append(o)
            v = o["verdict"]
            solver_time += v["time_s"]
            by_backend[v["backend"]] = by_backend.get(v["backend"], 0) + 1
            if v["status"] == "discharged":
                discharged.append(o)
            elif v["status"] == "refuted":
                refuted.append(o)
            else:
                undecided.append(dict(unit=o["unit"], label=o["label"], reason=v["reason"], loc=o["loc"]))
        if not r["error"] and not r["unsupported"] and own == 0:
            errors.append(f"{r['unit']}: generated zero obligations for {pid}")
    if not results and not getattr(mod, "NATIVE", []):
        errors.append("no units, lemmas or native checks registered")

    # ---- thorough: independent cross-check of discharged VCs with /usr/bin/z3 4.8.12
    cross = dict(checked=0, agree=0, disagree=[], inconclusive=0)
    if tier == "thorough":
        from pyvc.solve import cross_check

        todo = [o for o in discharged if o["verdict"]["smt2"] and o["verdict"]["backend"] != "simplifier"]
        with mp.get_context("fork").Pool(min(args.jobs, max(1, len(todo)))) as pool:
            outs = pool.map(cross_check, [o["verdict"]["smt2"] for o in todo], chunksize=4)
        for o, out in zip(todo, outs):
            cross["checked"] += 1
            if out == "unsat":
                cross["agree"] += 1
            elif out == "sat":
                cross["disagree"].append(f"{o['unit']}: {o['label']}")
            else:
                cross["inconclusive"] += 1
        for d in cross["disagree"]:
            errors.append(f"cross-check back end disagrees (z3 4.8.12 says sat): {d}")

    # ---- thorough: self-test -- the recorded property-breaking changes must be detected on a scratch copy
    selftest = None
    if tier == "thorough" and not args.no_selftest:
        from pyvc.selftest import run_all

        selftest = run_all(pid, jobs=3)
        for r in selftest:
            print(f"  SELFTEST {r['status']} {r['seed']}: {r['detail'][:160]}")
            if r["status"] in ("MISSED", "FALSE-ALARM"):
                errors.append(f"self-test: {r['seed']} -> {r['status']}: {r['detail'][:200]}")

    # ---- native: bounded stand-ins and encoder validation
    native_reports = []
    native_fail = []
    for spec in getattr(mod, "NATIVE", []):
        payload = dict(tier=tier, seed=seed, **spec.get("args", {}))
        if spec.get("prepare"):
            # payload computed on this side (e.g. the interpreter run in concrete mode for the encoder validation)
            modn, _, fn = spec["prepare"].partition(":")
            try:
                payload.update(getattr(importlib.import_module(modn), fn)(seed=seed, n=8 if tier == "quick" else 60))
            except Exception as e:  # noqa: BLE001
                errors.append(f"native {spec['name']}: preparing the payload failed: {type(e).__name__}: {e}")
                continue
        try:
            rep = run_native(spec["harness"], payload, timeout=spec.get("timeout", 1800))
        except subprocess.TimeoutExpired:
            rep = {"error": "timeout"}
        rep["name"] = spec["name"]
        rep["kind"] = spec.get("kind", "bounded")
        rep["bound"] = spec.get("bound", rep.get("bound", ""))
        native_reports.append(rep)
        if rep.get("error"):
            errors.append(f"native {spec['name']}: {rep['error']} {rep.get('stderr', '')[-400:]}")
        for f in rep.get("failures", []):
            native_fail.append(dict(native=spec["name"], kind=rep["kind"], failure=f))
        for sk in rep.get("skipped", []) or []:
            print(f"  VALIDATION-SKIPPED {sk.get('function')}: the interpreter could not run it concretely ({sk.get('why', '')[:120]})")

    # ---- violations: refuted obligations (+ bounded failures), replayed on the real code
    lines = []
    rdir = OUT / "replays" / pid
    violations = 0
    known_matched = []
    replayed = 0
    refuted_report = []
    for o in refuted:
        v = o["verdict"]
        rfile = rdir / f"{slug(o['unit'])}__{slug(o['label'])}.json"
        rep = dict(
            property=pid,
            unit=o["unit"],
            obligation=o["label"],
            kind=o["kind"],
            location=o["loc"],
            path=o["path"],
            backend=v["backend"],
            verifier_output="sat (counter-model below)",
            model=v["model"],
            smt2=v["smt2"][:20000],
        )
        native = None
        mk = getattr(mod, "replay_for", None)
        if mk:
            try:
                native = mk(o["unit"], o["label"], v["model"])
            except Exception as e:  # noqa: BLE001
                native = None
                rep["replay_error"] = f"{type(e).__name__}: {e}"
        outcome = None
        if native:
            rep["native_harness"] = native["harness"]
            rep["native_input"] = native["input"]
            try:
                outcome = run_native(native["harness"], native["input"], timeout=600)
            except subprocess.TimeoutExpired:
                outcome = {"error": "timeout"}
            rep["native_outcome"] = outcome
            replayed += 1
        reproduced = bool(outcome and outcome.get("reproduced"))
        rep["reproduced_on_real_code"] = reproduced
        match = None
        for f in open_findings:
            if re.search(f["unit"], o["unit"]) and re.search(f["obligation"], o["label"]):
                match = f
                break
        refuted_report.append(dict(unit=o["unit"], label=o["label"], reproduced=reproduced, known=bool(match), replay=str(rfile)))
        if match:
            if match["id"] not in [k["id"] for k in known_matched]:
                known_matched.append(match)
            continue
        rdir.mkdir(parents=True, exist_ok=True)
        rfile.write_text(json.dumps(rep, indent=1, default=str))
        violations += 1
        suffix = "" if reproduced else " no-failing-input-found"
        lines.append(f"VIOLATION property={pid} replay={rfile} obligation=\"{o['unit']}: {o['label']}\"{suffix}")
    by_native = {}
    for nf in native_fail:
        match = None
        for f in open_findings:
            if f.get("native") and re.search(f["native"], nf["native"]) and re.search(f.get("witness_regex", ".*"), json.dumps(nf["failure"], default=str)):
                match = f
                break
        if match:
            if match["id"] not in [k["id"] for k in known_matched]:
                known_matched.append(match)
            continue
        if nf["kind"] == "validation":
            errors.append(f"encoder validation disagreement in {nf['native']}: {json.dumps(nf['failure'], default=str)[:300]}")
            continue
        by_native.setdefault(nf["native"], []).append(nf["failure"])
    for name, fails in by_native.items():
        rdir.mkdir(parents=True, exist_ok=True)
        rfile = rdir / f"native__{slug(name)}.json"
        rfile.write_text(json.dumps(dict(property=pid, bounded_check=name, failures=fails, reproduced_on_real_code=True, note="each failure is an input on which the real code violates the run-time contract"), indent=1, default=str))
        violations += 1
        lines.append(f"VIOLATION property={pid} replay={rfile} bounded-check=\"{name}\" failing-inputs={len(fails)}")
    for k in known_matched:
        lines.append(f"KNOWN-FINDING: property={pid} {k['id']}: {k['what']}")

    # ---- evidence
    n_obl = len(all_obls)
    n_dis = len(discharged)
    bounded_only = getattr(mod, "LEVEL", "proof") != "proof"
    level = "proof" if (n_obl > 0 and n_dis == n_obl and not bounded_only and not undecided) else "other"
    if known_matched and n_obl > 0 and n_dis + sum(1 for r in refuted_report if r["known"]) == n_obl and not bounded_only and not undecided:
        level = "other"
    samples = []
    for o in (discharged[:1] + [x for x in discharged if x["verdict"]["backend"] not in ("simplifier",)][:2]):
        samples.append(dict(unit=o["unit"], obligation=o["label"], location=o["loc"], backend=o["verdict"]["backend"], smt2=o["verdict"]["smt2"][:1500]))
    trusted = list(getattr(mod, "TRUSTED", [])) + [
        "pyvc VC generator (/verif/pyvc): Python/numpy semantics as in DESIGN.md 2.3 (floats are reals, int64/datetime64 mathematical integers)",
        "z3 5.1.0 (z3-solver wheel)" + ("; /usr/bin/z3 4.8.12 as cross-check" if tier == "thorough" else ""),
        "numba @njit code computes what its Python source says (sequential, no bounds checks)",
    ]
    coverage = dict(
        obligations=n_obl,
        discharged=n_dis,
        checker_cmd=f"python3-vt -m pyvc.check {pid} --tier {tier}",
        trusted_base=trusted,
        samples=samples or [dict(note="no discharged obligation to show")],
        functions_under_contract=fuc,
        paths=paths,
        obligations_by_backend=by_backend,
        solver_time_s=round(solver_time, 3),
        undecided=undecided,
        refuted=refuted_report,
        canaries=dict(paths_checked=canaries, assumptions_satisfiable=canaries_refuted),
        assumed_external_contracts=sorted(assumed),
        inlined_repo_functions=sorted(inlined),
        generator_notes=sorted(set(notes)),
        bounded=[
            dict(name=r["name"], kind=r["kind"], bound=r.get("bound", ""), cases=r.get("cases", 0), failures=len(r.get("failures", [])), samples=r.get("samples", [])[:3], error=r.get("error"))
            for r in native_reports
        ],
        traces_validated_against_impl=sum(r.get("cases", 0) for r in native_reports if r.get("kind") == "validation"),
        replays_run=replayed,
        known_findings_matched=[k["id"] for k in known_matched],
        cross_check=cross if tier == "thorough" else None,
        selftest=selftest,
        evaluations=max(1, n_obl + sum(r.get("cases", 0) for r in native_reports)),
        distinct_nontrivial=max(2, sum(1 for o in all_obls if o["verdict"]["backend"] != "simplifier") + sum(r.get("cases", 0) for r in native_reports)),
        rule="one case = one named proof obligation generated from the current source (non-trivial: not closed by the simplifier alone) or one enumerated input of a bounded stand-in",
        explanation=getattr(mod, "EXPLANATION", "") + (" LEVEL other: " + "; ".join(x for x in [
            "decisive clauses are bounded stand-ins" if bounded_only else "",
            f"{len(undecided)} obligation(s)/function(s) undecided" if undecided else "",
            f"{len(known_matched)} known finding(s) open" if known_matched else "",
        ] if x) if level == "other" else ""),
    )
    ev = dict(
        property_id=pid,
        tier=tier,
        seed=seed,
        level=level,
        coverage=coverage,
        assumptions=list(getattr(mod, "ASSUMPTIONS", [])),
        wall_s=round(time.time() - t0, 2),
        violations=violations,
    )
    (OUT / "evidence").mkdir(parents=True, exist_ok=True)
    (OUT / "evidence" / f"{pid}.json").write_text(json.dumps(ev, indent=1, default=str))

    print(f"[{pid}] tier={tier} functions={len(fuc)} paths={paths} obligations={n_obl} discharged={n_dis} refuted={len(refuted)} undecided={len(undecided)} bounded_cases={sum(r.get('cases', 0) for r in native_reports)} wall={time.time() - t0:.1f}s level={level}")
    for u in undecided[:10]:
        print(f"  UNDECIDED {u['unit']}: {u['label']} ({u.get('reason', '')})")
    for line in lines:
        print(line)
    for e in errors:
        print(f"CHECKER-ERROR property={pid} {e}")
    if violations:
        return 1  # a violation found (and reported above) stands even if another part of the check could not run
    return 3 if errors else 0


def replay(pid, path):
    rep = json.loads(Path(path).read_text())
    print(json.dumps({k: rep.get(k) for k in ("property", "unit", "obligation", "location", "backend", "verifier_output")}, indent=1))
    if rep.get("native_harness"):
        out = run_native(rep["native_harness"], rep["native_input"], timeout=600)
        print(json.dumps(out, indent=1, default=str))
        return 1 if out.get("reproduced") else 0
    print("no native replay for this obligation; verifier counter-model:")
    print(json.dumps(rep.get("model"), indent=1)[:4000])
    return 0


if __name__ == "__main__":
    sys.exit(main())
