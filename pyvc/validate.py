"""Encoder validation: the symbolic interpreter is run on CONCRETE inputs (all values Python numbers, so every
numpy/builtin model takes its concrete branch) and its results are compared with the real function executed under
/venv/bin/python (real numpy, numba-compiled kernels). A disagreement means the *verifier's* semantics of Python /
numpy is wrong: CHECKER-ERROR, never a violation.

    python3-vt -m pyvc.validate            (prints a JSON summary; used by pyvc.check through run_validation())
"""
from __future__ import annotations

import json
import random
from fractions import Fraction

from . import values as V
from .extract import Repo
from .interp import Ctx, Interp, Obj, PyFunc
from .values import Arr


def carr(values, kind="real"):
    """A concrete array object for the interpreter."""
    import itertools

    def shape_of(v):
        s = []
        while isinstance(v, list):
            s.append(len(v))
            v = v[0] if v else 0
        return tuple(s)

    shape = shape_of(values)

    def fn(*idx):
        v = values
        for i in idx:
            if isinstance(i, int):
                v = v[i]
            else:
                raise V.Unsupported("symbolic index into a concrete validation array")
        if kind == "real":
            return Fraction(repr(float(v)))
        if kind == "bool":
            return bool(v)
        return int(v)

    return Arr(shape, fn, kind)


def to_py(x):
    """Interpreter value -> JSON-able Python value."""
    if isinstance(x, Arr):
        if not all(isinstance(d, int) for d in x.shape):
            raise V.Unsupported("symbolic shape in a validation result")
        import itertools

        def build(prefix, dims):
            if not dims:
                return to_py(x.fn(*prefix))
            return [build(prefix + (i,), dims[1:]) for i in range(dims[0])]

        return build((), x.shape)
    if isinstance(x, (tuple, list)):
        return [to_py(v) for v in x]
    if isinstance(x, bool):
        return x
    if isinstance(x, (int,)):
        return x
    if isinstance(x, (Fraction, float)):
        return float(x)
    if V.is_z3(x):
        import z3

        s = z3.simplify(x)
        if z3.is_int_value(s):
            return s.as_long()
        if z3.is_rational_value(s):
            return float(Fraction(s.numerator_as_long(), s.denominator_as_long()))
        if z3.is_true(s):
            return True
        if z3.is_false(s):
            return False
        if z3.is_algebraic_value(s):
            a = s.approx(30)
            return float(Fraction(a.numerator_as_long(), a.denominator_as_long()))
        raise V.Unsupported(f"validation result did not evaluate to a number: {s}")
    if x is None:
        return None
    if isinstance(x, str):
        return x
    raise V.Unsupported(f"validation result of type {type(x).__name__}")


def run_concrete(repo, qual, args, kwargs=None, structured=False):
    mod, cname, node = repo.lookup(qual)
    q = f"{mod.dotted}.{cname + '.' if cname else ''}{node.name}"
    V.AXIOMS.clear()
    V.APPS.clear()
    cx = Ctx(repo, check_paths=False)
    if structured:
        cx.ghost["structured_fstrings"] = True
    interp = Interp(cx)
    return interp.run_function(PyFunc(q, mod, cname, node), args, kwargs or {})


def rnd(rng, lo, hi):
    return round(rng.uniform(lo, hi), 6)


def cases(seed, n):
    """(name, qualname, python-args (JSON-able), builder of interpreter args)"""
    rng = random.Random(seed)
    out = []
    for k in range(n):
        m = rng.randint(0, 4)
        X = [rnd(rng, 1, 9) for _ in range(m)]
        Y = [rnd(rng, 1, 9) for _ in range(m)]
        U = [rnd(rng, -3, 3) for _ in range(m)]
        Vv = [rnd(rng, -3, 3) for _ in range(m)]
        dt1 = [rnd(rng, 0.1, 2) for _ in range(m)]
        dt2 = [rnd(rng, 0.1, 2) for _ in range(m)]
        frac = rng.choice([0.0, 0.5, 1.0, 0.25])
        out.append(("RKstep", "ladim.tracker.RKstep", dict(X=X, Y=Y, U=U, V=Vv, frac=frac, dtdx=dt1, dtdy=dt2)))
        out.append(("clip", "ladim.tracker.clip", dict(X=X, Y=Y, xmin=rnd(rng, 2, 4), xmax=rnd(rng, 5, 8), ymin=rnd(rng, 2, 4), ymax=rnd(rng, 5, 8))))
        out.append(("RK4avg", "ladim.tracker.RK4avg", dict(U1=X, U2=Y, U3=U, U4=Vv)))
        # trilinear / z2s on a small 3-D field with a sorted depth structure
        kmax, jm, im = rng.randint(2, 4), rng.randint(2, 4), rng.randint(2, 5)
        F = [[[rnd(rng, -5, 5) for _ in range(im)] for _ in range(jm)] for _ in range(kmax)]
        zr = [[[0.0] * im for _ in range(jm)] for _ in range(kmax)]
        for j in range(jm):
            for i in range(im):
                col = sorted(rnd(rng, -100, -1) for _ in range(kmax))
                for kk in range(kmax):
                    zr[kk][j][i] = col[kk] + 0.001 * kk
        mp = rng.randint(1, 4)
        PX = [rnd(rng, 0, im - 1.000001) for _ in range(mp)]
        PY = [rnd(rng, 0, jm - 1.000001) for _ in range(mp)]
        if k % 3 == 0 and mp:
            PX[0] = float(rng.randint(0, im - 2)) + rng.choice([0.0, 0.5])
            PY[0] = float(rng.randint(0, jm - 2)) + rng.choice([0.0, 0.5])
        K = [rng.randint(1, kmax - 1) for _ in range(mp)]
        A = [rnd(rng, 0, 1) for _ in range(mp)]
        out.append(("trilinear", "ladim.ROMS.trilinear", dict(F=F, X=PX, Y=PY, K=K, A=A)))
        Z = [rnd(rng, -5, 110) for _ in range(mp)]
        out.append(("z2s", "ladim.ROMS.z2s", dict(z_rho=zr, X=PX, Y=PY, Z=Z)))
        out.append(("sample3D_nearest", "ladim.ROMS.sample3D", dict(F=F, X=PX, Y=PY, K=K, A=A, method="nearest")))
        # sample2D
        F2 = [[rnd(rng, -5, 5) for _ in range(im)] for _ in range(jm)]
        M2 = [[rng.choice([0.0, 1.0, 1.0]) for _ in range(im)] for _ in range(jm)]
        SX = PX + [rnd(rng, -2, -0.1), float(im)]
        SY = PY + [1.0, 0.5]
        out.append(("sample2D", "ladim.sample.sample2D", dict(F=F2, X=SX, Y=SY, mask=M2 if k % 2 else None, undef_value=-9.0, outside_value=rng.choice([0.0, -1.5, 7.0]))))
        # vertical grid
        N = rng.randint(1, 6)
        out.append(("s_stretch", "ladim.ROMS.s_stretch", dict(N=N, theta_s=rnd(rng, 0.1, 8), theta_b=rnd(rng, 0.05, 1.0), stagger=rng.choice(["rho", "w"]), Vstretching=rng.choice([1, 2, 4]))))
        C = sorted(rnd(rng, -1, 0) for _ in range(N))
        H = [[rnd(rng, 5, 500) for _ in range(im)] for _ in range(jm)]
        out.append(("sdepth", "ladim.ROMS.sdepth", dict(H=H, Hc=rnd(rng, 0, 5), C=C, stagger=rng.choice(["rho", "w"]) if N > 1 else "rho", Vtransform=rng.choice([1, 2]))))
        # methods of the ROMS Grid on an object carrying the arrays (nearest-cell lookups: round-half-even, array indexing)
        i0, j0 = rng.randint(0, 3), rng.randint(0, 3)
        gim, gjm = rng.randint(4, 7), rng.randint(4, 6)
        garr = lambda lo, hi: [[rnd(rng, lo, hi) for _ in range(gim)] for _ in range(gjm)]  # noqa: E731
        gattrs = dict(i0=i0, j0=j0, imax=gim, jmax=gjm, xmin=float(i0), xmax=float(i0 + gim - 1), ymin=float(j0), ymax=float(j0 + gjm - 1),
                      H=garr(5, 300), dx=garr(400, 1200), dy=garr(400, 1200), M=[[float(rng.choice([0, 1, 1])) for _ in range(gim)] for _ in range(gjm)],
                      lon=garr(0, 10), lat=garr(55, 65))
        gn = rng.randint(1, 5)
        GX = [rnd(rng, i0 + 0.6, i0 + gim - 1.6) for _ in range(gn)]
        GY = [rnd(rng, j0 + 0.6, j0 + gjm - 1.6) for _ in range(gn)]
        if gn and k % 2 == 0:  # ties: exactly half-integer coordinates
            GX[0] = float(i0 + rng.randint(1, gim - 2)) + 0.5
            GY[0] = float(j0 + rng.randint(1, gjm - 2)) - 0.5
        for meth in ("metric", "depth", "atsea", "onland", "ingrid", "xy2ll"):
            out.append((f"Grid.{meth}", f"ladim.ROMS.Grid.{meth}", dict(X=GX, Y=GY), dict(cls="ladim.ROMS.Grid", attrs=gattrs)))
        out.append(("duration2iso", "ladim.timekeeper.duration2iso", dict(duration=dict(timedelta64=rng.choice([0, 59, 60, 3600, 86400, 90061, rng.randint(0, 10**7)])))))
        out.append(("normalize_period", "ladim.timekeeper.normalize_period", dict(per=rng.choice([rng.randint(1, 10**5), [rng.randint(1, 500), rng.choice(["s", "m", "h"])]]))))
    return out


ARRAY_KINDS = dict(K="int")


def build_args(pyargs):
    a = {}
    for k, v in pyargs.items():
        if isinstance(v, dict) and "timedelta64" in v:
            from contracts.timefmt import Duration

            a[k] = Duration(int(v["timedelta64"]))
        elif isinstance(v, list) and v and isinstance(v[-1], str):
            a[k] = list(v)  # [value, unit] period spelling
        elif isinstance(v, list):
            a[k] = carr(v, ARRAY_KINDS.get(k, "real"))
        elif isinstance(v, float):
            a[k] = Fraction(repr(v))
        else:
            a[k] = v
    return a


def run_validation(seed=0, n=8):
    """Returns the payload for the native side: list of dict(name, qual, args, expected, mutated)."""
    repo = Repo()
    items = []
    skipped = []
    for case in cases(seed, n):
        name, qual, pyargs = case[:3]
        selfspec = case[3] if len(case) > 3 else None
        try:
            ia = build_args(pyargs)
            pos = []
            if selfspec:
                attrs = {k: (carr(v, "real") if isinstance(v, list) else (Fraction(repr(v)) if isinstance(v, float) else v)) for k, v in selfspec["attrs"].items()}
                pos = [Obj(selfspec["cls"], **attrs)]
                cx_struct = True
            if qual.endswith("duration2iso"):
                V.AXIOMS.clear()
            res = run_concrete(repo, qual, pos, ia, structured=qual.endswith("duration2iso"))
            post = {k: to_py(v) for k, v in ia.items() if isinstance(v, Arr)}
            it = dict(name=name, qual=qual, args=pyargs, result=to_py(res), args_after=post)
            if selfspec:
                it["self"] = selfspec
            items.append(it)
        except V.Unsupported as e:
            skipped.append(dict(name=name, why=str(e)))
        except V.PyRaise as e:
            items.append(dict(name=name, qual=qual, args=pyargs, raises=e.cls))
    return dict(items=items, skipped=skipped)


if __name__ == "__main__":
    out = run_validation()
    print(json.dumps(dict(n=len(out["items"]), skipped=out["skipped"][:5]), default=str))
