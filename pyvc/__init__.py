"""pyvc: verification-condition generator over the real Python AST of /repo."""
