"""Mechanical extraction of the functions under contract from /repo's working tree.

Nothing of the repository is copied into /verif: on every run the files are
parsed with ``ast`` and functions are looked up by qualified name.  What the
extraction drops is listed in DESIGN.md section 3 (docstrings, annotations,
logging calls, numba decorators, dead DEBUG switches).
"""
from __future__ import annotations

import ast
import hashlib
import os
from pathlib import Path

REPO = Path(os.environ.get("PYVC_REPO", "/repo"))


class ExtractionError(Exception):
    pass


class RepoModule:
    def __init__(self, dotted: str, path: Path):
        self.dotted = dotted
        self.path = path
        self.source = path.read_text(encoding="utf-8")
        self.lines = self.source.splitlines()
        self.tree = ast.parse(self.source, filename=str(path))
        self.funcs: dict[str, ast.FunctionDef] = {}
        self.classes: dict[str, dict] = {}
        self.globals: dict[str, tuple] = {}
        self._scan()

    def _scan(self) -> None:
        for node in self.tree.body:
            self._scan_stmt(node)

    def _scan_stmt(self, node: ast.stmt) -> None:
        if isinstance(node, ast.FunctionDef):
            self.funcs[node.name] = node
            self.globals[node.name] = ("func", node.name)
        elif isinstance(node, ast.ClassDef):
            methods = {}
            consts = {}
            for sub in node.body:
                if isinstance(sub, ast.FunctionDef):
                    methods[sub.name] = sub
                elif isinstance(sub, (ast.Assign, ast.AnnAssign)):
                    tgt = sub.targets[0] if isinstance(sub, ast.Assign) else sub.target
                    if isinstance(tgt, ast.Name) and sub.value is not None:
                        consts[tgt.id] = sub.value
            bases = [ast.unparse(b) for b in node.bases]
            self.classes[node.name] = dict(methods=methods, bases=bases, node=node, consts=consts)
            self.globals[node.name] = ("class", node.name)
        elif isinstance(node, ast.Import):
            for a in node.names:
                self.globals[a.asname or a.name.split(".")[0]] = ("module", a.name if a.asname else a.name.split(".")[0])
        elif isinstance(node, ast.ImportFrom):
            if node.module == "__future__":
                return
            for a in node.names:
                self.globals[a.asname or a.name] = ("import", f"{node.module}.{a.name}")
        elif isinstance(node, ast.Assign) and len(node.targets) == 1 and isinstance(node.targets[0], ast.Name):
            self.globals[node.targets[0].id] = ("expr", node.value)
        elif isinstance(node, ast.AnnAssign) and isinstance(node.target, ast.Name) and node.value is not None:
            self.globals[node.target.id] = ("expr", node.value)
        elif isinstance(node, ast.If):
            # ``if TYPE_CHECKING:`` imports and ``if DEBUG:`` switches are dropped
            return


class Repo:
    """All of ladim/*.py, parsed lazily from the current working tree."""

    def __init__(self, root: Path | None = None):
        self.root = Path(root) if root else REPO
        self._mods: dict[str, RepoModule] = {}

    def module(self, dotted: str) -> RepoModule:
        if dotted not in self._mods:
            rel = Path(*dotted.split("."))
            path = self.root / (str(rel) + ".py")
            if not path.exists():
                raise ExtractionError(f"module {dotted} not found at {path}")
            try:
                self._mods[dotted] = RepoModule(dotted, path)
            except SyntaxError as e:
                raise ExtractionError(f"cannot parse {path}: {e}") from e
        return self._mods[dotted]

    def has_module(self, dotted: str) -> bool:
        rel = Path(*dotted.split("."))
        return (self.root / (str(rel) + ".py")).exists()

    def lookup(self, qual: str):
        """qual = 'ladim.tracker.RKstep1' or 'ladim.tracker.Tracker.update'.

        Returns (module, classname|None, FunctionDef).  Module-level aliases
        (``RKstep = RKstep1``) are followed.
        """
        parts = qual.split(".")
        for cut in range(len(parts) - 1, 0, -1):
            dotted = ".".join(parts[:cut])
            if self.has_module(dotted):
                mod = self.module(dotted)
                rest = parts[cut:]
                if len(rest) == 1:
                    name = rest[0]
                    seen = set()
                    while name not in mod.funcs:
                        g = mod.globals.get(name)
                        if g and g[0] == "expr" and isinstance(g[1], ast.Name) and name not in seen:
                            seen.add(name)
                            name = g[1].id
                            continue
                        if g and g[0] == "import":
                            return self.lookup(g[1])
                        raise ExtractionError(f"function {qual} not found in {mod.path}")
                    return mod, None, mod.funcs[name]
                if len(rest) == 2:
                    cname, mname = rest
                    if cname not in mod.classes:
                        raise ExtractionError(f"class {cname} not found in {mod.path}")
                    found = self.find_method(mod, cname, mname)
                    if found is None:
                        raise ExtractionError(f"method {qual} not found in {mod.path}")
                    return found
        raise ExtractionError(f"cannot resolve {qual}")

    def find_method(self, mod: RepoModule, cname: str, mname: str):
        cls = mod.classes.get(cname)
        if cls is None:
            return None
        if mname in cls["methods"]:
            return mod, cname, cls["methods"][mname]
        for b in cls["bases"]:
            g = mod.globals.get(b)
            if g and g[0] == "class":
                r = self.find_method(mod, b, mname)
                if r:
                    return r
            elif g and g[0] == "import":
                dotted, _, bname = g[1].rpartition(".")
                if self.has_module(dotted):
                    r = self.find_method(self.module(dotted), bname, mname)
                    if r:
                        return r
        return None

    def describe(self, qual: str) -> dict:
        mod, cname, node = self.lookup(qual)
        seg = "\n".join(mod.lines[node.lineno - 1 : node.end_lineno])
        return dict(
            function=qual,
            file=str(mod.path),
            lines=[node.lineno, node.end_lineno],
            sha256=hashlib.sha256(seg.encode()).hexdigest()[:16],
        )
