"""Structured strings: f-strings and ``str.format`` over symbolic pieces.

A string is a tuple of parts: Python ``str`` literals, opaque symbolic strings (any ModelObject: compared by identity),
and ``Pad(number, width)`` = the decimal representation of ``number`` zero-padded to ``width`` (``format(n, '0<w>d')``).
Only used by units that ask for it (``Spec.structured_fstrings``); everywhere else an f-string is the opaque value
"<fstring>" (section 2.3 of DESIGN.md).

Assumed: symbolic string pieces contain no braces (otherwise ``str.format`` would treat them as fields).
"""
from __future__ import annotations

import ast

from . import values as V
from .interp import ModelObject
from .values import Unsupported


class Pad:
    """decimal digits of ``number`` (>= 0), zero-padded to at least ``width`` characters"""

    def __init__(self, number, width):
        self.number, self.width = number, width

    def __repr__(self):
        return f"Pad({self.number}, {self.width})"


class Num:
    """str(number) of a symbolic integer (no padding)"""

    def __init__(self, number):
        self.number = number

    def __repr__(self):
        return f"Num({self.number})"


def _norm(parts):
    out = []
    for p in parts:
        if isinstance(p, FStr):
            for q in p.parts:
                out.append(q)
            continue
        if isinstance(p, int) and not isinstance(p, bool):
            p = str(p)
        if isinstance(p, str):
            if p == "":
                continue
            if out and isinstance(out[-1], str):
                out[-1] = out[-1] + p
                continue
        out.append(p)
    return out


class FStr(ModelObject):
    """A string made of literal and symbolic parts."""

    def __init__(self, parts):
        self.parts = _norm(parts)

    def __repr__(self):
        return "FStr(" + ", ".join(map(repr, self.parts)) + ")"

    def pv_getattr(self, cx, name):
        if name == "format":
            me = self

            def fmt(interp, *args, **kwargs):
                if kwargs:
                    raise Unsupported("str.format with keyword arguments")
                return format_fields(me.parts, list(args))

            fmt._pyvc_model = True
            return fmt
        raise Unsupported(f"str.{name} on a structured string")

    def pv_isinstance(self, tname):
        return tname == "str"


def make(parts):
    parts = _norm(parts)
    if all(isinstance(p, str) for p in parts):
        return "".join(parts)
    return FStr(parts)


def format_value(value, spec):
    """format(value, spec) for one replacement field; spec is a list of parts (str / symbolic ints)."""
    spec = _norm(spec)
    if not spec:
        if isinstance(value, (str, ModelObject)):
            return value
        if V.is_z3(value) and V.kind_of(value) == "int":
            return Num(value)
        if isinstance(value, int):
            return str(value)
        raise Unsupported("f-string field of this type")
    # '0<width>d' with a concrete or symbolic width
    if len(spec) == 1 and isinstance(spec[0], str):
        s = spec[0]
        if s == "d":
            return Num(value) if V.is_z3(value) else str(int(value))
        if len(s) >= 3 and s[0] == "0" and s[-1] == "d" and s[1:-1].isdigit():
            return Pad(value, int(s[1:-1]))
        raise Unsupported(f"format specification {s!r}")
    if len(spec) == 3 and spec[0] == "0" and spec[2] == "d":
        w = spec[1]
        return Pad(value, w.number if isinstance(w, Num) else w)
    raise Unsupported(f"format specification {spec!r}")


def format_fields(parts, args):
    """``template.format(*args)``: replacement fields may span literal and symbolic parts ('{:0', w, 'd}')."""
    out = []
    field = None  # parts of the field being collected
    auto = 0
    for p in parts:
        if not isinstance(p, str):
            (out if field is None else field).append(p)
            continue
        i = 0
        while i < len(p):
            ch = p[i]
            if field is None:
                if ch == "{":
                    if p[i + 1 : i + 2] == "{":
                        out.append("{")
                        i += 2
                        continue
                    field = []
                elif ch == "}":
                    if p[i + 1 : i + 2] == "}":
                        out.append("}")
                        i += 2
                        continue
                    raise V.PyRaise("ValueError", ("Single '}' encountered in format string",))
                else:
                    out.append(ch)
            else:
                if ch == "}":
                    f = _norm(field)
                    field = None
                    # split "<name>:<spec>"
                    name, spec = "", []
                    if f and isinstance(f[0], str):
                        head = f[0]
                        if ":" in head:
                            name, rest = head.split(":", 1)
                            spec = [rest] + f[1:]
                        else:
                            name = head
                            if len(f) > 1:
                                raise Unsupported("symbolic field name in str.format")
                    elif f:
                        raise Unsupported("symbolic field name in str.format")
                    if name == "":
                        idx = auto
                        auto += 1
                    elif name.isdigit():
                        idx = int(name)
                    else:
                        raise Unsupported("named field in str.format")
                    if idx >= len(args):
                        raise V.PyRaise("IndexError", ("Replacement index out of range",))
                    out.append(format_value(args[idx], spec))
                else:
                    field.append(ch)
            i += 1
    if field is not None:
        raise V.PyRaise("ValueError", ("expected '}' before end of string",))
    return make(out)


def build_fstring(interp, node, env, mod):
    parts = []
    for v in node.values:
        if isinstance(v, ast.Constant):
            parts.append(v.value)
            continue
        val = interp.eval(v.value, env, mod)
        if v.conversion != -1:
            raise Unsupported("f-string conversion")
        spec = []
        if v.format_spec is not None:
            s = build_fstring(interp, v.format_spec, env, mod)
            spec = s.parts if isinstance(s, FStr) else [s]
        parts.append(format_value(val, spec))
    return make(parts)
