"""Contracts (sidecar) and the per-function verification driver.

A ``Spec`` describes one function of /repo:

* ``inputs(cx)``    symbolic arguments (and the heap they live in) + ``requires``
* ``model(cx, a)``  the functional specification: returns the specified result and
                    performs the specified mutations on the argument objects
* ``ensures(cx, a, result)``  further postconditions / lemmas on the real result

Verification: the real body runs on one copy of the inputs, ``model`` on a
second copy; result and every reachable object must agree (this includes the
frame: an unspecified mutation is a mismatch).  At a call site only ``requires``
(as obligations) and ``model`` (as the callee's effect) are used.
"""
from __future__ import annotations

import time
import traceback
from dataclasses import dataclass, field

import z3

from . import values as V
from .extract import ExtractionError, Repo
from .interp import BoundMethod, BreakSignal, Ctx, ForallP, Interp, ModelObject, Obj, PyFunc, ReturnSignal
from .solve import Verdict, check_sat, discharge, reset_ack
from .values import Arr, Filtered, PathInfeasible, PyRaise, Unsupported


import os

DEBUG = bool(os.environ.get("PYVC_DEBUG"))


def _identity(interp, x, *a, **k):
    return x


DEFAULT_EXTERNALS = {"pathlib.Path": _identity}


class Args(dict):
    __getattr__ = dict.__getitem__

    def __setattr__(self, k, v):
        self[k] = v


class Spec:
    func: str = ""  # qualified name in /repo
    name: str = ""  # unit name (defaults to func)
    properties: tuple = ()
    callees: dict = {}  # qual -> Spec instance used modularly at call sites
    inline: tuple | None = None  # repo functions that may be inlined (None: any)
    externals: dict = {}  # assumed models of external callables, by dotted name
    expect_raises: bool = False
    may_raise: tuple = ()  # exception classes the function may raise on inputs the precondition does not exclude
    max_paths = 400

    def unit_name(self):
        return self.name or self.func

    # --- to be provided by contracts
    def inputs(self, cx) -> Args:
        raise NotImplementedError

    def requires(self, cx, a) -> list:
        return []

    def model(self, cx, a):
        """Functional specification. Return NotImplemented when only ``ensures`` is given."""
        return NotImplemented

    def ensures(self, cx, a, result) -> list:
        return []

    def raises(self, cx, a):
        """Condition (z3 Bool / bool) under which the function must raise, and the class: (cond, cls) list."""
        return []

    def call_args(self, a):
        """positional args, kwargs for the real function from the Args"""
        return list(a.values()), {}

    def compare_roots(self, a, b, result):
        """(label, real, specified) triples compared after the call (default: every argument)."""
        return None

    def body_slice(self, node):
        """Optional: verify only a suffix of the function body. Return (statements, description) or None.
        The statements before the slice are NOT verified; ``slice_env`` supplies the values they would have produced
        (stated as an assumption in the evidence)."""
        return None

    def slice_env(self, cx, a):
        return {}

    # --- call-site use (modular)
    def as_callee(self):
        spec = self

        def summary(interp, args, kwargs):
            cx = interp.cx
            mod, cname, node = cx.repo.lookup(spec.func)
            qual = f"{mod.dotted}.{cname + '.' if cname else ''}{node.name}"
            env = interp.bind_args(PyFunc(qual, mod, cname, node), args, kwargs)
            env.pop("__class__", None)
            a = Args(env)
            for label, f in spec.requires(cx, a):
                cx.oblige_item(f"precondition of {spec.unit_name()}: {label}", f, kind="pre")
            r = spec.model(cx, a)
            if r is NotImplemented:
                if not hasattr(spec, "fresh_result"):
                    raise Unsupported(f"{spec.unit_name()} has no functional model for call sites")
                r = spec.fresh_result(cx, a)
                for _label, f in spec.ensures(cx, a, r):
                    cx.assume_item(f)
            return r

        return summary


# ---------------------------------------------------------------- structural comparison


def generic_index(cx, shape, base="p"):
    idx = [cx.fresh(base) for _ in shape]
    rng = [z3.And(i >= 0, i < V.to_z3(s)) for i, s in zip(idx, shape)]
    return idx, rng


def compare(cx, actual, expected, label, seen=None, kind="post"):
    """Emit obligations stating that ``actual`` (real code) equals ``expected`` (model)."""
    if seen is None:
        seen = set()
    if actual is expected and not isinstance(actual, (Arr, Obj, dict, list)):
        return
    if isinstance(actual, Arr) or isinstance(expected, Arr):
        if not (isinstance(actual, Arr) and isinstance(expected, Arr)):
            if isinstance(actual, Arr) and actual.ndim == 0:
                return compare(cx, actual.at(), expected, label, seen, kind)
            cx.oblige(f"{label}: array vs scalar", False, kind=kind)
            return
        key = (id(actual), id(expected))
        if key in seen:
            return
        seen.add(key)
        if actual.ndim != expected.ndim:
            cx.oblige(f"{label}: ndim {actual.ndim} == {expected.ndim}", False, kind=kind)
            return
        se = V.shape_eq(actual.shape, expected.shape)
        if se is not True:
            cx.oblige(f"{label}: shape", se, kind=kind)
        if actual.kind != expected.kind and {actual.kind, expected.kind} != {"int", "real"}:
            cx.oblige(f"{label}: dtype kind {actual.kind} == {expected.kind}", False, kind=kind)
            return
        idx, rng = generic_index(cx, expected.shape)
        n0 = len(cx.pc)
        cx.pc.extend(rng)
        try:
            av = actual.at(*idx)
            ev = expected.at(*idx)
            guard = getattr(expected, "cmp_guard", None)  # the specification speaks of these elements only
            eq = V.s_cmp("==", av, ev)
            alts = getattr(expected, "cmp_alternatives", None)  # the specification admits any of several values
            if alts:
                eq = z3.Or(V.to_z3(eq), *[V.to_z3(V.s_cmp("==", av, f(*idx))) for f in alts])
            if guard is not None:
                eq = z3.Implies(V.to_z3(guard(*idx)), V.to_z3(eq))
            cx.oblige(f"{label}[{','.join(str(i) for i in idx)}] equals specification" + (f" ({expected.cmp_guard_text})" if guard is not None else ""), eq, kind=kind)
        finally:
            del cx.pc[n0:]
        return
    if isinstance(expected, (tuple, list)):
        if not isinstance(actual, (tuple, list)) or len(actual) != len(expected):
            cx.oblige(f"{label}: sequence of length {len(expected)}", False, kind=kind)
            return
        for i, (x, y) in enumerate(zip(actual, expected)):
            compare(cx, x, y, f"{label}[{i}]", seen, kind)
        return
    if isinstance(expected, dict):
        if not isinstance(actual, dict) or set(actual) != set(expected):
            cx.oblige(f"{label}: keys {sorted(map(str, expected))} (got {sorted(map(str, actual)) if isinstance(actual, dict) else type(actual).__name__})", False, kind=kind)
            return
        for k in expected:
            compare(cx, actual[k], expected[k], f"{label}[{k!r}]", seen, kind)
        return
    if isinstance(expected, Obj):
        if not isinstance(actual, Obj):
            cx.oblige(f"{label}: object", False, kind=kind)
            return
        key = (id(actual), id(expected))
        if key in seen:
            return
        seen.add(key)
        keys = set(expected.attrs) | set(actual.attrs)
        for k in sorted(keys):
            if k.startswith("_ghost"):
                continue
            if k not in expected.attrs:
                # an attribute the contract knows nothing about (neither in its pre-state nor set by its model), e.g. a
                # diagnostic counter the code started to keep: outside the contract's frame, not a mismatch
                note = f"{label}.{k}: the code sets an attribute the contract does not describe (ignored by the frame check)"
                if note not in cx.notes:
                    cx.notes.append(note)
                continue
            if k not in actual.attrs:
                cx.oblige(f"{label}.{k}: attribute present in both real and specified state", False, kind=kind)
                continue
            compare(cx, actual.attrs[k], expected.attrs[k], f"{label}.{k}", seen, kind)
        return
    if isinstance(expected, ModelObject):
        if hasattr(expected, "pv_compare"):
            expected.pv_compare(cx, actual, label, kind)
        return
    if expected is None or isinstance(expected, str):
        cx.oblige(f"{label} == {expected!r}", actual == expected if (actual is None or isinstance(actual, str)) else False, kind=kind)
        return
    if isinstance(expected, (PyFunc, BoundMethod)) or callable(expected):
        return
    if isinstance(actual, (Arr, tuple, list, dict, Obj)) or actual is None or isinstance(actual, str):
        cx.oblige(f"{label}: scalar expected", False, kind=kind)
        return
    cx.oblige(f"{label} equals specification", V.s_cmp("==", actual, expected), kind=kind)


def own_index_only(term, p, decl_names):
    """Structural non-interference check: every application of a per-particle array (1-ary uninterpreted
    function named in decl_names) inside ``term`` is at the index ``p`` itself."""
    stack = [V.to_z3(term)]
    seen = set()
    while stack:
        x = stack.pop()
        if x.get_id() in seen or not z3.is_app(x):
            continue
        seen.add(x.get_id())
        if x.num_args() == 1 and x.decl().kind() == z3.Z3_OP_UNINTERPRETED and x.decl().name() in decl_names:
            if not x.arg(0).eq(p):
                return False
        stack.extend(x.children())
    return True


# ---------------------------------------------------------------- driver


@dataclass
class ObRecord:
    unit: str
    label: str
    kind: str
    loc: str
    path: int
    verdict: Verdict


@dataclass
class UnitResult:
    unit: str
    func: str
    describe: dict = field(default_factory=dict)
    paths: int = 0
    pruned: int = 0
    obligations: list = field(default_factory=list)
    error: str = ""
    unsupported: str = ""
    requires_sat: str = ""
    canaries: int = 0
    canaries_refuted: int = 0
    inlined: list = field(default_factory=list)
    called_specs: list = field(default_factory=list)
    externals: list = field(default_factory=list)
    notes: list = field(default_factory=list)
    wall_s: float = 0.0
    outcomes: list = field(default_factory=list)


def run_unit(spec: Spec, repo: Repo | None = None, timeout_s=20.0, want_smt2=False) -> UnitResult:
    """Verify one unit. A Spec may list ``alternatives()`` (other admissible specifications of the same function,
    e.g. the three classical two-stage Runge-Kutta tableaux): the unit holds if one of them is fully discharged."""
    first = _run_unit(spec, repo, timeout_s, want_smt2)
    alts = spec.alternatives() if hasattr(spec, "alternatives") else []
    if not alts or _clean(first):
        return first
    tried = []
    for alt in alts:
        r = _run_unit(alt, repo, timeout_s, want_smt2)
        comps = alt.companions() if hasattr(alt, "companions") else []
        # an alternative that rests on an invariant is admissible only if the companion units that establish it hold too
        comp_res = [_run_unit(c, repo, timeout_s, want_smt2) for c in comps]
        if _clean(r) and all(_clean(c) for c in comp_res):
            r.unit = first.unit
            r.notes.append(f"satisfied by the alternative specification '{alt.unit_name()}' (primary: '{spec.unit_name()}')")
            return r
        tried.append((alt, r, comp_res))
    # No admissible specification is proved. The unit is REFUTED only if every one of them is refuted; an alternative that
    # is merely undecided (unsupported construct, timeout) could be the one the code implements.
    def _refuted(r):
        return any(o.verdict.status == "refuted" for o in r.obligations)

    for alt, r, comp_res in tried:
        if not r.error and not _refuted(r) and not any(_refuted(c) for c in comp_res):
            r.unit = first.unit
            if not r.unsupported:
                r.unsupported = "an alternative specification is neither proved nor refuted"
            r.notes.append(f"the primary specification is refuted, the alternative '{alt.unit_name()}' is undecided: the unit is undecided")
            return r
    first.notes.append(f"none of the {len(alts)} alternative specifications holds either (each is refuted)")
    return first


def _clean(r) -> bool:
    return not r.error and not r.unsupported and r.paths > 0 and bool(r.obligations) and all(o.verdict.status == "discharged" for o in r.obligations)


def _run_unit(spec: Spec, repo: Repo | None = None, timeout_s=20.0, want_smt2=False) -> UnitResult:
    t0 = time.time()
    repo = repo or Repo()
    res = UnitResult(spec.unit_name(), spec.func)
    try:
        mod, cname, node = repo.lookup(spec.func)
        res.describe = repo.describe(spec.func)
    except ExtractionError as e:
        res.error = f"extraction: {e}"
        return res
    qual = f"{mod.dotted}.{cname + '.' if cname else ''}{node.name}"
    pf = PyFunc(qual, mod, cname, node)
    specs = {}
    for q, s in spec.callees.items():
        try:
            m2, c2, n2 = repo.lookup(q)
            q2 = f"{m2.dotted}.{c2 + '.' if c2 else ''}{n2.name}"
        except ExtractionError:
            q2 = q
        specs[q2] = s.as_callee() if isinstance(s, Spec) else s
    pending = [[]]
    npath = 0
    nsmt = 0
    while pending:
        dec = pending.pop()
        if npath >= spec.max_paths:
            res.unsupported = f"more than {spec.max_paths} paths"
            break
        V.AXIOMS.clear()
        V.APPS.clear()
        reset_ack()
        from .numpy_model import TRANSC_APPS

        TRANSC_APPS.clear()
        cx = Ctx(repo, decisions=dec, specs=specs, inline_ok=set(spec.inline) if spec.inline is not None else None, externals=dict(DEFAULT_EXTERNALS, **spec.externals))
        interp = Interp(cx)
        try:
            a = spec.inputs(cx)
            for _label, f in spec.requires(cx, a):
                cx.assume_item(f)
            if npath == 0:
                res.requires_sat = check_sat(list(cx.pc) + list(V.AXIOMS))
                if res.requires_sat == "unsat":
                    res.error = "contradictory precondition (requires is unsatisfiable)"
                    return res
            # second copy of the inputs for the specification
            V_ax = list(V.AXIOMS)
            cx2pc = len(cx.pc)
            b = spec.inputs(cx)
            del cx.pc[cx2pc:]
            args, kwargs = spec.call_args(a)
            outcome = None
            try:
                sl = spec.body_slice(node)
                if sl is not None:
                    stmts, desc = sl
                    note = f"SLICE of {spec.func}: only {desc} is verified; the statements before it are replaced by the contract's slice_env"
                    if note not in res.notes:
                        res.notes.append(note)
                    env = spec.slice_env(cx, a)
                    try:
                        interp.exec_block(stmts, env, mod)
                        r = None
                    except ReturnSignal as rs:
                        r = rs.value
                    except BreakSignal:
                        r = "<break>"  # a loop-body slice left the loop
                else:
                    r = interp.run_function(pf, args, kwargs)
                outcome = ("return", r)
            except PyRaise as e:
                outcome = ("raise", e.cls, e.pargs)
                cx.ghost["raise_explicit"] = bool(getattr(e, "explicit", False))
            res.outcomes.append(outcome[0] if outcome[0] == "return" else f"raise {outcome[1]}")
            _post(spec, cx, a, b, outcome)
        except PathInfeasible:
            res.pruned += 1
            pending.extend(cx.pending)
            continue
        except Unsupported as e:
            res.unsupported = f"{e} (at {cx.loc})"
            pending.extend(cx.pending)
            # The obligations raised BEFORE the construct the generator cannot interpret are genuine (preconditions of
            # callee contracts, subscripts, divisions met on the way): they are decided; the unit as a whole stays
            # UNDECIDED. Nothing is concluded from the part of the path that was not executed.
            try:
                from .interp import Obligation as _Ob
                from .solve import build_query as _bq

                pre = [ob for ob in cx.obls if ob.kind in ("pre", "index", "shape", "div")]
                if cx.ghost.get("history_phase"):
                    pre = []  # the construct was met while a contract replayed an EARLIER call, whose obligations are not this unit's
                if pre:
                    can = _Ob("canary", z3.BoolVal(False), tuple(cx.pc), cx.loc, "canary", tuple(cx.univ))
                    hy, _g = _bq(can, V.AXIOMS)
                    if check_sat(hy + list(V.AXIOMS)) == "sat" and not cx.ghost.get("havoc_attrs"):
                        for ob in pre:
                            v = discharge(ob, list(V.AXIOMS), timeout_s=timeout_s, want_smt2=want_smt2)
                            if v.status == "refuted":
                                res.obligations.append(ObRecord(spec.unit_name(), ob.label + " [met before the unit became undecided]", ob.kind, ob.loc, npath + 1, v))
            except Unsupported:
                pass
            break
        except Exception as e:  # noqa: BLE001
            # The generator or a contract's model object could not interpret this code shape. On the unchanged tree
            # every unit runs through, so this arises on CHANGED code: the unit is undecided, not a checker failure
            # (the text is kept in the evidence; set PYVC_STRICT=1 to get the old behaviour while developing).
            tb = traceback.format_exc()[-1200:]
            if os.environ.get("PYVC_STRICT"):
                res.error = f"{type(e).__name__}: {e}\n{tb}"
            else:
                res.unsupported = f"internal {type(e).__name__} while interpreting this code: {str(e)[:160]} (at {cx.loc})"
                res.notes.append("generator exception: " + tb.replace("\n", " | ")[-600:])
            break
        pending.extend(cx.pending)
        # vacuity canary: the assumptions at the end of the path must be satisfiable
        res.canaries += 1
        from .solve import build_query
        from .interp import Obligation

        can = Obligation("canary", z3.BoolVal(False), tuple(cx.pc), cx.loc, "canary", tuple(cx.univ))
        hy, _g = build_query(can, V.AXIOMS)
        sat = check_sat(hy + list(V.AXIOMS))
        if sat == "unsat":
            res.pruned += 1  # infeasible path (detected late); its obligations are vacuous and dropped
            continue
        res.canaries_refuted += 1 if sat == "sat" else 0
        npath += 1
        axioms = list(V.AXIOMS)
        havoc = sorted(cx.ghost.get("havoc_attrs", ()))
        for ob in cx.obls:
            v = discharge(ob, axioms, timeout_s=timeout_s, want_smt2=want_smt2)
            if havoc and v.status == "refuted":
                # the path read attributes the contract does not describe (arbitrary values were used): a refutation may
                # rest on a value the class never produces -> undecided, not a violation
                v.status = "undecided"
                v.backend = f"{v.backend}: refuted only with arbitrary values of {', '.join(havoc)} (state outside the contract)"
            if want_smt2 == "samples" and v.status == "discharged" and v.backend != "simplifier" and nsmt < 2:
                nsmt += 1
                v = discharge(ob, axioms, timeout_s=timeout_s, want_smt2=True)
            if DEBUG:
                print(f"   [{spec.unit_name()} path {npath}] {v.status} {v.backend} {v.time_s:.2f}s {ob.kind} {ob.label[:100]}", flush=True)
            res.obligations.append(ObRecord(spec.unit_name(), ob.label, ob.kind, ob.loc, npath, v))
        res.inlined = sorted(set(res.inlined) | cx.inlined)
        res.called_specs = sorted(set(res.called_specs) | cx.called_specs)
        res.externals = sorted(set(res.externals) | set(cx.ghost.get("externals_used", ())))
        for n in cx.notes:
            if n not in res.notes:
                res.notes.append(n)
    res.paths = npath
    res.wall_s = time.time() - t0
    return res


def _post(spec: Spec, cx, a, b, outcome):
    cx.loc = "postcondition"
    # exceptional behaviour
    rz = spec.raises(cx, a)
    if outcome[0] == "raise":
        cls = outcome[1]
        if cls != "SystemExit" and cx.ghost.get("raise_explicit") and cls not in ("AssertionError", "NotImplementedError", "StopIteration") and (
            "SystemExit" in spec.may_raise or any(c == "SystemExit" for _c, c in rz)
        ):
            # where the contract speaks of a refusal (SystemExit, the repository's convention) any exception raised by an
            # explicit raise statement is one: the properties say "stops with an error", not which class
            cx.notes.append(f"a deliberate `raise {cls}` is counted as a refusal (the contract names SystemExit)")
            cls = "SystemExit"
        if cls in spec.may_raise:
            cx.oblige(f"raises {cls}: allowed by the contract", True, kind="post")
            return
        if not rz:
            cx.oblige(f"no exception on valid input (raised {cls}{outcome[2] if outcome[2] else ''})", False, kind="post")
            return
        ok = False
        for cond, c in rz:
            if c == cls:
                ok = V.s_or(ok, cond)
        cx.oblige(f"raises {cls} only when specified", ok, kind="post")
        return
    for cond, c in rz:
        cx.oblige(f"must raise {c} when specified", V.s_not(cond), kind="post")
    result = outcome[1]
    m = spec.model(cx, b)
    if m is not NotImplemented:
        compare(cx, result, m, "result")
        roots = spec.compare_roots(a, b, result)
        if roots is None:
            roots = [(f"state after call: {k}", a[k], b[k]) for k in a.keys()]
        for lab, x, y in roots:
            compare(cx, x, y, lab)
    for label, f in spec.ensures(cx, a, result):
        cx.oblige_item(label, f, kind="post")
    # frame: module-level containers the function touched must be unchanged (history independence of later calls)
    from .interp import same_structure

    for (dotted, name), (obj, snap) in cx.ghost.get("module_state", {}).items():
        cx.oblige(f"frame: module-level {dotted}.{name} is not modified (a later call must not depend on this one)", same_structure(obj, snap), kind="post")


class Lemma:
    """A closed formula proved once by the same back ends."""

    name = ""
    properties: tuple = ()

    def formula(self):
        raise NotImplementedError


def run_lemma(lemma: Lemma, timeout_s=20.0, want_smt2=False) -> UnitResult:
    from .interp import Obligation

    t0 = time.time()
    res = UnitResult("lemma:" + lemma.name, "")
    V.AXIOMS.clear()
    V.APPS.clear()
    reset_ack()
    from .numpy_model import TRANSC_APPS

    TRANSC_APPS.clear()
    try:
        items = lemma.formula()
    except Unsupported as e:  # the lemma cannot read the code it speaks about: undecided, not refuted
        res.unsupported = str(e)
        res.paths = 1
        return res
    except Exception as e:  # noqa: BLE001
        res.error = f"{type(e).__name__}: {e}\n{traceback.format_exc()[-1200:]}"
        return res
    if not isinstance(items, list):
        items = [(lemma.name, [], items)]
    res.paths = 1
    res.requires_sat = "sat"
    for label, hyps, goal in items:
        s = check_sat(list(hyps) + list(V.AXIOMS)) if hyps else "sat"
        res.canaries += 1
        if s == "unsat":
            res.error = f"lemma {label}: contradictory hypotheses"
            return res
        res.canaries_refuted += 1 if s == "sat" else 0
        ob = Obligation(label, goal, tuple(hyps), "lemma", "lemma")
        v = discharge(ob, list(V.AXIOMS), timeout_s=timeout_s, want_smt2=want_smt2)
        res.obligations.append(ObRecord(res.unit, label, "lemma", "lemma", 1, v))
    res.wall_s = time.time() - t0
    return res
