"""Symbolic execution of the real Python AST, path by path.

One ``Ctx`` = one path.  Branches on symbolic conditions consult a decision
list; the driver (``explore``) re-executes the function for every decision
prefix that is still open, so the heap needs no copying.
"""
from __future__ import annotations

import ast
from dataclasses import dataclass, field
from fractions import Fraction

import z3

from . import values as V
from .extract import Repo
from .values import Arr, Filtered, PyRaise, PathInfeasible, Unsupported

# ------------------------------------------------------------------ objects


class Obj:
    """Instance of a repository class (or a plain record)."""

    def __init__(self, cls: str | None, **attrs):
        self.cls = cls
        self.attrs = dict(attrs)

    def __repr__(self):
        return f"<Obj {self.cls} {list(self.attrs)}>"


class ModelObject:
    """Hook for contract-supplied models of external objects (netCDF variables...).
    Subclasses may define pv_getattr/pv_getitem/pv_setitem/pv_call/pv_contains/pv_len/pv_iter/pv_binop."""


class PvDict(dict):
    """A dict created EMPTY by the code under verification ({} or dict()). Besides concrete keys it accepts stores
    under symbolic keys, kept as the sequence ``sym_stores`` of (key, value) pairs (a later store to an equal key
    wins, as in Python, so the sequence determines the dictionary). Lookup by a symbolic key is not supported."""

    def __init__(self, *a, **k):
        super().__init__(*a, **k)
        self.sym_stores = []


class GeneratorRun:
    """Result of a generator function whose `while True` loop was verified by induction: the values yielded in the
    generic iteration ``k`` (a symbolic integer >= 0)."""

    def __init__(self, k, yields):
        self.k, self.yields = k, yields


@dataclass
class PyFunc:
    qual: str
    mod: object
    cname: str | None
    node: ast.FunctionDef


@dataclass
class BoundMethod:
    obj: object
    func: PyFunc


@dataclass
class External:
    dotted: str


@dataclass
class ModuleRef:
    dotted: str


@dataclass
class ClassRef:
    qual: str
    mod: object
    name: str


@dataclass
class Closure:
    node: ast.Lambda
    env: dict
    mod: object


class LoggerModel(ModelObject):
    """a logging.Logger: emitting a message has no effect the contracts speak of; what the logging configuration is
    (level, handlers) is not known, so queries about it return arbitrary values"""

    _EMIT = ("debug", "info", "warning", "warn", "error", "critical", "exception", "log", "setLevel", "addHandler", "removeHandler")

    def pv_getattr(self, cx, name):
        if name in self._EMIT:
            f = lambda interp, *a, **k: None  # noqa: E731
        elif name == "isEnabledFor":
            f = lambda interp, *a, **k: cx.fresh("logging_enabled", "bool")  # noqa: E731
        elif name in ("getEffectiveLevel",):
            f = lambda interp, *a, **k: cx.fresh("logging_level", "int")  # noqa: E731
        else:
            raise Unsupported(f"Logger attribute {name} is not modelled")
        f._pyvc_model = True
        return f


LOGGER = LoggerModel()


@dataclass
class LocalFunc:
    """a function defined inside a function (closes over the enclosing environment as it is at the call)"""

    node: ast.FunctionDef
    env: dict
    mod: object


@dataclass
class Builtin:
    name: str
    fn: object


@dataclass
class Obligation:
    label: str
    goal: object
    hyps: tuple
    loc: str
    kind: str
    univ: tuple = ()
    meta: dict = field(default_factory=dict)


class ReturnSignal(Exception):
    def __init__(self, value):
        self.value = value


class BreakSignal(Exception):
    pass


class ContinueSignal(Exception):
    pass


class UnivFact:
    """forall idx . body(idx), instantiated by hand at discharge time.

    ``sources``: Arr objects whose logged read indices give the instances;
    ``extra``: further index tuples."""

    def __init__(self, arity, body, sources=(), extra=(), decls=(), generic=None):
        self.arity = arity
        self.body = body
        self.sources = list(sources)
        self.extra = list(extra)
        self.decls = list(decls)  # instantiate at the argument tuples of applications of these functions
        # generic: use every Int index term of the query as a candidate (arity 1); default when no decls
        self.generic = generic if generic is not None else (not self.decls)

    def instances(self, more=()):
        seen = set()
        out = []
        cands = list(self.extra) + list(more)
        for a in self.sources:
            cands.extend(a.reads)
        for idx in cands:
            idx = tuple(V.to_z3(i) for i in idx)
            if len(idx) != self.arity:
                continue
            key = tuple(i.get_id() for i in idx)
            if key in seen:
                continue
            seen.add(key)
            out.append(self.body(*idx))
        return out


class LoopFact:
    """Universal facts established inside the body of a map loop for the generic iteration n:
    they hold for every iteration, and are instantiated (n := t) at the indices t at which the
    loop's Skolem functions are applied."""

    arity = 1
    generic = False
    decls = ()

    def __init__(self, n, lo, hi, conds, facts, skolems, plain=()):
        self.n, self.lo, self.hi, self.conds, self.facts, self.skolems = n, lo, hi, conds, facts, skolems
        self.plain = list(plain)

    def instances(self, more=()):
        ts = {}
        for d in self.skolems:
            for args in list(V.APPS.get(d.name(), {}).values()):
                if len(args) == 1 and not args[0].eq(self.n):
                    ts[args[0].get_id()] = args[0]
        out = []
        inner = list(self.plain)
        for f in self.facts:
            inner.extend(f.instances())
        guard = z3.And(*self.conds) if self.conds else z3.BoolVal(True)
        for t in ts.values():
            rng = z3.And(t >= self.lo, t < self.hi)
            for inst in inner:
                out.append(z3.substitute(z3.Implies(z3.And(rng, guard), inst), (self.n, t)))
        return out


# ------------------------------------------------------------------ context


def trigger_decls(body):
    """Unary uninterpreted functions applied directly to the bound variable: the instantiation triggers."""
    probe = z3.Int("probe!trigger")
    saved = {k: dict(v) for k, v in V.APPS.items()}
    try:
        t = body(probe)
    except Exception:  # noqa: BLE001
        return []
    finally:
        V.APPS.clear()
        V.APPS.update(saved)
    out = {}
    stack = [t]
    seen = set()
    while stack:
        x = stack.pop()
        if x.get_id() in seen or not z3.is_app(x):
            continue
        seen.add(x.get_id())
        if x.num_args() == 1 and x.decl().kind() == z3.Z3_OP_UNINTERPRETED and x.arg(0).eq(probe):
            out[x.decl().name()] = x.decl()
        stack.extend(x.children())
    return list(out.values())


class ForallP:
    """forall p in [0, n): body(p) -- a quantified contract clause."""

    def __init__(self, n, body, lo=0):
        self.n = n
        self.body = body
        self.lo = lo


class ForallIdx:
    """forall idx (arity ints): body(*idx); instantiated at the applications of ``decls``."""

    def __init__(self, arity, body, decls=()):
        self.arity, self.body, self.decls = arity, body, list(decls)


class Ctx:
    def __init__(self, repo: Repo, decisions=(), specs=None, inline_ok=None, externals=None, check_paths=True):
        self.repo = repo
        self.pc: list = []
        self.obls: list[Obligation] = []
        self.univ: list[UnivFact] = []
        self.decisions = list(decisions)
        self.dpos = 0
        self.pending: list[list[bool]] = []
        self.specs = specs or {}
        self.inline_ok = inline_ok  # None = everything in the repo may be inlined
        self.externals = externals or {}
        self.fresh_n = 0
        self.frames: list = []  # local decision frames (loop bodies)
        self.journal = None
        self.check_paths = check_paths
        self.trace: list = []  # ghost event trace
        self.inlined: set = set()
        self.called_specs: set = set()
        self.loc = "?"
        self.notes: list = []
        self.ghost: dict = {}

    # -- symbols
    def fresh(self, base: str, sort="int"):
        self.fresh_n += 1
        name = f"{base}!{self.fresh_n}"
        if self.frames:
            # inside the body of a symbolic-range loop a fresh value is a function of the loop index;
            # the name carries the local decisions taken so far, so that values created before the body's
            # paths diverge are shared by those paths and later ones are not
            fr = self.frames[-1]
            fr["fresh"] += 1
            name = f"{base}!L{fr['id']}_{fr['fresh']}_" + "".join("T" if d else "F" for d in fr["dec"][: fr["pos"]])
            zs = {"int": z3.IntSort(), "real": z3.RealSort(), "bool": z3.BoolSort()}[sort]
            d = z3.Function(name, z3.IntSort(), zs)
            fr["skolems"].append(d)
            return V.app(d, fr["n"])
        return {"int": z3.Int, "real": z3.Real, "bool": z3.Bool}[sort](name)

    # -- logical state
    def assume(self, f):
        if f is True:
            return
        if f is False:
            raise PathInfeasible()
        self.pc.append(f)

    def oblige(self, label, goal, kind="assert", loc=None, meta=None):
        if goal is True:
            goal = z3.BoolVal(True)
        if goal is False:
            goal = z3.BoolVal(False)
        self.obls.append(Obligation(label, goal, tuple(self.pc), loc or self.loc, kind, tuple(self.univ), meta or {}))

    def assume_item(self, item):
        if isinstance(item, ForallIdx):
            self.univ.append(UnivFact(item.arity, item.body, decls=item.decls))
        elif isinstance(item, ForallP):
            n, body, lo = V.to_z3(item.n), item.body, V.to_z3(item.lo)
            def full(p):
                b = body(p)
                if isinstance(b, tuple):
                    b = b[0]
                return z3.Implies(z3.And(p >= lo, p < n), V.to_z3(V.sbool(b)))

            self.univ.append(UnivFact(1, full, decls=trigger_decls(full)))
        else:
            self.assume(item if isinstance(item, bool) else V.to_z3(V.sbool(item)))

    def oblige_item(self, label, item, kind="pre"):
        if isinstance(item, ForallIdx):
            idx = [self.fresh("q") for _ in range(item.arity)]
            self.oblige(label, V.sbool(item.body(*idx)), kind=kind)
        elif isinstance(item, ForallP):
            p = self.fresh("p")
            n0 = len(self.pc)
            self.pc.append(z3.And(p >= V.to_z3(item.lo), p < V.to_z3(item.n)))
            try:
                body = item.body(p)
                if isinstance(body, tuple):  # (goal, hints): hints are instances of separately proved lemmas
                    body, hints = body
                    self.pc.extend(hints)
                self.oblige(label, V.sbool(body), kind=kind)
            finally:
                del self.pc[n0:]
        else:
            self.oblige(label, V.sbool(item) if not isinstance(item, bool) else item, kind=kind)

    def feasible(self) -> bool:
        if not self.check_paths:
            return True
        s = z3.Solver()
        s.set("timeout", 1500)
        s.add(*self.pc)
        s.add(*V.AXIOMS)
        return s.check() != z3.unsat

    def decide(self, cond) -> bool:
        """Truth of ``cond`` on this path if the path condition settles it (used by specifications,
        which must follow the branch the real code took); forks otherwise."""
        cond = V.sbool(cond)
        if isinstance(cond, bool):
            return cond
        s = z3.Solver()
        s.set("timeout", 3000)
        s.add(*self.pc)
        s.push()
        s.add(z3.Not(cond))
        if s.check() == z3.unsat:
            return True
        s.pop()
        s.add(cond)
        if s.check() == z3.unsat:
            return False
        return self.fork(cond)

    def fork(self, cond) -> bool:
        cond = V.sbool(cond)
        if isinstance(cond, bool):
            return cond
        c = z3.simplify(cond)
        if z3.is_true(c):
            return True
        if z3.is_false(c):
            return False
        if self.frames:
            fr = self.frames[-1]
            if fr["pos"] < len(fr["dec"]):
                choice = fr["dec"][fr["pos"]]
            else:
                choice = True
                fr["pending"].append(fr["dec"][: fr["pos"]] + [False])
                fr["dec"].append(True)
            fr["pos"] += 1
            fr["conds"].append(c if choice else z3.Not(c))
            self.assume(c if choice else z3.Not(c))
            if not self.feasible():
                raise PathInfeasible()
            return choice
        if self.dpos < len(self.decisions):
            choice = self.decisions[self.dpos]
        else:
            choice = True
            self.pending.append(self.decisions[: self.dpos] + [False])
            self.decisions.append(True)
        self.dpos += 1
        self.assume(c if choice else z3.Not(c))
        if not self.feasible():
            raise PathInfeasible()
        return choice

    # -- heap journal (for undoing loop-body paths)
    def set_arr(self, arr: Arr, fn=None, shape=None, kind=None):
        if self.journal is not None:
            self.journal.append((arr, arr.fn, arr.shape, arr.kind))
        if fn is not None:
            arr.fn = fn
            src = getattr(arr, "src", None)
            if src is not None and getattr(arr, "multi", None) is not None and shape is None:
                # arr is A.ravel(): numpy returns a VIEW for a contiguous array, so an in-place change of the raveled
                # array is a change of A itself (the packed multi-index is handed through)
                self.set_arr(src, fn=lambda *idx, _f=fn: _f(tuple(idx)))
        if shape is not None:
            arr.shape = tuple(shape)
        if kind is not None:
            arr.kind = kind


# ------------------------------------------------------------------ interpreter


class Interp:
    def __init__(self, cx: Ctx):
        self.cx = cx
        self.repo = cx.repo
        from . import numpy_model

        self.npm = numpy_model

    # ---- module environment -------------------------------------------------
    def module_lookup(self, mod, name):
        g = mod.globals.get(name)
        if g is None:
            if name == "__name__":
                return mod.dotted
            return self.builtin(name)
        tag, val = g
        if tag == "func":
            return PyFunc(f"{mod.dotted}.{val}", mod, None, mod.funcs[val])
        if tag == "class":
            return ClassRef(f"{mod.dotted}.{val}", mod, val)
        if tag == "module":
            return ModuleRef(val)
        if tag == "import":
            dotted, _, nm = val.rpartition(".")
            if self.repo.has_module(val):
                return ModuleRef(val)
            if dotted.startswith("ladim") and self.repo.has_module(dotted):
                return self.module_lookup(self.repo.module(dotted), nm)
            return External(val)
        if tag == "expr":
            # a module-level object is ONE object for the whole call (mutations persist, and are reported by the
            # frame check of the postcondition: a function must not change module-level state)
            ms = self.cx.ghost.setdefault("module_state", {})
            key = (mod.dotted, name)
            if key in ms:
                return ms[key][0]
            if isinstance(val, ast.Call) and isinstance(val.func, ast.Attribute) and val.func.attr == "getLogger":
                return LOGGER
            v = self.eval(val, {}, mod)
            if isinstance(v, (dict, list, set)):
                ms[key] = (v, _snapshot(v))
            return v
        raise Unsupported(f"global {name}")

    def builtin(self, name):
        from .builtins_model import BUILTINS

        ov = self.cx.externals.get("builtins." + name)
        if ov is not None:  # a contract may replace a builtin constructor by a model (e.g. dict -> a store sequence)
            return Builtin(name, ov)
        if name in BUILTINS:
            return Builtin(name, BUILTINS[name])
        raise Unsupported(f"name {name!r} is not defined in the model")

    # ---- statements ------------------------------------------------------------
    def exec_block(self, stmts, env, mod):
        for st in stmts:
            self.exec_stmt(st, env, mod)

    def is_logging_call(self, node) -> bool:
        if isinstance(node, ast.Expr) and isinstance(node.value, ast.Call):
            f = node.value.func
            while isinstance(f, ast.Attribute):
                f = f.value
            if isinstance(f, ast.Name) and f.id in ("logger", "logging", "numba_logger"):
                return True
            if isinstance(f, ast.Name) and f.id == "print":
                return True
        return False

    def exec_stmt(self, st, env, mod):
        cx = self.cx
        cx.loc = f"{mod.path.name}:{st.lineno}"
        if isinstance(st, ast.Expr):
            if isinstance(st.value, ast.Constant):
                return  # docstring
            if self.is_logging_call(st):
                return
            self.eval(st.value, env, mod)
        elif isinstance(st, ast.Assign):
            val = self.eval(st.value, env, mod)
            for tgt in st.targets:
                self.assign(tgt, val, env, mod)
        elif isinstance(st, ast.AnnAssign):
            if st.value is not None:
                self.assign(st.target, self.eval(st.value, env, mod), env, mod)
        elif isinstance(st, ast.AugAssign):
            self.aug_assign(st, env, mod)
        elif isinstance(st, ast.If):
            c = self.truth(self.eval(st.test, env, mod))
            if cx.fork(c):
                self.exec_block(st.body, env, mod)
            else:
                self.exec_block(st.orelse, env, mod)
        elif isinstance(st, ast.Return):
            raise ReturnSignal(self.eval(st.value, env, mod) if st.value is not None else None)
        elif isinstance(st, ast.Raise):
            self.do_raise(st, env, mod)
        elif isinstance(st, ast.For):
            self.exec_for(st, env, mod)
        elif isinstance(st, ast.While):
            self.exec_while(st, env, mod)
        elif isinstance(st, ast.Pass):
            return
        elif isinstance(st, ast.Try):
            self.exec_try(st, env, mod)
        elif isinstance(st, ast.With):
            self.exec_with(st, env, mod)
        elif isinstance(st, ast.Delete):
            for t in st.targets:
                if isinstance(t, ast.Subscript):
                    cont = self.eval(t.value, env, mod)
                    key = self.eval(t.slice, env, mod)
                    if isinstance(cont, dict):
                        del cont[key]
                        continue
                raise Unsupported("del target")
        elif isinstance(st, ast.Break):
            raise BreakSignal()
        elif isinstance(st, ast.Continue):
            raise ContinueSignal()
        elif isinstance(st, ast.FunctionDef):
            for d in st.decorator_list:
                if ast.unparse(d.func if isinstance(d, ast.Call) else d) not in _DROPPED_DECORATORS:
                    raise Unsupported(f"decorator @{ast.unparse(d)} on the local function {st.name} is not modelled")
            env[st.name] = LocalFunc(st, env, mod)
        elif isinstance(st, (ast.Import, ast.ImportFrom)):
            return
        elif isinstance(st, ast.Assert):
            c = self.truth(self.eval(st.test, env, mod))
            cx.oblige("assert", V.to_z3(c) if not isinstance(c, bool) else c, kind="assert")
        else:
            raise Unsupported(f"statement {type(st).__name__} at {cx.loc}")

    def exec_while(self, st, env, mod):
        """`while True:` loop of a generator, verified by induction against the contract's loop invariant:
        (1) the invariant holds on entry (iteration 0); (2) from an ARBITRARY iteration k >= 0 whose state satisfies
        the invariant (variables assigned in the body are havocked), one execution of the body re-establishes it for
        k + 1. The values yielded in iteration k are handed to the postcondition (GeneratorRun), which therefore speaks
        about every iteration. No other loop form is supported."""
        cx = self.cx
        inv = cx.ghost.get("loop_invariant")
        if inv is None or not (isinstance(st.test, ast.Constant) and st.test.value is True) or st.orelse:
            raise Unsupported("while loop (only `while True` generator loops with a contract invariant are supported)")
        for label, f in inv(cx, env, 0):
            cx.oblige(f"loop invariant holds on entry: {label}", f, kind="invariant")
        assigned = set()
        for n in ast.walk(ast.Module(body=st.body, type_ignores=[])):
            if isinstance(n, (ast.Assign, ast.AugAssign, ast.AnnAssign)):
                for t in n.targets if isinstance(n, ast.Assign) else [n.target]:
                    for m in ast.walk(t):
                        if isinstance(m, ast.Name):
                            assigned.add(m.id)
                        elif isinstance(m, (ast.Attribute, ast.Subscript)):
                            raise Unsupported("while loop body assigns to an attribute or element")
            elif isinstance(n, (ast.Break, ast.Return, ast.While, ast.For)):
                raise Unsupported("control flow inside a while loop body")
        k = z3.Int("iteration_k")
        cx.assume(k >= 0)
        for name in sorted(assigned):
            old = env.get(name)
            kind = V.kind_of(old) if old is not None else "int"
            if kind not in ("int", "real", "bool"):
                raise Unsupported(f"loop variable {name} is not a scalar")
            env[name] = {"int": z3.Int, "real": z3.Real, "bool": z3.Bool}[kind](f"{name}@k")
        for _label, f in inv(cx, env, k):
            cx.assume_item(f)
        cx.ghost["yields"] = []
        self.exec_block(st.body, env, mod)
        for label, f in inv(cx, env, k + 1):
            cx.oblige(f"loop invariant preserved by the body: {label}", f, kind="invariant")
        raise ReturnSignal(GeneratorRun(k, cx.ghost.pop("yields")))

    def do_raise(self, st, env, mod):
        """an explicit ``raise`` statement of the code: a DELIBERATE stop (flag ``explicit``), as opposed to an exception
        that escapes from inside an operation"""
        try:
            self._do_raise(st, env, mod)
        except PyRaise as e:
            e.explicit = True
            raise

    def _do_raise(self, st, env, mod):
        exc = st.exc
        if exc is None:
            raise Unsupported("bare raise")
        if isinstance(exc, ast.Call):
            nm = ast.unparse(exc.func)
            last = nm.split(".")[-1]
            if _looks_like_exception_class(last) and last not in env:
                args = []
                for a in exc.args:
                    if isinstance(a, ast.Constant):
                        args.append(a.value)
                raise PyRaise(last, tuple(args))
            # `raise helper(...)`: the helper builds the exception object
            val = self.eval(exc, env, mod)
            if isinstance(val, PyRaise):
                raise val
            raise Unsupported(f"raise of the value of {nm}(...): not an exception object the generator models")
        if isinstance(exc, ast.Name):
            val = env.get(exc.id)
            if isinstance(val, PyRaise):
                raise val
            if _looks_like_exception_class(exc.id):
                raise PyRaise(exc.id)
            raise Unsupported(f"raise of {exc.id}: not an exception object the generator models")
        raise Unsupported("raise form")

    def exec_try(self, st, env, mod):
        try:
            self.exec_block(st.body, env, mod)
        except PyRaise as e:
            for h in st.handlers:
                names = []
                if h.type is None:
                    names = None
                elif isinstance(h.type, ast.Tuple):
                    names = [ast.unparse(x).split(".")[-1] for x in h.type.elts]
                else:
                    names = [ast.unparse(h.type).split(".")[-1]]
                if names is None or e.cls in names or "Exception" in names or (
                    "OSError" in names and e.cls in ("FileNotFoundError", "PermissionError")
                ):
                    if h.name:
                        env[h.name] = e
                    self.exec_block(h.body, env, mod)
                    break
            else:
                raise
        else:
            self.exec_block(st.orelse, env, mod)
        finally:
            if st.finalbody:
                self.exec_block(st.finalbody, env, mod)

    def exec_with(self, st, env, mod):
        for item in st.items:
            val = self.eval(item.context_expr, env, mod)
            if item.optional_vars is not None:
                self.assign(item.optional_vars, val, env, mod)
        self.exec_block(st.body, env, mod)
        for item in st.items:
            val = self.eval(item.context_expr, env, mod) if False else None
        # __exit__ of modelled objects (file close) is reported via the ghost trace by the model object

    # ---- loops ---------------------------------------------------------------
    def exec_for(self, st, env, mod):
        it = self.eval(st.iter, env, mod)
        if isinstance(it, SymRange):
            return self.map_loop(st, it, env, mod)
        if isinstance(it, ModelObject) and hasattr(it, "pv_for"):
            return it.pv_for(self, st, env, mod)  # a modelled sequence of symbolic length decides what a loop over it means
        seq = self.concrete_iter(it)
        broke = False
        for item in seq:
            self.assign(st.target, item, env, mod)
            try:
                self.exec_block(st.body, env, mod)
            except BreakSignal:
                broke = True
                break
            except ContinueSignal:
                continue
        if not broke:
            self.exec_block(st.orelse, env, mod)

    def concrete_iter(self, it):
        if isinstance(it, (list, tuple, range)):
            return list(it)
        if isinstance(it, set):
            return sorted(it, key=repr)
        if isinstance(it, dict):
            return list(it.keys())
        if isinstance(it, type({}.items())) or isinstance(it, type({}.values())) or isinstance(it, type({}.keys())):
            return list(it)
        if isinstance(it, ModelObject) and hasattr(it, "pv_iter"):
            return it.pv_iter(self.cx)
        if isinstance(it, Obj) and getattr(it, "record_fields", None):
            return [it.attrs[k] for k in it.record_fields]  # a NamedTuple iterates over its fields
        if isinstance(it, Arr) and all(isinstance(d, int) for d in it.shape) and it.ndim == 1:
            return [it.at(i) for i in range(it.shape[0])]
        raise Unsupported(f"iteration over {type(it).__name__}")

    def map_loop(self, st, rng: "SymRange", env, mod):
        """``for n in range(N)`` whose body writes only element n of arrays.

        The body is executed once for a generic n; its paths are merged into
        If-terms and re-indexed (n := i) to define the arrays after the loop."""
        cx = self.cx
        if not isinstance(st.target, ast.Name) or st.orelse:
            raise Unsupported("loop target / else")
        n = cx.fresh("n")
        loop_id = cx.fresh_n
        cx.assume(z3.And(n >= V.to_z3(rng.start), n < V.to_z3(rng.stop)))
        results = []  # (conds, writes{arr: term})
        loop_facts = []
        all_skolems = []
        pending = [[]]
        pc_len = len(cx.pc)
        known_arrays_before = None
        while pending:
            dec = pending.pop()
            frame = dict(dec=list(dec), pos=0, pending=[], conds=[], skolems=[], n=n, fresh=0, id=loop_id)
            cx.frames.append(frame)
            univ0 = len(cx.univ)
            old_journal = cx.journal
            cx.journal = []
            env2 = dict(env)
            env2[st.target.id] = n
            ok = True
            try:
                self.exec_block(st.body, env2, mod)
            except PathInfeasible:
                ok = False
            except (BreakSignal, ContinueSignal, ReturnSignal) as e:
                raise Unsupported("break/continue/return in a symbolic-range loop") from e
            finally:
                journal = cx.journal
                cx.journal = old_journal
                cx.frames.pop()
            pending.extend(frame["pending"])
            body_facts = cx.univ[univ0:]
            del cx.univ[univ0:]
            cond_ids = {c.get_id() for c in frame["conds"]}
            plain = [f for f in cx.pc[pc_len:] if f.get_id() not in cond_ids]
            if ok and (body_facts or plain):
                loop_facts.append(LoopFact(n, V.to_z3(rng.start), V.to_z3(rng.stop), list(frame["conds"]), body_facts, list(frame["skolems"]), plain))
            all_skolems.extend(frame["skolems"])
            writes = {}
            if ok:
                # collect final element-n value of every array mutated in the body
                touched = []
                for arr, _fn, _shape, _kind in journal:
                    if arr not in touched:
                        touched.append(arr)
                for arr in touched:
                    if arr.ndim != 1:
                        raise Unsupported("loop body writes a non 1-D array")
                    writes[arr] = arr.fn(n)
                results.append((list(frame["conds"]), writes, [a for a in touched]))
            # undo heap effects of this body path
            for arr, fn, shape, kind in reversed(journal):
                arr.fn, arr.shape, arr.kind = fn, shape, kind
                if cx.journal is not None:
                    pass
            del cx.pc[pc_len:]
        # side condition: every write in the body was at index n (checked by probing another index)
        allarrs = []
        for _c, w, touched in results:
            for a in touched:
                if a not in allarrs:
                    allarrs.append(a)
        for arr in allarrs:
            old = arr.fn
            cases = []
            for conds, w, _t in results:
                if arr in w:
                    cases.append((z3.And(*conds) if conds else z3.BoolVal(True), w[arr]))

            def newfn(i, old=old, cases=cases, n=n, lo=V.to_z3(rng.start), hi=V.to_z3(rng.stop)):
                i = V.to_z3(i)
                for d in all_skolems:
                    V.APPS.setdefault(d.name(), {})[(i.get_id(),)] = (i,)
                val = old(i)
                for c, e in reversed(cases):
                    e = V.to_z3(e) if not isinstance(e, bool) else z3.BoolVal(e)
                    ce = z3.substitute(c, (n, i))
                    ee = z3.substitute(e, (n, i))
                    a, b = V._coerce(ee, val) if not z3.is_bool(ee) else (ee, V.to_z3(val))
                    val = z3.If(ce, a, b)
                a2, b2 = (val, V.to_z3(old(i)))
                if not z3.is_bool(a2):
                    a2, b2 = V._coerce(a2, b2)
                return z3.If(z3.And(i >= lo, i < hi), a2, b2)

            cx.set_arr(arr, fn=newfn)
        cx.univ.extend(loop_facts)
        cx.notes.append(f"map-loop at {mod.path.name}:{st.lineno} ({len(results)} body paths)")

    # ---- assignment ------------------------------------------------------------
    def assign(self, tgt, val, env, mod):
        if isinstance(tgt, ast.Name):
            env[tgt.id] = val
        elif isinstance(tgt, (ast.Tuple, ast.List)):
            items = self.unpack(val, len(tgt.elts))
            for t, v in zip(tgt.elts, items):
                self.assign(t, v, env, mod)
        elif isinstance(tgt, ast.Attribute):
            obj = self.eval(tgt.value, env, mod)
            self.set_attr(obj, tgt.attr, val)
        elif isinstance(tgt, ast.Subscript):
            cont = self.eval(tgt.value, env, mod)
            idx = self.eval_index(tgt.slice, env, mod)
            self.set_item(cont, idx, val)
        else:
            raise Unsupported(f"assignment target {type(tgt).__name__}")

    def unpack(self, val, n):
        if isinstance(val, (tuple, list)):
            if len(val) != n:
                raise PyRaise("ValueError", ("unpack",))
            return list(val)
        if isinstance(val, Arr) and val.ndim == 1 and isinstance(val.shape[0], int):
            return [val.at(i) for i in range(val.shape[0])]
        raise Unsupported(f"unpacking {type(val).__name__}")

    def set_attr(self, obj, name, val):
        if isinstance(obj, Obj):
            obj.attrs[name] = val
        elif isinstance(obj, ModelObject) and hasattr(obj, "pv_setattr"):
            obj.pv_setattr(self.cx, name, val)
        else:
            raise Unsupported(f"attribute store on {type(obj).__name__}")

    def set_item(self, cont, idx, val):
        if isinstance(cont, dict):
            if V.is_z3(idx):
                if isinstance(cont, PvDict) and len(cont) == 0:
                    cont.sym_stores.append((idx, val))
                    return
                raise Unsupported("symbolic dict key store")
            if isinstance(cont, PvDict) and cont.sym_stores:
                raise Unsupported("concrete key stored into a table keyed by symbolic values")
            cont[idx] = val
        elif isinstance(cont, list):
            cont[idx] = val
        elif isinstance(cont, Arr):
            self.npm.store(self.cx, cont, idx, val)
        elif isinstance(cont, Obj):
            m = self.find_method(cont, "__setitem__")
            if m is None:
                raise Unsupported(f"item assignment on an object of class {cont.cls} (no __setitem__ the generator can run)")
            self.call_value(m, [idx, val], {})
        elif isinstance(cont, ModelObject) and hasattr(cont, "pv_setitem"):
            cont.pv_setitem(self.cx, idx, val)
        else:
            raise Unsupported(f"item store on {type(cont).__name__}")

    def aug_assign(self, st, env, mod):
        op = _BINOPS[type(st.op)]
        tgt = st.target
        rhs = self.eval(st.value, env, mod)
        if isinstance(tgt, ast.Name):
            cur = env[tgt.id] if tgt.id in env else self.module_lookup(mod, tgt.id)
            if isinstance(cur, Arr):
                self.npm.inplace(self.cx, cur, op, rhs)
            else:
                env[tgt.id] = self.binop(op, cur, rhs)
        elif isinstance(tgt, ast.Attribute):
            obj = self.eval(tgt.value, env, mod)
            cur = self.get_attr(obj, tgt.attr)
            if isinstance(cur, Arr):
                self.npm.inplace(self.cx, cur, op, rhs)
            else:
                self.set_attr(obj, tgt.attr, self.binop(op, cur, rhs))
        elif isinstance(tgt, ast.Subscript):
            cont = self.eval(tgt.value, env, mod)
            idx = self.eval_index(tgt.slice, env, mod)
            cur = self.get_item(cont, idx)
            if isinstance(cur, Arr) and not isinstance(cur, Filtered) and isinstance(cont, (dict, Obj)):
                self.npm.inplace(self.cx, cur, op, rhs)  # d["u"] += x mutates the array object
            else:
                self.set_item(cont, idx, self.binop(op, cur, rhs))
        else:
            raise Unsupported("augmented assignment target")

    # ---- expressions -----------------------------------------------------------
    def truth(self, v):
        if isinstance(v, Arr):
            if v.ndim == 0:
                return V.sbool(v.at())
            raise PyRaise("ValueError", ("truth value of an array",))
        if isinstance(v, (Obj, PyFunc, BoundMethod, External, ClassRef, Closure, Builtin, ModuleRef)):
            return True
        if isinstance(v, ModelObject):
            if hasattr(v, "pv_truth"):
                return v.pv_truth(self.cx)
            return True
        return V.sbool(v)

    def eval_index(self, node, env, mod):
        if isinstance(node, ast.Tuple):
            return tuple(self.eval_index(e, env, mod) for e in node.elts)
        if isinstance(node, ast.Slice):
            return slice(
                self.eval(node.lower, env, mod) if node.lower else None,
                self.eval(node.upper, env, mod) if node.upper else None,
                self.eval(node.step, env, mod) if node.step else None,
            )
        return self.eval(node, env, mod)

    def eval(self, node, env, mod):
        m = getattr(self, "e_" + type(node).__name__, None)
        if m is None:
            raise Unsupported(f"expression {type(node).__name__} at {self.cx.loc}")
        return m(node, env, mod)

    def e_Constant(self, node, env, mod):
        v = node.value
        if isinstance(v, float):
            return Fraction(repr(v))
        return v

    def e_Name(self, node, env, mod):
        if node.id in env:
            return env[node.id]
        return self.module_lookup(mod, node.id)

    def e_Tuple(self, node, env, mod):
        out = []
        for e in node.elts:
            if isinstance(e, ast.Starred):
                out.extend(self.concrete_iter(self.eval(e.value, env, mod)))
            else:
                out.append(self.eval(e, env, mod))
        return tuple(out)

    def e_List(self, node, env, mod):
        return list(self.e_Tuple(node, env, mod))

    def e_Set(self, node, env, mod):
        return set(self.e_Tuple(node, env, mod))

    def e_Dict(self, node, env, mod):
        d = PvDict() if not node.keys else {}
        for k, v in zip(node.keys, node.values):
            if k is None:
                d.update(self.eval(v, env, mod))
            else:
                d[self.eval(k, env, mod)] = self.eval(v, env, mod)
        return d

    def e_JoinedStr(self, node, env, mod):
        if not self.cx.ghost.get("structured_fstrings"):
            return "<fstring>"
        from .strings import build_fstring

        return build_fstring(self, node, env, mod)

    def e_Yield(self, node, env, mod):
        # only inside a `while True` loop verified against a loop invariant (exec_while)
        if "yields" not in self.cx.ghost:
            raise Unsupported("yield outside a loop with an invariant")
        self.cx.ghost["yields"].append(self.eval(node.value, env, mod) if node.value is not None else None)
        return None

    def e_Lambda(self, node, env, mod):
        return Closure(node, dict(env), mod)

    def e_Attribute(self, node, env, mod):
        obj = self.eval(node.value, env, mod)
        return self.get_attr(obj, node.attr)

    def e_Subscript(self, node, env, mod):
        cont = self.eval(node.value, env, mod)
        idx = self.eval_index(node.slice, env, mod)
        return self.get_item(cont, idx)

    def e_UnaryOp(self, node, env, mod):
        v = self.eval(node.operand, env, mod)
        if isinstance(node.op, ast.Not):
            return V.s_not(self.truth(v))
        if isinstance(node.op, ast.USub):
            if isinstance(v, Arr):
                return self.npm.map1(v, V.s_neg, v.kind if v.kind != "bool" else "int")
            return V.s_neg(v)
        if isinstance(node.op, ast.UAdd):
            return v
        if isinstance(node.op, ast.Invert):
            if isinstance(v, Arr):
                if v.kind != "bool":
                    raise Unsupported("~ on a non-boolean array")
                return self.npm.map1(v, V.s_not, "bool")
            if V.kind_of(v) == "bool":
                return V.s_not(v)
            raise Unsupported("~ on integers")
        raise Unsupported("unary operator")

    def binop(self, op, a, b):
        if isinstance(a, ModelObject) and hasattr(a, "pv_binop"):
            return a.pv_binop(self.cx, op, b)
        if isinstance(a, Arr) or isinstance(b, Arr):
            return self.npm.elementwise(self.cx, op, a, b)
        if op == "+" and isinstance(a, (list, tuple, str)) and isinstance(b, type(a)):
            return a + b
        if op == "*" and isinstance(a, (list, str)) and isinstance(b, int):
            return a * b
        if op == "-" and isinstance(a, set) and isinstance(b, set):
            return a - b
        if op == "|" and isinstance(a, set) and isinstance(b, set):
            return a | b
        if op in ("&", "^") and isinstance(a, set) and isinstance(b, set):
            return a & b if op == "&" else a ^ b
        if op in ("&", "|"):
            ka, kb = V.kind_of(a), V.kind_of(b)
            if ka == "bool" and kb == "bool":
                return V.s_and(a, b) if op == "&" else V.s_or(a, b)
            raise Unsupported("bitwise operator on integers")
        if op == "%" and isinstance(a, str):
            return "<fmt>"
        if op in ("/", "//", "%") and V.is_z3(b):
            self.cx.oblige("divisor is not zero", V.s_cmp("!=", b, 0), kind="div")
        return V.s_binop(op, a, b)

    def e_BinOp(self, node, env, mod):
        a = self.eval(node.left, env, mod)
        b = self.eval(node.right, env, mod)
        return self.binop(_BINOPS[type(node.op)], a, b)

    def e_BoolOp(self, node, env, mod):
        cx = self.cx
        is_and = isinstance(node.op, ast.And)
        vals = []
        n0 = len(cx.pc)
        result = None
        guards = []
        try:
            for i, e in enumerate(node.values):
                v = self.eval(e, env, mod)
                t = self.truth(v)
                if isinstance(t, bool):
                    if (is_and and not t) or (not is_and and t):
                        # short circuit with a concrete value
                        if not vals:
                            return v
                        vals.append(t)
                        break
                    if i == len(node.values) - 1 and not vals:
                        return v
                    continue
                vals.append(t)
                if i < len(node.values) - 1:
                    g = t if is_and else z3.Not(t)
                    guards.append((len(cx.pc), g))
                    cx.pc.append(g)
        finally:
            # facts assumed while evaluating later operands hold under the guards in force at that point
            gpos = {pos for pos, _g in guards}
            kept = []
            active = []
            for pos in range(n0, len(cx.pc)):
                f = cx.pc[pos]
                if pos in gpos:
                    active.append(f)
                else:
                    kept.append(z3.Implies(z3.And(*active), f) if active else f)
            del cx.pc[n0:]
            cx.pc.extend(kept)
        zs = [V.to_z3(x) if not isinstance(x, bool) else z3.BoolVal(x) for x in vals]
        if not zs:
            return is_and
        result = z3.And(*zs) if is_and else z3.Or(*zs)
        return z3.simplify(result)

    def e_Compare(self, node, env, mod):
        left = self.eval(node.left, env, mod)
        res = None
        for op, rn in zip(node.ops, node.comparators):
            right = self.eval(rn, env, mod)
            r = self.compare(op, left, right)
            res = r if res is None else self.and_vals(res, r)
            left = right
        return res

    def and_vals(self, a, b):
        if isinstance(a, Arr) or isinstance(b, Arr):
            return self.npm.elementwise(self.cx, "and", a, b)
        return V.s_and(a, b)

    def compare(self, op, a, b):
        if isinstance(op, (ast.In, ast.NotIn)):
            r = self.contains(b, a)
            return V.s_not(r) if isinstance(op, ast.NotIn) else r
        if isinstance(op, (ast.Is, ast.IsNot)):
            if b is None or a is None:
                r = a is b
            else:
                r = a is b
            return (not r) if isinstance(op, ast.IsNot) else r
        o = _CMPOPS[type(op)]
        if isinstance(a, ModelObject) and hasattr(a, "compare"):
            return a.compare(o, b)
        if isinstance(b, ModelObject) and hasattr(b, "compare"):
            return b.compare({"<": ">", "<=": ">=", ">": "<", ">=": "<=", "==": "==", "!=": "!="}[o], a)
        if isinstance(a, Arr) or isinstance(b, Arr):
            return self.npm.elementwise(self.cx, o, a, b)
        if isinstance(a, (tuple, list)) and isinstance(b, (tuple, list)):
            if o in ("==", "!="):
                if len(a) != len(b):
                    return o == "!="
                r = True
                for x, y in zip(a, b):
                    r = V.s_and(r, V.s_cmp("==", x, y))
                return r if o == "==" else V.s_not(r)
        if isinstance(a, (Obj, ModelObject)) or isinstance(b, (Obj, ModelObject)):
            for x, y in ((a, b), (b, a)):
                if isinstance(x, ModelObject) and hasattr(x, "pv_eq"):
                    r = x.pv_eq(self.cx, y)
                    return r if o == "==" else V.s_not(r)
            if o == "==":
                return a is b
            if o == "!=":
                return a is not b
        return V.s_cmp(o, a, b)

    def contains(self, cont, item):
        if isinstance(cont, (list, tuple, set, dict)) or isinstance(cont, type({}.keys())):
            if V.is_z3(item):
                r = False
                for c in cont:
                    r = V.s_or(r, V.s_cmp("==", item, c))
                return r
            if isinstance(cont, str):
                return item in cont
            for c in cont:
                if V.is_z3(c):
                    raise Unsupported("membership among symbolic elements")
            return item in cont
        if isinstance(cont, str):
            if isinstance(item, str):
                return item in cont
            raise Unsupported("symbolic substring test")
        if isinstance(cont, ModelObject) and hasattr(cont, "pv_contains"):
            return cont.pv_contains(self.cx, item)
        raise Unsupported(f"membership in {type(cont).__name__}")

    def e_IfExp(self, node, env, mod):
        cx = self.cx
        c = self.truth(self.eval(node.test, env, mod))
        if isinstance(c, bool):
            return self.eval(node.body if c else node.orelse, env, mod)
        a = self.guarded_eval(c, node.body, env, mod)
        b = self.guarded_eval(z3.Not(c), node.orelse, env, mod)
        if isinstance(a, Arr) or isinstance(b, Arr) or not _scalarish(a) or not _scalarish(b):
            if cx.fork(c):
                return a
            return b
        return V.s_ite(c, a, b)

    def guarded_eval(self, guard, node, env, mod):
        """Evaluate under a temporary hypothesis; facts assumed meanwhile are kept as implications."""
        cx = self.cx
        n0 = len(cx.pc)
        cx.pc.append(guard)
        try:
            return self.eval(node, env, mod)
        finally:
            kept = [z3.Implies(guard, f) for f in cx.pc[n0 + 1 :]]
            del cx.pc[n0:]
            cx.pc.extend(kept)

    def e_ListComp(self, node, env, mod):
        return self.comprehension(node, env, mod, "list")

    def e_SetComp(self, node, env, mod):
        return set(self.comprehension(node, env, mod, "list"))

    def e_GeneratorExp(self, node, env, mod):
        return self.comprehension(node, env, mod, "list")

    def e_DictComp(self, node, env, mod):
        return self.comprehension(node, env, mod, "dict")

    def comprehension(self, node, env, mod, kind):
        if len(node.generators) != 1:
            raise Unsupported("nested comprehension")
        gen = node.generators[0]
        it = self.eval(gen.iter, env, mod)
        if isinstance(it, ModelObject) and hasattr(it, "pv_comprehension"):
            return it.pv_comprehension(self, node, env, mod)
        out = [] if kind == "list" else {}
        for item in self.concrete_iter(it):
            env2 = dict(env)
            self.assign(gen.target, item, env2, mod)
            ok = True
            for cond in gen.ifs:
                c = self.truth(self.eval(cond, env2, mod))
                if not isinstance(c, bool):
                    c = self.cx.fork(c)
                if not c:
                    ok = False
                    break
            if not ok:
                continue
            if kind == "list":
                out.append(self.eval(node.elt, env2, mod))
            else:
                out[self.eval(node.key, env2, mod)] = self.eval(node.value, env2, mod)
        return out

    def e_Starred(self, node, env, mod):
        raise Unsupported("starred expression")

    # ---- attribute / item access -------------------------------------------------
    def find_method(self, obj: Obj, name: str):
        if obj.cls is None:
            return None
        dotted, _, cname = obj.cls.rpartition(".")
        if not self.repo.has_module(dotted):
            return None
        r = self.repo.find_method(self.repo.module(dotted), cname, name)
        if r is None:
            return None
        m, cn, node = r
        pf = PyFunc(f"{m.dotted}.{cn}.{node.name}", m, cn, node)
        decos = {ast.unparse(d.func if isinstance(d, ast.Call) else d) for d in node.decorator_list}
        if "staticmethod" in decos:
            return pf  # called without the instance
        if "classmethod" in decos or "property" in decos:
            raise Unsupported(f"@{'classmethod' if 'classmethod' in decos else 'property'} {pf.qual} is not modelled")
        return BoundMethod(obj, pf)

    def scalar_attr_kind(self, cls, name):
        """'int' / 'real' / 'bool' when every assignment `self.<name> = ...` in the class is a numeric constant or an
        arithmetic update of the attribute itself (a counter); None otherwise."""
        dotted, _, cname = (cls or "").rpartition(".")
        if not cls or not self.repo.has_module(dotted):
            return None
        rec = self.repo.module(dotted).classes.get(cname)
        if not rec:
            return None
        kinds = set()
        for n in ast.walk(rec["node"]):
            tgt = None
            if isinstance(n, ast.Assign) and len(n.targets) == 1:
                tgt, val = n.targets[0], n.value
            elif isinstance(n, ast.AnnAssign) and n.value is not None:
                tgt, val = n.target, n.value
            elif isinstance(n, ast.AugAssign):
                tgt, val = n.target, None
            if not (isinstance(tgt, ast.Attribute) and tgt.attr == name and isinstance(tgt.value, ast.Name) and tgt.value.id == "self"):
                continue
            if val is None:
                continue  # self.x += ... keeps the kind
            if isinstance(val, ast.Constant) and isinstance(val.value, bool):
                kinds.add("bool")
            elif isinstance(val, ast.Constant) and isinstance(val.value, int):
                kinds.add("int")
            elif isinstance(val, ast.Constant) and isinstance(val.value, float):
                kinds.add("real")
            elif isinstance(val, ast.BinOp) and any(isinstance(m, ast.Attribute) and m.attr == name for m in ast.walk(val)):
                continue  # self.x = self.x + 1
            else:
                return None
        return kinds.pop() if len(kinds) == 1 else None

    def class_assigns_attr(self, cls, name, _depth=0):
        if not cls or _depth > 5:
            return False
        dotted, _, cname = cls.rpartition(".")
        if not self.repo.has_module(dotted):
            return False
        mod = self.repo.module(dotted)
        rec = mod.classes.get(cname)
        if not rec:
            return False
        for n in ast.walk(rec["node"]):
            if isinstance(n, ast.Attribute) and n.attr == name and isinstance(n.ctx, ast.Store) and isinstance(n.value, ast.Name) and n.value.id == "self":
                return True
        for b in rec["bases"]:
            g = mod.globals.get(b.split(".")[-1])
            if g and g[0] == "class":
                if self.class_assigns_attr(f"{dotted}.{g[1]}", name, _depth + 1):
                    return True
            elif g and g[0] == "import":
                if self.class_assigns_attr(g[1], name, _depth + 1):
                    return True
        return False

    def get_attr(self, obj, name):
        if isinstance(obj, Obj):
            if name in obj.attrs:
                return obj.attrs[name]
            m = self.find_method(obj, name)
            if m is not None:
                return m
            if obj.cls:
                dotted, _, cname = obj.cls.rpartition(".")
                if self.repo.has_module(dotted):
                    cls = self.repo.module(dotted).classes.get(cname)
                    if cls and name in cls["consts"]:
                        return self.eval(cls["consts"][name], {}, self.repo.module(dotted))
            if self.class_assigns_attr(obj.cls, name):
                kind = self.scalar_attr_kind(obj.cls, name)
                if kind is not None:
                    # a scalar the class keeps (e.g. a call counter) that the contract does not describe: ANY value.
                    # Obligations that discharge hold whatever it is; a refutation that needs a particular value of it
                    # is reported as undecided (spec._run_unit), because the class may maintain an invariant on it.
                    sym = {"int": z3.Int, "real": z3.Real, "bool": z3.Bool}[kind](f"unknown_attr_{name}")
                    obj.attrs[name] = sym
                    self.cx.ghost.setdefault("havoc_attrs", set()).add(name)
                    return sym
                # the real object would carry this attribute (some method of its class assigns it) but the contract's
                # pre-state does not describe it: the function reads state outside the contract -> undecided
                raise Unsupported(f"attribute {name!r} of {obj.cls} is assigned by the class but not described by the contract's pre-state")
            ga = self.find_method(obj, "__getattr__")
            if ga is not None:
                return self.call_value(ga, [name], {})
            # the generator's object model is an approximation (class attributes, descriptors, records ...): an
            # attribute it cannot find is "cannot decide", not an AttributeError of the code under verification
            if obj.cls is None:
                raise PyRaise("AttributeError", (name,))  # a plain record built by a contract: it has exactly its fields
            raise Unsupported(f"attribute {name!r} not found on the modelled object of class {obj.cls}")
        if isinstance(obj, ModelObject):
            return obj.pv_getattr(self.cx, name)
        if isinstance(obj, ModuleRef):
            full = f"{obj.dotted}.{name}"
            if isinstance(self.cx.externals.get(full), ModelObject):
                return self.cx.externals[full]  # an external OBJECT under an assumed contract (e.g. sys.modules)
            if self.repo.has_module(obj.dotted):
                return self.module_lookup(self.repo.module(obj.dotted), name)
            return self.npm.module_attr(self, full)
        if isinstance(obj, Arr):
            return self.npm.arr_attr(self, obj, name)
        if isinstance(obj, ClassRef):
            r = self.repo.find_method(obj.mod, obj.name, name)
            if r:
                m, cn, node = r
                return PyFunc(f"{m.dotted}.{cn}.{node.name}", m, cn, node)
            raise Unsupported(f"attribute {name!r} of class {obj.name} is not modelled")
        if isinstance(obj, dict):
            if name in ("get", "items", "keys", "values", "pop", "copy", "update", "setdefault"):
                return Builtin("dict." + name, _dict_method(obj, name))
        if isinstance(obj, list):
            if name in ("append", "extend", "index", "sort", "copy"):
                return Builtin("list." + name, _list_method(self, obj, name))
        if isinstance(obj, set):
            if name in ("union", "add"):
                return Builtin("set." + name, _set_method(obj, name))
        from .numpy_model import DType as _DT

        if isinstance(obj, _DT) and name in ("kind", "name", "itemsize"):
            nm = str(obj.name)
            if name == "kind":  # numpy's one-letter kind code
                if nm.startswith(("M8", "datetime64")):
                    return "M"
                if nm.startswith(("m8", "timedelta64")):
                    return "m"
                if nm.startswith(("u", "uint")):
                    return "u"
                return {"real": "f", "int": "i", "bool": "b"}.get(obj.kind, "O")
            if name == "name":
                return nm
            raise Unsupported("dtype.itemsize")
        if isinstance(obj, slice) and name in ("start", "stop", "step"):
            return getattr(obj, name)
        if isinstance(obj, str):
            return Builtin("str." + name, _str_method(obj, name))
        if isinstance(obj, PyRaise):
            return None
        if V.is_z3(obj) or isinstance(obj, (int, Fraction)):
            return self.npm.scalar_attr(self, obj, name)
        raise Unsupported(f"attribute {name!r} of {type(obj).__name__}")

    def get_item(self, cont, idx):
        if isinstance(cont, Arr):
            return self.npm.index(self.cx, cont, idx)
        if isinstance(cont, dict):
            if V.is_z3(idx):
                raise Unsupported("symbolic key lookup in a concrete dict")
            if idx not in cont:
                raise PyRaise("KeyError", (idx,))
            return cont[idx]
        if isinstance(cont, (list, tuple)):
            if isinstance(idx, slice):
                return cont[idx]
            if V.is_z3(idx):
                i = z3.simplify(idx)
                if z3.is_int_value(i):
                    idx = i.as_long()
                else:
                    raise Unsupported("symbolic index into a concrete list")
            try:
                return cont[idx]
            except IndexError:
                raise PyRaise("IndexError", ("list index out of range",)) from None
        if isinstance(cont, str):
            return cont[idx]
        if isinstance(cont, Obj) and getattr(cont, "record_fields", None) and isinstance(idx, int):
            return cont.attrs[cont.record_fields[idx]]
        if isinstance(cont, Obj):
            m = self.find_method(cont, "__getitem__")
            if m is None:
                raise Unsupported(f"subscript of an object of class {cont.cls} (no __getitem__ the generator can run)")
            return self.call_value(m, [idx], {})
        if isinstance(cont, ModelObject):
            return cont.pv_getitem(self.cx, idx)
        raise Unsupported(f"subscript of {type(cont).__name__}")

    # ---- calls -----------------------------------------------------------------
    def e_Call(self, node, env, mod):
        # super().__init__(...)
        if isinstance(node.func, ast.Attribute) and isinstance(node.func.value, ast.Call) and isinstance(node.func.value.func, ast.Name) and node.func.value.func.id == "super":
            return self.call_super(node, env, mod)
        f = self.eval(node.func, env, mod)
        args = []
        for a in node.args:
            if isinstance(a, ast.Starred):
                args.extend(self.concrete_iter(self.eval(a.value, env, mod)))
            else:
                args.append(self.eval(a, env, mod))
        kwargs = {}
        for k in node.keywords:
            if k.arg is None:
                kv = self.eval(k.value, env, mod)
                if isinstance(kv, ModelObject) and hasattr(kv, "pv_mapping"):
                    kv = kv.pv_mapping(self.cx)
                kwargs.update(kv)
            else:
                kwargs[k.arg] = self.eval(k.value, env, mod)
        self.cx.loc = f"{mod.path.name}:{node.lineno}"
        return self.call_value(f, args, kwargs)

    def call_super(self, node, env, mod):
        meth = node.func.attr
        selfobj = env.get("self")
        cname = env.get("__class__")
        if selfobj is None or cname is None:
            raise Unsupported("super() outside a method")
        cls = mod.classes[cname]
        args = [self.eval(a, env, mod) for a in node.args]
        kwargs = {k.arg: self.eval(k.value, env, mod) for k in node.keywords}
        for b in cls["bases"]:
            g = mod.globals.get(b)
            target = None
            if g and g[0] == "class":
                target = self.repo.find_method(mod, b, meth)
            elif g and g[0] == "import":
                dotted, _, bname = g[1].rpartition(".")
                if self.repo.has_module(dotted):
                    target = self.repo.find_method(self.repo.module(dotted), bname, meth)
            if target:
                m, cn, fnode = target
                return self.call_value(BoundMethod(selfobj, PyFunc(f"{m.dotted}.{cn}.{fnode.name}", m, cn, fnode)), args, kwargs)
        return None

    def call_value(self, f, args, kwargs):
        cx = self.cx
        if isinstance(f, Builtin):
            return f.fn(self, *args, **kwargs)
        if isinstance(f, External):
            if f.dotted in cx.externals:
                return cx.externals[f.dotted](self, *args, **kwargs)
            return self.npm.call_external(self, f.dotted, args, kwargs)
        if isinstance(f, BoundMethod):
            return self.call_pyfunc(f.func, [f.obj, *args], kwargs)
        if isinstance(f, PyFunc):
            return self.call_pyfunc(f, args, kwargs)
        if isinstance(f, Closure):
            env = dict(f.env)
            a = f.node.args
            for p, v in zip(a.args, args):
                env[p.arg] = v
            return self.eval(f.node.body, env, f.mod)
        if isinstance(f, ClassRef):
            if f.qual in cx.specs:
                cx.called_specs.add(f.qual)
                return cx.specs[f.qual](self, args, kwargs)
            obj = Obj(f.qual)
            init = self.find_method(obj, "__init__")
            if init is not None:
                self.call_value(init, args, kwargs)
                return obj
            rec = f.mod.classes.get(f.name) if hasattr(f.mod, "classes") else None
            if rec is not None:
                decos = {ast.unparse(d.func if isinstance(d, ast.Call) else d).split(".")[-1] for d in rec["node"].decorator_list}
                is_record = any(b.split(".")[-1] == "NamedTuple" for b in rec["bases"]) or "dataclass" in decos
                if is_record:
                    return self.make_record(f, rec, args, kwargs)
            if args or kwargs or rec is None:
                raise Unsupported(f"construction of {f.qual}: the class has no __init__ the generator can run")
            return obj
        if isinstance(f, LocalFunc):
            pf = PyFunc(f"<local {f.node.name}>", f.mod, None, f.node)
            env = dict(f.env)
            env.update(self.bind_args(pf, args, kwargs))
            saved = self.cx.loc
            try:
                self.exec_block(f.node.body, env, f.mod)
            except ReturnSignal as r:
                return r.value
            finally:
                self.cx.loc = saved
            return None
        if isinstance(f, ModelObject) and hasattr(f, "pv_call"):
            return f.pv_call(self, args, kwargs)
        if callable(f) and getattr(f, "_pyvc_model", False):
            return f(self, *args, **kwargs)
        raise Unsupported(f"call of {f!r}")

    def make_record(self, f, rec, args, kwargs):
        """typing.NamedTuple / @dataclass: fields are the annotated class-level names, in order (defaults allowed)."""
        fields, defaults = [], {}
        for st in rec["node"].body:
            if isinstance(st, ast.AnnAssign) and isinstance(st.target, ast.Name):
                fields.append(st.target.id)
                if st.value is not None:
                    defaults[st.target.id] = st.value
        if len(args) > len(fields):
            raise PyRaise("TypeError", (f"{f.name}() takes {len(fields)} positional arguments",))
        vals = dict(zip(fields, args))
        for k, v in kwargs.items():
            if k not in fields or k in vals:
                raise PyRaise("TypeError", (f"{f.name}() got an unexpected or repeated keyword argument {k!r}",))
            vals[k] = v
        for k in fields:
            if k not in vals:
                if k not in defaults:
                    raise PyRaise("TypeError", (f"{f.name}() missing argument {k!r}",))
                vals[k] = self.eval(defaults[k], {}, f.mod)
        obj = Obj(f.qual, **{k: vals[k] for k in fields})
        obj.record_fields = tuple(fields) if any(b.split(".")[-1] == "NamedTuple" for b in rec["bases"]) else None
        return obj

    def call_pyfunc(self, f: PyFunc, args, kwargs):
        cx = self.cx
        if f.qual in cx.specs:
            cx.called_specs.add(f.qual)
            return cx.specs[f.qual](self, args, kwargs)
        if cx.inline_ok is not None and f.qual not in cx.inline_ok:
            if f.qual in KNOWN_CONTRACTS:
                # a function that HAS a contract must be called through it (modularity), not silently inlined
                raise Unsupported(f"call of {f.qual}: it has a contract but the unit lists it neither as callee nor as inlined")
            note = f"{f.qual}: no contract exists for this repository function; its body is inlined into the caller's VC"
            if note not in cx.notes:
                cx.notes.append(note)
        cx.inlined.add(f.qual)
        return self.run_function(f, args, kwargs)

    def bind_args(self, f: PyFunc, args, kwargs):
        a = f.node.args
        env = {}
        params = [p.arg for p in a.posonlyargs + a.args]
        defaults = a.defaults
        nd = len(defaults)
        args = list(args)
        kwargs = dict(kwargs)
        for i, p in enumerate(params):
            if i < len(args):
                env[p] = args[i]
            elif p in kwargs:
                env[p] = kwargs.pop(p)
            else:
                di = i - (len(params) - nd)
                if di < 0:
                    raise Unsupported(f"call of {f.qual}: no value for parameter {p} (signature as the generator models it)")
                env[p] = self.eval(defaults[di], {}, f.mod)
        if len(args) > len(params):
            if a.vararg:
                env[a.vararg.arg] = tuple(args[len(params) :])
            else:
                raise Unsupported(f"call of {f.qual}: more positional arguments than parameters (signature as the generator models it)")
        elif a.vararg:
            env[a.vararg.arg] = ()
        for p, d in zip(a.kwonlyargs, a.kw_defaults):
            if p.arg in kwargs:
                env[p.arg] = kwargs.pop(p.arg)
            elif d is not None:
                env[p.arg] = self.eval(d, {}, f.mod)
            else:
                raise Unsupported(f"call of {f.qual}: no value for keyword parameter {p.arg}")
        if a.kwarg:
            env[a.kwarg.arg] = kwargs
        elif kwargs:
            raise Unsupported(f"call of {f.qual}: unexpected keyword {list(kwargs)}")
        if f.cname:
            env["__class__"] = f.cname
        return env

    def run_function(self, f: PyFunc, args, kwargs):
        # decorators the extraction may drop (DESIGN.md section 3); any other decorator changes what a call does
        # (caching, properties, context managers ...) and is not modelled
        for d in f.node.decorator_list:
            nm = ast.unparse(d.func if isinstance(d, ast.Call) else d)
            if nm not in _DROPPED_DECORATORS:
                raise Unsupported(f"decorator @{ast.unparse(d)} on {f.qual} is not modelled")
        env = self.bind_args(f, args, kwargs)
        saved = self.cx.loc
        try:
            self.exec_block(f.node.body, env, f.mod)
        except ReturnSignal as r:
            return r.value
        finally:
            self.cx.loc = saved
        return None


KNOWN_CONTRACTS: set = set()  # qualified names of repository functions some Spec is written for (filled by pyvc.check)


def _looks_like_exception_class(name: str) -> bool:
    return name in ("SystemExit", "KeyboardInterrupt", "StopIteration", "Exception", "BaseException") or name.endswith("Error") or name.endswith("Exception") or name.endswith("Warning")


_DROPPED_DECORATORS = {"numba.njit", "njit", "numba.jit", "jit", "staticmethod", "abstractmethod", "abc.abstractmethod"}


class SymRange:
    def __init__(self, start, stop):
        self.start = start
        self.stop = stop


def _scalarish(x):
    return isinstance(x, (bool, int, Fraction, float)) or V.is_z3(x)


_BINOPS = {
    ast.Add: "+",
    ast.Sub: "-",
    ast.Mult: "*",
    ast.Div: "/",
    ast.FloorDiv: "//",
    ast.Mod: "%",
    ast.Pow: "**",
    ast.BitAnd: "&",
    ast.BitOr: "|",
}
_CMPOPS = {ast.Lt: "<", ast.LtE: "<=", ast.Gt: ">", ast.GtE: ">=", ast.Eq: "==", ast.NotEq: "!="}


def _dict_method(d, name):
    def get(interp, key, default=None):
        return d.get(key, default)

    def items(interp):
        return list(d.items())

    def keys(interp):
        return list(d.keys())

    def values(interp):
        return list(d.values())

    def pop(interp, key, *default):
        if key in d:
            return d.pop(key)
        if default:
            return default[0]
        raise PyRaise("KeyError", (key,))

    def copy(interp):
        return dict(d)

    def update(interp, other=(), **kw):
        d.update(other, **kw)

    def setdefault(interp, key, default=None):
        return d.setdefault(key, default)

    return locals()[name]


def _snapshot(v):
    """structural copy of a module-level container (leaves shared)"""
    if isinstance(v, dict):
        return {k: _snapshot(x) for k, x in v.items()}
    if isinstance(v, list):
        return [_snapshot(x) for x in v]
    if isinstance(v, set):
        return set(v)
    if isinstance(v, tuple):
        return tuple(_snapshot(x) for x in v)
    return v


def same_structure(x, y):
    if isinstance(x, dict) and isinstance(y, dict):
        return list(x.keys()) == list(y.keys()) and all(same_structure(x[k], y[k]) for k in x) and not getattr(x, "sym_stores", None)
    if type(x) is not type(y):
        return False
    if isinstance(x, dict):
        return list(x.keys()) == list(y.keys()) and all(same_structure(x[k], y[k]) for k in x)
    if isinstance(x, (list, tuple)):
        return len(x) == len(y) and all(same_structure(p, q) for p, q in zip(x, y))
    if V.is_z3(x):
        return x.eq(y)
    try:
        return bool(x == y)
    except Exception:  # noqa: BLE001
        return x is y


def _list_method(interp_, lst, name):
    def append(interp, x):
        lst.append(x)

    def extend(interp, xs):
        lst.extend(interp.concrete_iter(xs))

    def index(interp, x):
        for i, e in enumerate(lst):
            c = V.s_cmp("==", e, x)
            if c is True:
                return i
            if c is not False:
                raise Unsupported("list.index with symbolic elements")
        raise PyRaise("ValueError", ("not in list",))

    def sort(interp):
        if any(V.is_z3(e) for e in lst):
            raise Unsupported("sorting symbolic elements")
        lst.sort()

    def copy(interp):
        return list(lst)

    return locals()[name]


def _set_method(s, name):
    def union(interp, other):
        return s.union(other)

    def add(interp, x):
        s.add(x)

    return locals()[name]


def _str_method(s, name):
    def fn(interp, *a, **k):
        if name == "join" and len(a) == 1 and isinstance(a[0], (list, tuple)) and not all(isinstance(x, str) for x in a[0]):
            from .strings import make  # structured strings: literal and symbolic parts

            parts = []
            for i, x in enumerate(a[0]):
                if i and s:
                    parts.append(s)
                parts.append(x)
            return make(parts)
        return getattr(s, name)(*a, **k)

    return fn
