"""Self-test: apply each recorded property-breaking change (seeded by sub-agents, or the reverse of a fix commit)
to a scratch copy of /repo/ladim and require the property's quick check to report a violation.

    python3-vt -m pyvc.selftest [PROPERTY-ID ...]      (all seeds when no id is given)
"""
from __future__ import annotations

import json
import os
import shutil
import subprocess
import sys
import tempfile
from concurrent.futures import ThreadPoolExecutor
from pathlib import Path

VERIF = Path(__file__).resolve().parent.parent
REPO = Path(os.environ.get("PYVC_REPO", "/repo"))


def seeds_for(pid=None):
    out = []
    for meta in sorted((VERIF / "seeded").glob("*/meta.json")):
        m = json.loads(meta.read_text())
        if pid is None or m.get("breaks_property") == pid:
            rebased = meta.parent / "patch_current_tree.diff"  # the same change re-based onto the tree after later fix commits
            out.append((m, rebased if rebased.exists() else meta.parent / "patch.diff"))
    # behaviour-preserving refactorings: the check must NOT report anything on them (false-alarm test)
    for res in sorted((VERIF / "seeded").glob("refactor_*/result.json")):
        r = json.loads(res.read_text())
        for p in sorted(r.get("check_exit_codes", {})):
            if pid is None or p == pid:
                rebased = res.parent / "patch_current_tree.diff"
                out.append((dict(id=r["id"], breaks_property=p, expect="clean"), rebased if rebased.exists() else res.parent / "patch.diff"))
    return out


def run_seed(m, patch, tier="quick"):
    """Returns dict(seed, property, status in {detected, MISSED, not-applicable}, detail)."""
    pid = m["breaks_property"]
    tmp = Path(tempfile.mkdtemp(prefix="pyvc_selftest_"))
    try:
        shutil.copytree(REPO / "ladim", tmp / "ladim")
        p = subprocess.run(["patch", "-p1", "--no-backup-if-mismatch", "-s", "-i", str(patch)], cwd=tmp, capture_output=True, text=True)
        if p.returncode != 0:
            return dict(seed=m["id"], property=pid, status="not-applicable", detail="patch no longer applies to the current tree: " + (p.stdout + p.stderr)[-200:])
        env = dict(os.environ, PYVC_REPO=str(tmp), PYVC_OUT=str(tmp / "out"), VERIF_TIER="quick", PYVC_TIMEOUT_S="8", PYVC_UNIT_LIMIT_S=os.environ.get("PYVC_SELFTEST_UNIT_LIMIT_S", "400"))
        r = subprocess.run([sys.executable, "-m", "pyvc.check", pid, "--tier", "quick", "--no-selftest"], cwd=VERIF, env=env, capture_output=True, text=True, timeout=3000)
        viol = [ln for ln in r.stdout.splitlines() if ln.startswith("VIOLATION")]
        if m.get("expect") == "clean":
            if r.returncode == 0 and not viol:
                return dict(seed=m["id"], property=pid, status="clean", detail="harmless refactoring: nothing reported (exit 0)")
            return dict(seed=m["id"], property=pid, status="FALSE-ALARM", detail=f"exit {r.returncode}: " + (viol[0][:200] if viol else r.stdout[-300:]))
        if r.returncode == 1 and viol:
            return dict(seed=m["id"], property=pid, status="detected", detail=viol[0][:260], violations=len(viol))
        return dict(seed=m["id"], property=pid, status="MISSED", detail=f"exit {r.returncode}: " + r.stdout[-300:])
    finally:
        shutil.rmtree(tmp, ignore_errors=True)


def run_all(pid=None, jobs=4):
    seeds = seeds_for(pid)
    with ThreadPoolExecutor(max_workers=jobs) as ex:
        return list(ex.map(lambda s: run_seed(*s), seeds))


def main():
    write = "--write" in sys.argv
    if write:
        sys.argv.remove("--write")
    only = None  # --only PREFIX: seeds whose id starts with PREFIX; with --write the results are merged into the record
    if "--only" in sys.argv:
        k = sys.argv.index("--only")
        only = sys.argv[k + 1]
        del sys.argv[k : k + 2]
    ids = sys.argv[1:] or [None]
    res = []
    for pid in ids:
        if only is None:
            res.extend(run_all(pid))
        else:
            seeds = [sd for sd in seeds_for(pid) if sd[0]["id"].startswith(only)]
            with ThreadPoolExecutor(max_workers=4) as ex:
                res.extend(ex.map(lambda sd: run_seed(*sd), seeds))
    for r in res:
        print(f"SELFTEST {r['status']:14s} {r['seed']:14s} {r['property']}  {r['detail'][:200]}")
    if write:  # record of the last full self-test (read by tools/seed_table.py)
        rec = VERIF / "seeded" / "selftest_last.json"
        if only is not None and rec.exists():
            old = [r for r in json.loads(rec.read_text()) if not r["seed"].startswith(only)]
            rec.write_text(json.dumps(old + res, indent=1))
        else:
            rec.write_text(json.dumps(res, indent=1))
    missed = [r for r in res if r["status"] in ("MISSED", "FALSE-ALARM")]
    print(f"{len(res)} runs: {sum(r['status'] == 'detected' for r in res)} breaking changes detected, {sum(r['status'] == 'clean' for r in res)} harmless refactorings clean, {len(missed)} missed or false alarms, {sum(r['status'] == 'not-applicable' for r in res)} not applicable")
    return 1 if missed else 0


if __name__ == "__main__":
    sys.exit(main())
