"""Model of the numpy operations the analysed functions use (assumed contracts,
validated against real numpy by native/encoder_validation.py)."""
from __future__ import annotations

from fractions import Fraction

import z3

from . import values as V
from .values import Arr, Filtered, PyRaise, Unsupported

KIND_OF_DTYPE = {
    "int": "int",
    "i": "int",
    "int64": "int",
    "float": "real",
    "float64": "real",
    "float32": "real",
    "f4": "real",
    "f8": "real",
    "bool": "bool",
}


class DType:
    def __init__(self, kind, name=None):
        self.kind = kind
        self.name = name or kind

    def __eq__(self, other):
        return isinstance(other, DType) and other.name == self.name

    def __hash__(self):
        return hash(self.name)

    def __repr__(self):
        return f"dtype({self.name})"


def dtype_kind(d, default=None):
    if d is None:
        return default
    if isinstance(d, DType):
        return d.kind
    if isinstance(d, str):
        if d in KIND_OF_DTYPE:
            return KIND_OF_DTYPE[d]
        if d.startswith("M8") or d.startswith("m8") or d.startswith("datetime64") or d.startswith("timedelta64"):
            return "int"
        if d == "time":
            return "int"
    from .interp import Builtin

    if isinstance(d, Builtin) and d.name in ("int", "float", "bool"):
        return {"int": "int", "float": "real", "bool": "bool"}[d.name]
    raise Unsupported(f"dtype {d!r}")


# ---------------------------------------------------------------- elementwise


def map1(a: Arr, f, kind) -> Arr:
    fn = a.fn
    if isinstance(a, Filtered):
        src = a.src_fn
        return Filtered(a.mask, lambda i: f(src(i)), kind, a.shape[0], a.g)
    r = Arr(a.shape, lambda *idx: f(fn(*idx)), kind)
    r.owner = a.owner
    return r


def scalar_op(op, x, y):
    if op in ("<", "<=", ">", ">=", "==", "!="):
        return V.s_cmp(op, x, y)
    if op in ("and", "&"):
        if op == "&" and not (V.kind_of(x) == "bool" and V.kind_of(y) == "bool"):
            raise Unsupported("bitwise & on integers")
        return V.s_and(x, y)
    if op in ("or", "|"):
        if op == "|" and not (V.kind_of(x) == "bool" and V.kind_of(y) == "bool"):
            raise Unsupported("bitwise | on integers")
        return V.s_or(x, y)
    if op == "min":
        return V.s_min(x, y)
    if op == "max":
        return V.s_max(x, y)
    return V.s_binop(op, x, y)


def elementwise(cx, op, a, b) -> Arr:
    ka, kb = V.kind_of(a), V.kind_of(b)
    kind = V.result_kind(op, ka, kb)
    if isinstance(a, Filtered) or isinstance(b, Filtered):
        fa = a if isinstance(a, Filtered) else None
        fb = b if isinstance(b, Filtered) else None
        ref = fa or fb
        if fa is not None and fb is not None and fa.mask is not fb.mask:
            raise Unsupported("arithmetic on arrays compressed with different masks")
        for other in (a, b):
            if isinstance(other, Arr) and not isinstance(other, Filtered) and other.ndim > 0:
                raise Unsupported("compressed array combined with a full array")

        xa = a.src_fn if isinstance(a, Filtered) else (a.at() if isinstance(a, Arr) else a)
        xb = b.src_fn if isinstance(b, Filtered) else (b.at() if isinstance(b, Arr) else b)

        def sf(i):
            x = xa(i) if isinstance(a, Filtered) else xa
            y = xb(i) if isinstance(b, Filtered) else xb
            return scalar_op(op, x, y)

        return Filtered(ref.mask, sf, kind, ref.shape[0], ref.g)
    sa = a.shape if isinstance(a, Arr) else ()
    sb = b.shape if isinstance(b, Arr) else ()
    shape, conds = V.broadcast_shapes(sa, sb)
    for c in conds:
        cx.oblige("broadcast: operand shapes agree", c, kind="shape")
    n = len(shape)
    fa = a.fn if isinstance(a, Arr) else None
    fb = b.fn if isinstance(b, Arr) else None

    def fn(*idx):
        x = fa(*V.bcast_index(sa, n, idx)) if fa is not None else a
        y = fb(*V.bcast_index(sb, n, idx)) if fb is not None else b
        return scalar_op(op, x, y)

    r = Arr(shape, fn, kind)
    for x in (a, b):
        if isinstance(x, Arr) and x.owner is not None:
            r.owner = x.owner
        if isinstance(x, Arr) and getattr(x, "multi_tail", None) is not None:
            r.multi_tail = x.multi_tail
        if isinstance(x, Arr) and getattr(x, "multi", None) is not None and len(shape) == 1:
            r.multi = x.multi
        elif isinstance(x, Arr) and getattr(x, "multi", None) is not None and len(shape) > 1 and x.ndim == 1:
            r.multi_tail = x.multi
    return r


def inplace(cx, arr: Arr, op, rhs):
    """a op= rhs : mutates the object."""
    old = arr.fn
    tmp = Arr(arr.shape, old, arr.kind)
    res = elementwise(cx, op, tmp, rhs)
    c = V.shape_eq(res.shape, arr.shape)
    if c is False:
        raise PyRaise("ValueError", ("in-place broadcast",))
    if c is not True:
        cx.oblige("in-place operand shape", c, kind="shape")
    kind = arr.kind
    fn = res.fn
    if kind == "int" and res.kind == "real":
        raise PyRaise("TypeError", ("cannot cast in place",))
    cx.set_arr(arr, fn=(lambda *idx: V.cast_kind(fn(*idx), kind)) if kind != res.kind else fn)


# ---------------------------------------------------------------- indexing


def norm_const_index(i, size):
    """Python's handling of a *literal* negative index."""
    if isinstance(i, int) and i < 0:
        return V.s_binop("+", size, i)
    return i


def check_index(cx, arr, ax, i, what="index"):
    size = arr.shape[ax]
    lo = V.s_cmp(">=", i, 0)
    hi = V.s_cmp("<", i, size)
    c = V.s_and(lo, hi)
    if c is True:
        return
    cx.oblige(
        f"{what} in bounds: 0 <= {_short(i)} < {_short(size)} (axis {ax} of {arr.name})",
        c,
        kind="index",
        meta=dict(array=arr.name, axis=ax),
    )


def _short(t):
    s = str(t).replace("\n", " ")
    return s if len(s) < 60 else s[:57] + "..."


def slice_bounds(cx, arr, ax, sl):
    size = arr.shape[ax]
    if sl.step not in (None, 1):
        raise Unsupported("slice step")
    start = 0 if sl.start is None else norm_const_index(sl.start, size)
    stop = size if sl.stop is None else norm_const_index(sl.stop, size)
    if sl.start is not None or sl.stop is not None:
        c = V.s_and(V.s_and(V.s_cmp("<=", 0, start), V.s_cmp("<=", start, stop)), V.s_cmp("<=", stop, size))
        if c is not True:
            cx.oblige(
                f"slice within array: 0 <= {_short(start)} <= {_short(stop)} <= {_short(size)} (axis {ax} of {arr.name})",
                c,
                kind="index",
                meta=dict(array=arr.name, axis=ax),
            )
    return start, stop


_g_counter = [0]


def make_filtered(cx, src: Arr, mask: Arr) -> Filtered:
    """A[mask]: ghost increasing enumeration g of the true positions (assumed numpy contract)."""
    cm = concrete_list(mask)
    if cm is not None:
        idx = [i for i, m in enumerate(cm) if m]
        sfn0 = src.fn
        f = Filtered(mask, lambda i: sfn0(i), src.kind, len(idx), lambda k: idx[k] if isinstance(k, int) else V.to_z3(k))
        f.ginv = lambda i: idx.index(i)
        f.count = len(idx)
        return f
    cache = cx.ghost.setdefault("mask_enum", {})
    _probe = z3.Int("probe!mask")
    _saved = {k: dict(v) for k, v in V.APPS.items()}
    key = (V.to_z3(mask.fn(_probe)).get_id(), V.to_z3(mask.shape[0]).get_id())
    V.APPS.clear()
    V.APPS.update(_saved)
    if key not in cache:
        _g_counter[0] += 1
        k = _g_counter[0]
        gd = z3.Function(f"g{k}", z3.IntSort(), z3.IntSort())
        ginvd = z3.Function(f"ginv{k}", z3.IntSort(), z3.IntSort())
        g = lambda x: V.app(gd, x)  # noqa: E731
        ginv = lambda x: V.app(ginvd, x)  # noqa: E731
        m = cx.fresh("count")
        n = mask.shape[0]
        cx.assume(z3.And(m >= 0, m <= V.to_z3(n)))
        mfn = mask.fn
        from .interp import UnivFact

        # forall k in [0,m): 0 <= g(k) < n, mask[g(k)], g(k) < g(k+1) (k+1<m), ginv(g(k)) == k
        def f1(kk):
            return z3.Implies(
                z3.And(kk >= 0, kk < m),
                z3.And(
                    g(kk) >= 0,
                    g(kk) < V.to_z3(n),
                    V.to_z3(mfn(g(kk))),
                    z3.Implies(kk + 1 < m, g(kk) < g(kk + 1)),
                    z3.Implies(kk >= 1, g(kk - 1) < g(kk)),
                    ginv(g(kk)) == kk,
                    g(kk) >= kk,
                    V.to_z3(n) - g(kk) >= m - kk,
                ),
            )

        # forall i in [0,n): mask[i] -> 0 <= ginv(i) < m and g(ginv(i)) == i
        def f2(ii):
            return z3.Implies(
                z3.And(ii >= 0, ii < V.to_z3(n), V.to_z3(mfn(ii))),
                z3.And(ginv(ii) >= 0, ginv(ii) < m, g(ginv(ii)) == ii),
            )

        u1 = UnivFact(1, f1, decls=[gd])
        u2 = UnivFact(1, f2, decls=[ginvd])
        cx.univ.extend([u1, u2])
        if isinstance(n, int) and n <= 32:
            # small concrete length: state the enumeration facts at every position (no trigger needed)
            for c in range(n):
                cx.assume(f1(z3.IntVal(c)))
                cx.assume(f2(z3.IntVal(c)))
        cache[key] = (g, ginv, m, u1, u2, mask)
    g, ginv, m, u1, u2, _ = cache[key]
    sfn = src.fn
    r = Filtered(mask, lambda i: sfn(i), src.kind, m, g)
    r.ginv = ginv
    r.count = m
    r.u_idx = u1
    r.u_src = u2
    r.owner = None
    return r


def index(cx, arr: Arr, idx):
    if not isinstance(idx, tuple):
        idx = (idx,)
    # boolean mask as the only index of a 1-D array
    if len(idx) == 1 and isinstance(idx[0], Arr) and idx[0].kind == "bool":
        mask = idx[0]
        if arr.ndim != 1 or mask.ndim != 1:
            raise Unsupported("boolean mask on a multi-dimensional array")
        c = V.shape_eq(arr.shape, mask.shape)
        if c is not True:
            cx.oblige(f"mask length equals array length ({arr.name})", c, kind="index")
        return make_filtered(cx, arr, mask)
    if any(isinstance(i, Filtered) for i in idx):
        raise Unsupported("compressed array as an index")
    # expand Ellipsis-free index to one entry per source axis (+ None for new axes)
    n_src = sum(1 for i in idx if i is not None)
    if n_src > arr.ndim:
        raise PyRaise("IndexError", ("too many indices",))
    idx = tuple(idx) + (slice(None),) * (arr.ndim - n_src)
    fancy = [i for i in idx if isinstance(i, Arr)]
    fshape = ()
    if fancy:
        for f in fancy:
            if f.kind != "int":
                raise Unsupported("non-integer index array")
            fshape, conds = V.broadcast_shapes(fshape, f.shape)
            for c in conds:
                cx.oblige("index arrays have equal shape", c, kind="shape")
        pos = [k for k, i in enumerate(idx) if isinstance(i, Arr)]
        if pos[-1] - pos[0] != len(pos) - 1 and any(isinstance(idx[k], slice) for k in range(pos[0], pos[-1])):
            raise Unsupported("fancy indices separated by a slice")
    # plan: list of per-source-axis handlers
    plan = []  # (kind, data)
    out_shape = []
    ax = 0
    fancy_placed = False
    fancy_out_pos = None
    for i in idx:
        if i is None:
            plan.append(("new", None))
            out_shape.append(1)
            continue
        if isinstance(i, slice):
            start, stop = slice_bounds(cx, arr, ax, i)
            plan.append(("slice", (start, len(out_shape))))
            out_shape.append(V.s_binop("-", stop, start))
        elif isinstance(i, Arr):
            if not fancy_placed:
                fancy_out_pos = len(out_shape)
                out_shape.extend(fshape)
                fancy_placed = True
            plan.append(("fancy", (i.fn, i.shape)))
        else:
            ii = norm_const_index(i, arr.shape[ax])
            if V.kind_of(ii) != "int":
                raise PyRaise("IndexError", ("non-integer index",))
            check_index(cx, arr, ax, ii)
            plan.append(("scalar", ii))
        ax += 1
    src_fn = arr.fn
    nf = len(fshape)
    obl_done = {}

    def fn(*oidx):
        sidx = []
        for kind, data in plan:
            if kind == "new":
                continue
            if kind == "slice":
                start, opos = data
                sidx.append(V.s_binop("+", start, oidx[opos]))
            elif kind == "scalar":
                sidx.append(data)
            else:
                fi = oidx[fancy_out_pos : fancy_out_pos + nf]
                sidx.append(data[0](*V.bcast_index(data[1], nf, fi)))
        return src_fn(*sidx)

    res = Arr(tuple(out_shape), fn, arr.kind)
    # obligations for fancy indices: generic element of the index arrays
    if fancy and all(isinstance(d, int) for d in fshape) and all(concrete_nd(f) for f in fancy):
        pass  # concrete index arrays (encoder validation): nothing to prove
    elif fancy:
        gi = [cx.fresh("p") for _ in fshape]
        rng = [z3.And(g >= 0, g < V.to_z3(s)) for g, s in zip(gi, fshape)]
        n0 = len(cx.pc)
        cx.pc.extend(rng)
        try:
            ax = 0
            for i in idx:
                if i is None:
                    continue
                if isinstance(i, Arr):
                    v = i.fn(*V.bcast_index(i.shape, nf, gi))
                    check_index(cx, arr, ax, v, what="index array element")
                ax += 1
        finally:
            del cx.pc[n0:]
        for f in fancy:
            if f.owner is not None:
                res.owner = f.owner
    if not out_shape:
        return res.fn()
    return res


def store(cx, arr: Arr, idx, val):
    """arr[idx] = val"""
    if not isinstance(idx, tuple):
        idx = (idx,)
    old = arr.fn
    kind = arr.kind
    if len(idx) == 1 and isinstance(idx[0], Arr) and idx[0].kind == "bool":
        mask = idx[0]
        c = V.shape_eq(arr.shape, mask.shape)
        if c is not True:
            cx.oblige(f"mask length equals array length ({arr.name})", c, kind="index")
        mfn = mask.fn
        if isinstance(val, Filtered):
            if val.mask is not mask and not _same_mask(cx, val.mask, mask):
                raise Unsupported("masked store from an array compressed with another mask")
            sfn = val.src_fn
            cx.set_arr(arr, fn=lambda i: V.s_ite(mfn(i), V.cast_kind(sfn(i), kind), old(i)))
            return
        if isinstance(val, Arr):
            if val.ndim == 0:
                v0 = val.at()
                cx.set_arr(arr, fn=lambda i: V.s_ite(mfn(i), V.cast_kind(v0, kind), old(i)))
                return
            if val.ndim == 1:
                # arr[mask] = B with B of length count(mask): position i (mask true) receives B[ginv(i)], the rank of
                # i among the true positions (ghost enumeration of the mask, assumed numpy contract)
                enum = make_filtered(cx, arr, mask)
                c = V.s_cmp("==", val.shape[0], enum.count)
                if c is not True:
                    cx.oblige(f"masked store: value length equals the number of true mask positions ({arr.name})", c, kind="index")
                vfn, ginv = val.fn, enum.ginv
                cx.set_arr(arr, fn=lambda i: V.s_ite(mfn(i), V.cast_kind(vfn(ginv(i)), kind), old(i)))
                return
            raise Unsupported("masked store of a multi-dimensional array")
        cx.set_arr(arr, fn=lambda i: V.s_ite(mfn(i), V.cast_kind(val, kind), old(i)))
        return
    if len(idx) == 1 and isinstance(idx[0], Arr) and getattr(idx[0], "enum_mask", None) is not None and arr.ndim == 1:
        # A[np.flatnonzero(m)] = B: position i receives B[rank of i among the true positions of m] when i < len(m)
        # and m[i]; the index array is strictly increasing, so no position is written twice
        ia = idx[0]
        m = ia.enum_mask
        mlen = m.shape[0]
        c = V.s_cmp("<=", mlen, arr.shape[0])
        if c is not True:
            cx.oblige(f"index array element in bounds: positions enumerated over an array of length {_short(mlen)} used on {arr.name} of length {_short(arr.shape[0])}", c, kind="index")
        mfn, ginv = m.fn, ia.enum_ginv
        hit = lambda i: V.s_and(V.s_cmp("<", i, mlen), mfn(i))  # noqa: E731
        if isinstance(val, Arr) and val.ndim == 1:
            cl = V.s_cmp("==", val.shape[0], ia.shape[0])
            if cl is not True:
                cx.oblige(f"fancy-index store: value length equals the number of indices ({arr.name})", cl, kind="index")
            vfn = val.fn
            cx.set_arr(arr, fn=lambda i: V.s_ite(hit(i), V.cast_kind(vfn(ginv(i)), kind), old(i)))
        elif isinstance(val, Arr):
            raise Unsupported("fancy-index store of a multi-dimensional value")
        else:
            cx.set_arr(arr, fn=lambda i: V.s_ite(hit(i), V.cast_kind(val, kind), old(i)))
        return
    if any(isinstance(i, Arr) for i in idx):
        raise Unsupported("fancy-index store")
    idx = tuple(idx) + (slice(None),) * (arr.ndim - len(idx))
    if len(idx) != arr.ndim:
        raise PyRaise("IndexError", ("too many indices",))
    plan = []
    vshape = []
    for ax, i in enumerate(idx):
        if isinstance(i, slice):
            start, stop = slice_bounds(cx, arr, ax, i)
            plan.append(("slice", start, stop))
            vshape.append(V.s_binop("-", stop, start))
        else:
            ii = norm_const_index(i, arr.shape[ax])
            check_index(cx, arr, ax, ii, what="store index")
            plan.append(("scalar", ii, None))
    if isinstance(val, Arr) and val.ndim > 0:
        if isinstance(val, Filtered):
            pass
        bshape, conds = V.broadcast_shapes(tuple(vshape), val.shape)
        for c in conds:
            cx.oblige("stored value shape matches target region", c, kind="shape")
        if len(bshape) != len(vshape):
            raise PyRaise("ValueError", ("could not broadcast",))

    vfn = val.fn if isinstance(val, Arr) else None
    vsh = val.shape if isinstance(val, Arr) else None

    def fn(*t):
        cond = True
        vidx = []
        for ax, (k, a, b) in enumerate(plan):
            if k == "scalar":
                cond = V.s_and(cond, V.s_cmp("==", t[ax], a))
            else:
                cond = V.s_and(cond, V.s_and(V.s_cmp("<=", a, t[ax]), V.s_cmp("<", t[ax], b)))
                vidx.append(V.s_binop("-", t[ax], a))
        if vfn is not None:
            v = vfn(*V.bcast_index(vsh, len(vidx), vidx)) if len(vsh) else vfn()
        else:
            v = val
        return V.s_ite(cond, V.cast_kind(v, kind), old(*t))

    cx.set_arr(arr, fn=fn)


def _same_mask(cx, m1: Arr, m2: Arr) -> bool:
    return m1 is m2


# ---------------------------------------------------------------- attributes


def arr_attr(interp, arr: Arr, name):
    from .interp import Builtin

    cx = interp.cx
    if name == "shape":
        return tuple(arr.shape)
    if name == "size":
        r = 1
        for d in arr.shape:
            r = V.s_binop("*", r, d)
        return r
    if name == "ndim":
        return arr.ndim
    if name == "dtype":
        return DType(arr.kind)
    if name == "T" and arr.ndim == 2:
        fn = arr.fn
        return Arr((arr.shape[1], arr.shape[0]), lambda i, j: fn(j, i), arr.kind)

    def m_round(interp):
        return map1(arr, V.s_round, arr.kind) if arr.kind != "real" else _round_arr(arr)

    def m_astype(interp, dt, **kw):
        k = dtype_kind(dt)
        if k == arr.kind:
            return map1(arr, lambda x: x, k)
        return map1(arr, lambda x: V.cast_kind(x, k), k)

    def m_copy(interp):
        return arr.snapshot()

    def m_ravel(interp):
        if arr.ndim == 1:
            return arr
        r = Raveled(arr)
        return r

    def m_reshape(interp, *shape):
        if len(shape) == 1 and isinstance(shape[0], (tuple, list)):
            shape = tuple(shape[0])
        return reshape(cx, arr, shape)

    def m_sum(interp):
        return array_sum(cx, arr)

    def m_max(interp):
        return array_max(cx, arr)

    def m_min(interp):
        return array_min(cx, arr)

    def m_any(interp):
        return np_any(interp, arr)

    def m_all(interp):
        return np_all(interp, arr)

    def m_nonzero(interp):
        """Indices of the true elements, in increasing order (1-D boolean arrays)."""
        if arr.ndim != 1 or arr.kind != "bool":
            raise Unsupported("nonzero of a non 1-D boolean array")
        return (enumeration_of(cx, arr, generic=True),)

    def m_sort(interp):
        raise Unsupported("in-place array sort")

    table = dict(nonzero=m_nonzero, round=m_round, astype=m_astype, copy=m_copy, ravel=m_ravel, reshape=m_reshape, sum=m_sum, max=m_max, min=m_min, any=m_any, all=m_all)
    if name in table:
        return Builtin("ndarray." + name, table[name])
    raise Unsupported(f"ndarray attribute {name}")


def _round_arr(arr):
    # rounding keeps the float dtype in numpy; the value is an integer
    return map1(arr, lambda x: V.cast_kind(V.s_round(x), "real"), "real")


class Raveled(Arr):
    """H.ravel() of a multi-dimensional array: keeps an opaque multi-index (C order assumed)."""

    def __init__(self, src: Arr):
        self.src = src
        size = 1
        for d in src.shape:
            size = V.s_binop("*", size, d)
        fn = src.fn
        nd = src.ndim

        def f(*idx):
            # idx is either a flat opaque index (unsupported to decode) or a packed multi-index
            if len(idx) == nd:
                return fn(*idx)
            if len(idx) == 1 and isinstance(idx[0], tuple):
                return fn(*idx[0])
            raise Unsupported("decoding a flat index of a raveled array")

        super().__init__((size,), f, src.kind)
        self.multi = tuple(src.shape)


def reshape(cx, arr: Arr, shape):
    shape = tuple(shape)
    multi = getattr(arr, "multi_tail", None)
    if multi is not None:
        # arr has shape (..lead.., flat) where flat stands for `multi` dims
        lead = arr.shape[:-1]
        want = tuple(lead) + tuple(multi)
        c = V.shape_eq(shape, want)
        if c is False:
            raise Unsupported("reshape to a shape other than the raveled one")
        if c is not True:
            cx.oblige("reshape restores the raveled shape", c, kind="shape")
        fn = arr.fn
        nl = len(lead)
        return Arr(shape, lambda *idx: fn(*idx[:nl], tuple(idx[nl:])), arr.kind)
    if V.shape_eq(shape, arr.shape) is True:
        return Arr(arr.shape, arr.fn, arr.kind)
    raise Unsupported("general reshape")


def scalar_attr(interp, x, name):
    from .interp import Builtin

    if name == "astype":
        return Builtin("scalar.astype", lambda interp, dt, **kw: V.cast_kind(x, dtype_kind(dt)))
    if name == "round":
        return Builtin("scalar.round", lambda interp: V.s_round(x))
    if name == "total_seconds":
        return Builtin("scalar.total_seconds", lambda interp: V.to_real(x))
    if name == "size":
        return 1
    if name == "copy":
        return Builtin("scalar.copy", lambda interp: x)
    raise Unsupported(f"attribute {name} of a scalar")


# ---------------------------------------------------------------- concrete mode (encoder validation)


def concrete_nd(a):
    """True when shape and all elements of the array are concrete."""
    import itertools

    if not isinstance(a, Arr) or not all(isinstance(d, int) for d in a.shape):
        return False
    try:
        for idx in itertools.product(*[range(d) for d in a.shape]):
            if V.is_z3(a.fn(*idx)):
                return False
    except Unsupported:
        return False
    return True


def concrete_list(a):
    """Elements of a 1-D array whose shape and elements are all concrete, else None."""
    if not isinstance(a, Arr) or a.ndim != 1 or not isinstance(a.shape[0], int):
        return None
    out = []
    for i in range(a.shape[0]):
        v = a.fn(i)
        if V.is_z3(v):
            return None
        out.append(v)
    return out


# ---------------------------------------------------------------- reductions


def array_sum(cx, arr):
    if arr.ndim != 1:
        raise Unsupported("sum of a multi-dimensional array")
    if arr.kind == "bool":
        return count_true(cx, arr)
    if isinstance(arr.shape[0], int):
        r = 0
        for i in range(arr.shape[0]):
            r = V.s_binop("+", r, arr.at(i))
        return r
    raise Unsupported("sum over a symbolic axis")


def count_true(cx, mask: Arr):
    f = make_filtered(cx, mask, mask)
    return f.count


def array_max(cx, arr):
    """max of a 1-D array: fresh m with m >= all elements, attained (empty -> ValueError)."""
    from .interp import UnivFact

    if arr.ndim != 1:
        return _array_extreme_nd(cx, arr, True)
    n = arr.shape[0]
    cl = concrete_list(arr)
    if cl is not None:
        if not cl:
            raise PyRaise("ValueError", ("zero-size array to reduction operation",))
        return max(cl)
    if cx.fork(V.s_cmp("==", n, 0)):
        raise PyRaise("ValueError", ("zero-size array to reduction operation",))
    sort = "real" if arr.kind == "real" else "int"
    m = cx.fresh("max", sort)
    w = cx.fresh("argmax")
    cx.assume(z3.And(w >= 0, w < V.to_z3(n), V.to_z3(arr.fn(w)) == m))
    fn = arr.fn
    cx.univ.append(UnivFact(1, lambda i: z3.Implies(z3.And(i >= 0, i < V.to_z3(n)), V.to_z3(fn(i)) <= m), sources=[arr]))
    return m


def _array_extreme_nd(cx, arr, is_max):
    """max/min over all elements of an n-D array: fresh m, attained at a witness index tuple, bounds every element."""
    from .interp import UnivFact

    for n in arr.shape:
        if cx.fork(V.s_cmp("==", n, 0)):
            raise PyRaise("ValueError", ("zero-size array to reduction operation",))
    sort = "real" if arr.kind == "real" else "int"
    m = cx.fresh("max" if is_max else "min", sort)
    ws = [cx.fresh("argext") for _ in arr.shape]
    dims = [V.to_z3(n) for n in arr.shape]
    cx.assume(z3.And(*[z3.And(w >= 0, w < d) for w, d in zip(ws, dims)], V.to_z3(arr.fn(*ws)) == m))
    fn = arr.fn

    def body(*idx):
        inside = z3.And(*[z3.And(i >= 0, i < d) for i, d in zip(idx, dims)])
        return z3.Implies(inside, V.to_z3(fn(*idx)) <= m if is_max else V.to_z3(fn(*idx)) >= m)

    cx.univ.append(UnivFact(len(dims), body, sources=[arr], generic=False))  # instantiated where the array is read
    return m


def array_min(cx, arr):
    return _array_extreme_nd(cx, arr, False)


def enumeration_of(cx, mask: Arr, generic=False) -> Arr:
    """np.flatnonzero(mask) / mask.nonzero()[0]: the positions of the true elements in increasing order. The result
    remembers the mask it enumerates (``enum_mask``), so that a store through it can be modelled exactly."""
    f = make_filtered(cx, mask, mask)
    if generic and getattr(f, "u_src", None) is not None:
        f.u_src.generic = True  # every index term is a candidate: a true element implies count >= 1
    g = f.g
    r = Arr((f.count,), lambda k: g(V.to_z3(k)) if not isinstance(k, int) or not isinstance(f.count, int) else g(k), "int")
    r.enum_mask = mask
    r.enum_ginv = f.ginv
    return r


def np_flatnonzero(interp, a):
    if not (isinstance(a, Arr) and a.ndim == 1):
        raise Unsupported("flatnonzero of something else than a 1-D array")
    if a.kind != "bool":
        fn = a.fn
        a = Arr(a.shape, lambda i: V.s_cmp("!=", fn(i), 0), "bool")
    return enumeration_of(interp.cx, a)


def np_any(interp, a, **kw):
    from .interp import UnivFact

    cx = interp.cx
    if not isinstance(a, Arr):
        return V.sbool(a)
    if a.ndim != 1:
        raise Unsupported("np.any on a multi-dimensional array")
    cl = concrete_list(a)
    if cl is not None:
        return any(bool(x) for x in cl)
    if isinstance(a.shape[0], int) and a.shape[0] <= 64:
        r = False  # concrete length, symbolic elements: the disjunction itself
        for c in range(a.shape[0]):
            r = V.s_or(r, V.sbool(a.fn(c)))
        return r
    b = cx.fresh("any", "bool")
    w = cx.fresh("witness")
    n = V.to_z3(a.shape[0])
    fn = a.fn
    cx.assume(z3.Implies(b, z3.And(w >= 0, w < n, V.to_z3(V.sbool(fn(w))))))
    cx.univ.append(UnivFact(1, lambda i: z3.Implies(z3.And(z3.Not(b), i >= 0, i < n), z3.Not(V.to_z3(V.sbool(fn(i))))), sources=[a]))
    return b


def np_all(interp, a, **kw):
    from .interp import UnivFact

    cx = interp.cx
    if not isinstance(a, Arr):
        return V.sbool(a)
    if a.ndim != 1:
        raise Unsupported("np.all on a multi-dimensional array")
    cl = concrete_list(a)
    if cl is not None:
        return all(bool(x) for x in cl)
    b = cx.fresh("all", "bool")
    w = cx.fresh("witness")
    n = V.to_z3(a.shape[0])
    fn = a.fn
    cx.assume(z3.Implies(z3.Not(b), z3.And(w >= 0, w < n, z3.Not(V.to_z3(V.sbool(fn(w)))))))
    cx.univ.append(UnivFact(1, lambda i: z3.Implies(z3.And(b, i >= 0, i < n), V.to_z3(V.sbool(fn(i)))), sources=[a]))
    return b


# ---------------------------------------------------------------- numpy namespace

UF1 = {}


def uf1(name):
    if name not in UF1:
        UF1[name] = z3.Function(name + "_", z3.RealSort(), z3.RealSort())
    return UF1[name]


TRANSC_APPS: dict = {}  # name -> {id: arg term}


def transc_apply(name, v):
    """Apply sinh_/cosh_/tanh_/exp_ (uninterpreted) and add the *assumed* analytic axioms, instantiated
    for this argument and pairwise against every earlier argument of the same function."""
    f = uf1(name)
    v = V.to_real(v)
    r = f(v)
    tab = TRANSC_APPS.setdefault(name, {})
    if v.get_id() in tab:
        return r
    ax = V.AXIOMS
    if name in ("sinh", "tanh"):
        ax.append(z3.And(z3.Implies(v == 0, r == 0), z3.Implies(v > 0, r > 0), z3.Implies(v < 0, r < 0)))
        if name == "tanh":
            ax.append(z3.And(r > -1, r < 1))
    elif name == "exp":
        ax.append(z3.And(r > 0, z3.Implies(v == 0, r == 1), z3.Implies(v > 0, r > 1), z3.Implies(v < 0, r < 1)))
    elif name == "cosh":
        ax.append(z3.And(r >= 1, z3.Implies(v == 0, r == 1), z3.Implies(v != 0, r > 1)))
    for w in tab.values():
        rw = f(w)
        if name in ("sinh", "tanh", "exp"):
            ax.append(z3.And(z3.Implies(v < w, r < rw), z3.Implies(w < v, rw < r), z3.Implies(v == w, r == rw)))
        if name in ("sinh", "tanh"):
            ax.append(z3.Implies(v == -w, r == -rw))
        if name == "cosh":
            ax.append(z3.Implies(v == -w, r == rw))
            ax.append(z3.Implies(z3.And(v >= 0, w >= 0), z3.And(z3.Implies(v < w, r < rw), z3.Implies(w < v, rw < r))))
            ax.append(z3.Implies(z3.And(v <= 0, w <= 0), z3.And(z3.Implies(v < w, r > rw), z3.Implies(w < v, rw > r))))
    tab[v.get_id()] = v
    return r


def transcendental(name):
    def call(interp, x):
        def one(v):
            if not V.is_z3(v):
                import math

                return Fraction(repr(float(getattr(math, name)(float(v)))))
            interp.cx.ghost.setdefault("transc", set()).add(name)
            return transc_apply(name, v)

        if isinstance(x, Arr):
            return map1(x, one, "real")
        return one(x)

    return call


def np_zeros_like(interp, a, dtype=None):
    kind = dtype_kind(dtype, a.kind if isinstance(a, Arr) else V.kind_of(a))
    zero = {"real": Fraction(0), "int": 0, "bool": False}[kind]
    if isinstance(a, Arr):
        return Arr(a.shape, lambda *idx: zero, kind)
    return zero


def _shape_arg(shape):
    if isinstance(shape, (tuple, list)):
        return tuple(shape)
    return (shape,)


def np_full_const(value_of_kind):
    def f(interp, shape, dtype=None, **kw):
        kind = dtype_kind(dtype, "real")
        v = value_of_kind[kind]
        return Arr(_shape_arg(shape), lambda *idx: v, kind)

    return f


def np_empty(interp, shape, dtype=None, **kw):
    kind = dtype_kind(dtype, "real")
    shape = _shape_arg(shape)
    a = V.sym_array(f"uninit{next(V._uid)}", shape, kind)  # arbitrary content
    return a


def np_full(interp, shape, fill_value, dtype=None):
    kind = dtype_kind(dtype, V.kind_of(fill_value))
    return Arr(_shape_arg(shape), lambda *idx: fill_value, kind)


def np_arange(interp, *args, dtype=None):
    if len(args) == 1:
        start, stop = 0, args[0]
    elif len(args) == 2:
        start, stop = args
    else:
        raise Unsupported("arange with a step")
    kind = dtype_kind(dtype, "int")
    if V.kind_of(start) != "int" or V.kind_of(stop) != "int":
        raise Unsupported("non-integer arange")
    n = V.s_binop("-", stop, start)
    return Arr((n,), lambda i: V.cast_kind(V.s_binop("+", start, i), kind), kind)


def np_linspace(interp, a, b, num):
    # a + i*(b-a)/(num-1)
    def fn(i):
        r = V.s_binop("+", a, V.s_binop("/", V.s_binop("*", i, V.s_binop("-", b, a)), V.s_binop("-", num, 1)))
        return V.cast_kind(r, "real")

    return Arr((num,), fn, "real")


def np_asarray(interp, a, dtype=None):
    if isinstance(a, Arr):
        if dtype is not None and dtype_kind(dtype, a.kind) != a.kind:
            return np_array(interp, a, dtype)  # a conversion: numpy makes a new array
        return a  # same dtype: numpy returns the SAME object (no copy) - aliasing is preserved
    if isinstance(a, (list, tuple)):
        return np_array(interp, a, dtype)
    return a  # scalar: kept as a scalar (0-d)


def np_array(interp, a, dtype=None, **kw):
    if isinstance(a, Arr):
        k = dtype_kind(dtype, a.kind)
        r = map1(a, (lambda x: x) if k == a.kind else (lambda x: V.cast_kind(x, k)), k)
        return r
    if isinstance(a, (list, tuple)):
        items = list(a)
        kind = dtype_kind(dtype, None)
        if kind is None:
            kinds = {V.kind_of(x) for x in items}
            kind = "real" if "real" in kinds else "int" if "int" in kinds else "bool" if kinds == {"bool"} else "real"
        if not items:
            return Arr((0,), lambda i: {"real": Fraction(0), "int": 0, "bool": False}[kind], kind)

        def fn(i):
            r = V.cast_kind(items[-1], kind)
            for k in range(len(items) - 2, -1, -1):
                r = V.s_ite(V.s_cmp("==", i, k), V.cast_kind(items[k], kind), r)
            return r

        return Arr((len(items),), fn, kind)
    k = dtype_kind(dtype, V.kind_of(a))
    return V.cast_kind(a, k)


def np_where(interp, c, a, b):
    cx = interp.cx
    t1 = elementwise_ite(cx, c, a, b)
    return t1


def elementwise_ite(cx, c, a, b):
    shapes = [x.shape if isinstance(x, Arr) else () for x in (c, a, b)]
    shape = ()
    for s in shapes:
        shape, conds = V.broadcast_shapes(shape, s)
        for cc in conds:
            cx.oblige("np.where operand shapes agree", cc, kind="shape")
    n = len(shape)
    ka, kb = V.kind_of(a), V.kind_of(b)
    kind = "real" if "real" in (ka, kb) else "bool" if ka == kb == "bool" else "int"

    fc = c.fn if isinstance(c, Arr) else None
    fa = a.fn if isinstance(a, Arr) else None
    fb = b.fn if isinstance(b, Arr) else None

    def fn(*idx):
        cv = fc(*V.bcast_index(shapes[0], n, idx)) if fc is not None else c
        av = fa(*V.bcast_index(shapes[1], n, idx)) if fa is not None else a
        bv = fb(*V.bcast_index(shapes[2], n, idx)) if fb is not None else b
        return V.s_ite(V.sbool(cv), V.cast_kind(av, kind), V.cast_kind(bv, kind))

    if not shape:
        return fn()
    return Arr(shape, fn, kind)


def np_add(interp, a, b):
    if isinstance(a, Arr) or isinstance(b, Arr):
        return elementwise(interp.cx, "+", a, b)
    return V.s_binop("+", a, b)


def np_multiply(interp, a, b, out=None):
    r = elementwise(interp.cx, "*", a, b) if (isinstance(a, Arr) or isinstance(b, Arr)) else V.s_binop("*", a, b)
    if out is not None:
        if not isinstance(out, Arr):
            raise Unsupported("out= of a non-array")
        c = V.shape_eq(out.shape, r.shape)
        if c is not True:
            interp.cx.oblige("np.multiply(out=): shapes agree", c, kind="shape")
        kind = out.kind
        fn = r.fn
        interp.cx.set_arr(out, fn=lambda *idx: V.cast_kind(fn(*idx), kind))
        return out
    return r


def np_around(interp, a, decimals=0):
    if isinstance(a, Arr):
        return _round_arr(a) if a.kind == "real" else a
    return V.s_round(a)


def np_ndim(interp, a):
    return a.ndim if isinstance(a, Arr) else 0


def np_diff(interp, a):
    if isinstance(a, list):
        return [V.s_binop("-", a[i + 1], a[i]) for i in range(len(a) - 1)]
    if isinstance(a, Arr) and a.ndim == 1:
        fn = a.fn
        return Arr((V.s_binop("-", a.shape[0], 1),), lambda i: V.s_binop("-", fn(V.s_binop("+", i, 1)), fn(i)), a.kind)
    from .interp import ModelObject

    if isinstance(a, ModelObject) and hasattr(a, "pv_diff"):
        return a.pv_diff(interp.cx)
    raise Unsupported("np.diff")


def np_outer(interp, a, b):
    if not (isinstance(a, Arr) and isinstance(b, Arr) and a.ndim == 1 and b.ndim == 1):
        raise Unsupported("np.outer of non 1-D")
    fa, fb = a.fn, b.fn
    kind = V.result_kind("*", a.kind, b.kind)
    if isinstance(b, Raveled):
        r = Arr((a.shape[0], b.shape[0]), lambda i, j: V.s_binop("*", fa(i), fb(j)), kind)
        r.multi_tail = b.multi
        return r
    return Arr((a.shape[0], b.shape[0]), lambda i, j: V.s_binop("*", fa(i), fb(j)), kind)


def np_searchsorted(interp, a, v, side="left"):
    """k with a[:k] < v <= a[k:] (side='left'), a[:k] <= v < a[k:] (side='right'); meaningful for sorted a (callers'
    precondition)."""
    from .interp import UnivFact

    cx = interp.cx
    if side not in ("left", "right") or not isinstance(a, Arr) or a.ndim != 1 or isinstance(v, Arr):
        raise Unsupported("searchsorted form")
    right = side == "right"
    cl = concrete_list(a)
    if cl is not None and not V.is_z3(v):
        import bisect

        return (bisect.bisect_right if right else bisect.bisect_left)([float(x) for x in cl], float(v))
    k = cx.fresh("k")
    n = V.to_z3(a.shape[0])
    cx.assume(z3.And(k >= 0, k <= n))
    fn = a.fn
    vv = V.to_real(v)
    cx.univ.append(
        UnivFact(
            1,
            lambda i: z3.Implies(
                z3.And(i >= 0, i < n),
                z3.And(z3.Implies(i < k, V.to_real(fn(i)) <= vv), z3.Implies(i >= k, V.to_real(fn(i)) > vv)) if right else
                z3.And(z3.Implies(i < k, V.to_real(fn(i)) < vv), z3.Implies(i >= k, V.to_real(fn(i)) >= vv)),
            ),
            sources=[a],
            extra=[(k,), (k - 1,), (z3.IntVal(0),), (n - 1,)],
        )
    )
    cx.ghost.setdefault("searchsorted", []).append((a, v, k))
    return k


def np_concatenate(interp, parts, **kw):
    parts = list(parts)
    if len(parts) != 2:
        raise Unsupported("concatenate of other than two arrays")
    a, b = parts
    if not (isinstance(a, Arr) and isinstance(b, Arr) and a.ndim == 1 and b.ndim == 1):
        raise Unsupported("concatenate of non 1-D")
    na = a.shape[0]
    fa, fb = a.fn, b.fn
    ka, kb = a.kind, b.kind
    kind = "real" if "real" in (ka, kb) else ka
    return Arr(
        (V.s_binop("+", na, b.shape[0]),),
        lambda i: V.s_ite(V.s_cmp("<", i, na), V.cast_kind(fa(i), kind), V.cast_kind(fb(V.s_binop("-", i, na)), kind)),
        kind,
    )


def np_timedelta64(interp, value=0, unit="s"):
    """Durations are integers (seconds)."""
    mult = {"s": 1, "m": 60, "h": 3600, "D": 86400, "d": 86400}.get(unit)
    if mult is None:
        raise PyRaise("TypeError", ("invalid unit",))
    if isinstance(value, str):
        raise Unsupported("timedelta64 from a string")
    return V.s_binop("*", V.as_num(value), mult)


def np_datetime64(interp, value=None, unit="s"):
    """Instants are integers (seconds since an arbitrary epoch)."""
    if isinstance(value, str):
        raise Unsupported("datetime64 from a string literal")
    return value


def np_isscalar(interp, x):
    return not isinstance(x, (Arr, list, tuple, dict))


def np_float(interp, x):
    return V.to_real(x) if not isinstance(x, Arr) else x


def np_abs(interp, x):
    if isinstance(x, Arr):
        return map1(x, V.s_abs, x.kind)
    return V.s_abs(x)


def np_sqrt(interp, x):
    if isinstance(x, Arr):
        return map1(x, V.s_sqrt, "real")
    return V.s_sqrt(x)


def np_max(interp, x):
    if isinstance(x, Arr):
        return array_max(interp.cx, x)
    from .interp import ModelObject

    if isinstance(x, ModelObject) and hasattr(x, "pv_max"):
        return x.pv_max(interp.cx)
    raise Unsupported("np.max")


def np_sum(interp, x):
    return array_sum(interp.cx, x)


def np_count_nonzero(interp, x):
    if not isinstance(x, Arr) or x.kind != "bool":
        raise Unsupported("count_nonzero of a non-boolean array")
    return array_sum(interp.cx, x)


def np_size(interp, x):
    if not isinstance(x, Arr):
        return 1
    n = 1
    for d in x.shape:
        n = V.s_binop("*", n, d)
    return n


def _minmax(interp, op, a, b):
    if isinstance(a, Arr) or isinstance(b, Arr):
        return elementwise(interp.cx, op, a, b)
    return scalar_op(op, a, b)


def np_minimum(interp, a, b):
    return _minmax(interp, "min", a, b)


def np_maximum(interp, a, b):
    return _minmax(interp, "max", a, b)


def np_logical_not(interp, a):
    if isinstance(a, Arr):
        if a.kind != "bool":
            raise Unsupported("logical_not of a non-boolean array")
        return map1(a, V.s_not, "bool")
    return V.s_not(interp.truth(a))


def np_logical_and(interp, a, b):
    if isinstance(a, Arr) or isinstance(b, Arr):
        return elementwise(interp.cx, "and", a, b)
    return V.s_and(a, b)


def np_logical_or(interp, a, b):
    if isinstance(a, Arr) or isinstance(b, Arr):
        return elementwise(interp.cx, "or", a, b)
    return V.s_or(a, b)


def np_clip(interp, a, a_min=None, a_max=None, out=None):
    """np.clip(a, lo, hi) == maximum(minimum(a, hi), lo); the bounds may be arrays; out= stores in place"""
    r = a
    if a_max is not None:
        r = _minmax(interp, "min", r, a_max)
    if a_min is not None:
        r = _minmax(interp, "max", r, a_min)
    if out is not None:
        if not isinstance(out, Arr) or not isinstance(r, Arr):
            raise Unsupported("out= of a non-array")
        c = V.shape_eq(out.shape, r.shape)
        if c is not True:
            interp.cx.oblige("np.clip(out=): shapes agree", c, kind="shape")
        kind, fn = out.kind, r.fn
        interp.cx.set_arr(out, fn=lambda *idx: V.cast_kind(fn(*idx), kind))
        return out
    if isinstance(a, Arr) and isinstance(r, Arr) and r.kind != a.kind and a.kind == "real":
        r.kind = "real"
    return r


def np_dtype(interp, name):
    return DType(dtype_kind(name), "M8[s]" if str(name).startswith(("M8", "datetime64")) else str(name))


class Broadcast:
    pass


def np_broadcast(interp, *args):
    """np.broadcast of scalars and 1-D arrays: .ndim, .size (ValueError when lengths differ)."""
    from .interp import Obj

    cx = interp.cx
    length = None
    ndim = 0
    for x in args:
        if isinstance(x, Arr):
            if x.ndim > 1:
                return Obj(None, ndim=x.ndim, size=None)
            if x.ndim == 1:
                ndim = 1
                if length is None or dim_one(length):
                    length = x.shape[0]
                elif not dim_one(x.shape[0]):
                    c = V.s_cmp("==", x.shape[0], length)
                    if c is False or (c is not True and not cx.fork(c)):
                        raise PyRaise("ValueError", ("shape mismatch: objects cannot be broadcast to a single shape",))
        elif isinstance(x, (list, tuple)):
            raise Unsupported("np.broadcast of a list")
    return Obj(None, ndim=ndim, size=length if ndim == 1 else 1)


def dim_one(d):
    return isinstance(d, int) and d == 1


def np_broadcast_to(interp, v, shape=None):
    shape = _shape_arg(shape)
    if len(shape) != 1:
        raise Unsupported("broadcast_to a non 1-D shape")
    if isinstance(v, Arr):
        if v.ndim == 0:
            val = v.at()
            return Arr(shape, lambda i: val, v.kind)
        c = V.s_cmp("==", v.shape[0], shape[0])
        if c is True:
            return Arr(shape, v.fn, v.kind)
        if dim_one(v.shape[0]):
            fn = v.fn
            return Arr(shape, lambda i: fn(0), v.kind)
        if c is False or not interp.cx.fork(c):
            raise PyRaise("ValueError", ("cannot broadcast",))
        return Arr(shape, v.fn, v.kind)
    return Arr(shape, lambda i: v, V.kind_of(v) if V.kind_of(v) != "obj" else "real")


NP_FUNCS = {
    "numpy.broadcast": np_broadcast,
    "numpy.broadcast_to": np_broadcast_to,
    "numpy.zeros_like": np_zeros_like,
    "numpy.zeros": np_full_const({"real": Fraction(0), "int": 0, "bool": False}),
    "numpy.ones": np_full_const({"real": Fraction(1), "int": 1, "bool": True}),
    "numpy.empty": np_empty,
    "numpy.full": np_full,
    "numpy.arange": np_arange,
    "numpy.linspace": np_linspace,
    "operator.add": lambda interp, a, b: interp.binop("+", a, b),
    "operator.sub": lambda interp, a, b: interp.binop("-", a, b),
    "operator.mul": lambda interp, a, b: interp.binop("*", a, b),
    "numpy.asarray": np_asarray,
    "numpy.flatnonzero": np_flatnonzero,
    "numpy.array": np_array,
    "numpy.where": np_where,
    "numpy.add": np_add,
    "numpy.multiply": np_multiply,
    "numpy.around": np_around,
    "numpy.ndim": np_ndim,
    "numpy.any": np_any,
    "numpy.all": np_all,
    "numpy.diff": np_diff,
    "numpy.outer": np_outer,
    "numpy.searchsorted": np_searchsorted,
    "numpy.concatenate": np_concatenate,
    "numpy.timedelta64": np_timedelta64,
    "numpy.datetime64": np_datetime64,
    "numpy.isscalar": np_isscalar,
    "numpy.float32": np_float,
    "numpy.float64": np_float,
    "numpy.abs": np_abs,
    "numpy.sqrt": np_sqrt,
    "numpy.max": np_max,
    "numpy.sum": np_sum,
    "numpy.dtype": np_dtype,
    "numpy.clip": np_clip,
    "numpy.count_nonzero": np_count_nonzero,
    "numpy.size": np_size,
    "numpy.logical_not": np_logical_not,
    "numpy.logical_and": np_logical_and,
    "numpy.logical_or": np_logical_or,
    "numpy.minimum": np_minimum,
    "numpy.maximum": np_maximum,
    "numpy.sinh": transcendental("sinh"),
    "numpy.cosh": transcendental("cosh"),
    "numpy.tanh": transcendental("tanh"),
    "numpy.exp": transcendental("exp"),
    "numba.prange": None,  # filled below
}


def module_attr(interp, full):
    from .interp import Builtin, External, ModuleRef
    from .builtins_model import b_range

    if full == "numba.prange":
        return Builtin("prange", b_range)
    if full == "numpy.nan":
        return V.NAN
    if full == "pandas.__version__":
        return "3.0.5"  # only its major number is inspected (>= 2 selects ISO8601 date parsing)
    if full in ("numpy.int64", "numpy.float64", "numpy.ndarray"):
        return DType({"numpy.int64": "int", "numpy.float64": "real", "numpy.ndarray": "obj"}[full], full)
    if full in ("numpy.random", "importlib.util", "rich.logging", "rich.highlighter"):
        return ModuleRef(full)
    return External(full)


def call_external(interp, dotted, args, kwargs):
    f = NP_FUNCS.get(dotted)
    if dotted == "collections.namedtuple":
        from .interp import Builtin

        return Builtin("namedtuple", lambda interp, *a, **k: tuple(a))
    if f is None:
        raise Unsupported(f"external function {dotted} has no assumed contract")
    interp.cx.ghost.setdefault("externals_used", set()).add(dotted)
    try:
        return f(interp, *args, **kwargs)
    except (AttributeError, TypeError) as e:
        from .interp import ModelObject

        mo = [type(x).__name__ for x in list(args) + list(kwargs.values()) if isinstance(x, ModelObject)]
        if mo:
            # an external object without a model for this operation: undecided, not a checker crash
            raise Unsupported(f"{dotted} applied to {', '.join(mo)} (no assumed contract for that)") from e
        raise
