"""Discharging obligations: hand instantiation of universal facts, Ackermann
reduction for the nonlinear-real back end, solver routing, model extraction."""
from __future__ import annotations

import subprocess
import tempfile
import time
from dataclasses import dataclass, field
from fractions import Fraction

import sys

import z3

from . import values as V

sys.setrecursionlimit(20000)


@dataclass
class Verdict:
    status: str  # discharged | refuted | undecided
    backend: str = ""
    time_s: float = 0.0
    model: dict = field(default_factory=dict)
    reason: str = ""
    smt2: str = ""
    cross: str = ""  # result of the cross-check back end (thorough)


# ---------------------------------------------------------------- term utilities


def subterms(t, seen=None):
    if seen is None:
        seen = {}
    stack = [t]
    while stack:
        x = stack.pop()
        k = x.get_id()
        if k in seen:
            continue
        seen[k] = x
        if z3.is_app(x):
            stack.extend(x.children())
        elif z3.is_quantifier(x):
            stack.append(x.body())
    return seen


def is_uf_app(x) -> bool:
    return z3.is_app(x) and x.num_args() > 0 and x.decl().kind() == z3.Z3_OP_UNINTERPRETED


def index_terms(formulas):
    """Int-sorted arguments of uninterpreted applications (candidate instances)."""
    out = {}
    seen = {}
    for f in formulas:
        subterms(f, seen)
    for x in seen.values():
        if is_uf_app(x):
            for a in x.children():
                if z3.is_int(a):
                    out[a.get_id()] = a
    return list(out.values())


def is_nonlinear(formulas) -> bool:
    seen = {}
    for f in formulas:
        subterms(f, seen)
    for x in seen.values():
        if z3.is_app(x):
            k = x.decl().kind()
            if k == z3.Z3_OP_MUL:
                nonconst = [c for c in x.children() if not (z3.is_int_value(c) or z3.is_rational_value(c))]
                if len(nonconst) >= 2:
                    return True
            elif k in (z3.Z3_OP_DIV, z3.Z3_OP_IDIV, z3.Z3_OP_MOD):
                d = x.children()[1]
                if not (z3.is_int_value(d) or z3.is_rational_value(d)):
                    return True
            elif k == z3.Z3_OP_POWER:
                return True
    return False


ACK_STATE = dict(memo={}, appidx={}, apps={}, counter=[0], keep=[])


def reset_ack():
    """Per path: the rewriting memo (and the fresh constants) are shared by all obligations of a path."""
    ACK_STATE.update(memo={}, appidx={}, apps={}, counter=[0], keep=[])


def ackermannize(formulas):
    """Replace uninterpreted applications by fresh constants + congruence axioms."""
    st = ACK_STATE
    memo, appidx, apps, counter = st["memo"], st["appidx"], st["apps"], st["counter"]

    def rw(t):
        k = t.get_id()
        if k in memo:
            return memo[k]
        if z3.is_quantifier(t) or not z3.is_app(t):
            memo[k] = t
            return t
        ch = [rw(c) for c in t.children()]
        if is_uf_app(t):
            d = t.decl()
            dkey = d.name() + "/" + str(d.arity())
            akey = (dkey, tuple(c.get_id() for c in ch))
            if akey in appidx:
                memo[k] = appidx[akey]
                return appidx[akey]
            lst = apps.setdefault(dkey, [])
            counter[0] += 1
            c = z3.Const(f"ack!{d.name()}!{counter[0]}", t.sort())
            lst.append((ch, c))
            appidx[akey] = c
            memo[k] = c
            return c
        if ch:
            try:
                r = t.decl()(*ch)
            except Exception:
                r = t
        else:
            r = t
        memo[k] = r
        return r

    out = [rw(f) for f in formulas]
    st["keep"].extend(formulas)  # keep terms alive: ids must stay unique while the memo lives
    return out, {k: list(v) for k, v in apps.items()}


def congruence_violations(model, apps, limit=400):
    """Pairs of applications with equal argument values but different result values in the model."""
    out = []
    for lst in apps.values():
        if len(lst) < 2:
            continue
        groups = {}
        for args, c in lst:
            key = tuple(str(model.eval(a, model_completion=True)) for a in args)
            groups.setdefault(key, []).append((args, c))
        for members in groups.values():
            if len(members) < 2:
                continue
            a1, c1 = members[0]
            v1 = str(model.eval(c1, model_completion=True))
            for a2, c2 in members[1:]:
                if str(model.eval(c2, model_completion=True)) != v1:
                    out.append(z3.Implies(z3.And(*[x == y for x, y in zip(a1, a2)]), c1 == c2))
                    if len(out) >= limit:
                        return out
    return out


# ---------------------------------------------------------------- solving


def _solve(formulas, backend, timeout_ms):
    t0 = time.time()
    apps = None
    if backend == "z3-default":
        s = z3.Solver()
    elif backend == "z3-nlsat-ack":
        formulas, apps = ackermannize(formulas)
        s = z3.Then("simplify", "purify-arith", "elim-term-ite", "solve-eqs", "qfnra-nlsat").solver()
    elif backend == "z3-smt-ack":
        formulas, apps = ackermannize(formulas)
        s = z3.Solver()
    else:
        raise ValueError(backend)
    s.add(*formulas)
    reason = ""
    # lazy Ackermann reduction: congruence instances are added only where a model violates them
    for _it in range(60):
        left = timeout_ms - (time.time() - t0) * 1000
        if left <= 0:
            return "unknown", None, time.time() - t0, "timeout"
        s.set("timeout", int(max(100, left)))
        try:
            r = s.check()
        except z3.Z3Exception as e:
            return "unknown", None, time.time() - t0, str(e)
        if r == z3.unknown:
            try:
                reason = s.reason_unknown()
            except Exception:  # noqa: BLE001
                reason = "unknown"
            return "unknown", None, time.time() - t0, reason
        if r == z3.unsat:
            return "unsat", None, time.time() - t0, ""
        model = s.model()
        if apps is None:
            return "sat", model, time.time() - t0, ""
        viol = congruence_violations(model, apps)
        if not viol:
            return "sat", (model, apps), time.time() - t0, ""
        s.add(*viol)
    return "unknown", None, time.time() - t0, "congruence refinement did not converge"


def model_to_dict(model):
    out = {}
    if model is None:
        return out
    apps = None
    if isinstance(model, tuple):
        model, apps = model
    if apps:
        for key, lst in apps.items():
            fname = key.split("/")[0]
            ent = out.setdefault(fname, {"entries": [], "else": None})
            for args, c in lst:
                try:
                    av = [_val(model.eval(a, model_completion=True)) for a in args]
                    ent["entries"].append([av, _val(model.eval(c, model_completion=True))])
                except Exception:  # noqa: BLE001
                    pass
    for d in model.decls():
        name = d.name()
        if name.startswith("ack!"):
            continue
        if d.arity() == 0:
            out[name] = _val(model[d])
        else:
            fi = model[d]
            try:
                entries = []
                for i in range(fi.num_entries()):
                    e = fi.entry(i)
                    entries.append([[_val(e.arg_value(k)) for k in range(e.num_args())], _val(e.value())])
                out[name] = {"entries": entries, "else": _val(fi.else_value())}
            except Exception:
                out[name] = str(fi)
    return out


def _val(v):
    if v is None:
        return None
    if z3.is_int_value(v):
        return v.as_long()
    if z3.is_rational_value(v):
        f = Fraction(v.numerator_as_long(), v.denominator_as_long())
        return {"num": f.numerator, "den": f.denominator, "float": float(f)}
    if z3.is_true(v):
        return True
    if z3.is_false(v):
        return False
    if z3.is_algebraic_value(v):
        a = v.approx(20)
        f = Fraction(a.numerator_as_long(), a.denominator_as_long())
        return {"num": f.numerator, "den": f.denominator, "float": float(f), "algebraic": True}
    return str(v)


def build_query(ob, axioms, rounds=3):
    """hyps + axioms + universal facts instantiated at the logged applications of their trigger functions."""
    base = [h for h in ob.hyps] + list(axioms)
    goal = ob.goal
    insts = []
    seen_inst = set()
    saved_apps = {k: dict(v) for k, v in V.APPS.items()}
    try:
        return _build_query(ob, base, goal, insts, seen_inst, rounds)
    finally:
        V.APPS.clear()
        V.APPS.update(saved_apps)


def _build_query(ob, base, goal, insts, seen_inst, rounds):
    for _ in range(rounds):
        napps = sum(len(v) for v in V.APPS.values())
        generic = None
        new = []
        for u in ob.univ:
            more = []
            if u.decls:
                for d in u.decls:
                    tab = list(V.APPS.get(d.name(), {}).values())
                    if getattr(u, "pairs", False):
                        singles = [a[0] for a in tab if len(a) == 1]
                        for x in singles:
                            for y in singles:
                                if not x.eq(y):
                                    more.append((x, y))
                        continue
                    for args in tab:
                        if len(args) == u.arity:
                            more.append(args)
            if u.arity == 1 and u.generic:
                if generic is None:
                    generic = {}
                    for tab in V.APPS.values():
                        for args in list(tab.values()):
                            for a in args:
                                if z3.is_int(a):
                                    generic[a.get_id()] = (a,)
                more.extend(generic.values())
            for f in u.instances(more):
                k = f.get_id()
                if k not in seen_inst:
                    seen_inst.add(k)
                    new.append(f)
        insts.extend(new)
        if not new or sum(len(v) for v in V.APPS.values()) == napps:
            break
    return base + insts, goal


def discharge(ob, axioms, timeout_s=20.0, want_smt2=False) -> Verdict:
    t0 = time.time()
    g0 = z3.simplify(ob.goal)
    if z3.is_true(g0):
        return Verdict("discharged", "simplifier", time.time() - t0, smt2="(assert false) ; goal simplifies to true" if want_smt2 is True else "")
    # quick attempt: path condition only (no instantiation of universal facts): sound, often enough
    qs = z3.Solver()
    qs.set("timeout", 250)
    qs.add(*ob.hyps)
    qs.add(*axioms)
    qs.add(z3.Not(ob.goal))
    if qs.check() == z3.unsat:
        return Verdict("discharged", "z3-default", time.time() - t0, smt2=qs.to_smt2() if want_smt2 is True else "")
    hyps, goal = build_query(ob, axioms)
    hyps = hyps + [a for a in V.AXIOMS if all(not a.eq(h) for h in hyps[-0:])] if False else hyps
    formulas = hyps + list(V.AXIOMS) + [z3.Not(goal)]
    smt2 = ""
    if want_smt2 is True:
        s = z3.Solver()
        s.add(*formulas)
        smt2 = s.to_smt2()
    nl = is_nonlinear(formulas)
    order = ["z3-default", "z3-nlsat-ack", "z3-default", "z3-smt-ack"] if nl else ["z3-default", "z3-nlsat-ack"]
    budget = timeout_s * 1000
    shares = [0.08, 0.42, 0.35, 0.15] if nl else [0.7, 0.3]
    total = 0.0
    last_reason = ""
    for backend, share in zip(order, shares):
        r, model, dt, reason = _solve(formulas, backend, max(500, budget * share))
        total += dt
        if r == "unsat":
            return Verdict("discharged", backend, total, smt2=smt2)
        if r == "sat":
            if want_smt2 and not smt2:
                s2 = z3.Solver()
                s2.add(*formulas)
                smt2 = s2.to_smt2()
            return Verdict("refuted", backend, total, model=model_to_dict(model), smt2=smt2)
        last_reason = f"{backend}: {reason}"
    return Verdict("undecided", order[-1], total, reason=last_reason, smt2=smt2)


def check_sat(formulas, timeout_s=5.0):
    """Satisfiability of assumptions (vacuity guard). Returns 'sat' | 'unsat' | 'unknown'."""
    nl = is_nonlinear(formulas)
    order = ["z3-nlsat-ack", "z3-default"] if nl else ["z3-default", "z3-nlsat-ack"]
    for backend in order:
        r, _m, _dt, _ = _solve(list(formulas), backend, timeout_s * 500)
        if r in ("sat", "unsat"):
            return r
    return "unknown"


def cross_check(smt2: str, timeout_s=60) -> str:
    """Independent re-check of a discharged VC with /usr/bin/z3 4.8.12 (different version) ."""
    with tempfile.NamedTemporaryFile("w", suffix=".smt2", delete=False) as f:
        f.write(smt2)
        path = f.name
    try:
        p = subprocess.run(["/usr/bin/z3", f"-T:{int(timeout_s)}", path], capture_output=True, text=True, timeout=timeout_s + 10)
        out = p.stdout.strip().splitlines()
        return out[0] if out else "error"
    except Exception as e:  # noqa: BLE001
        return f"error: {e}"
    finally:
        import os

        os.unlink(path)
