"""Models of the Python builtins used by the analysed functions."""
from __future__ import annotations

from fractions import Fraction

import z3

from . import values as V
from .values import Arr, PyRaise, Unsupported


def b_len(interp, x):
    from .interp import ModelObject, Obj

    if isinstance(x, Arr):
        if x.ndim == 0:
            raise PyRaise("TypeError", ("len of 0-d",))
        return x.shape[0]
    if isinstance(x, (list, tuple, dict, set, str)):
        return len(x)
    if isinstance(x, Obj):
        m = interp.find_method(x, "__len__")
        if m is not None:
            return interp.call_value(m, [], {})
    if isinstance(x, ModelObject) and hasattr(x, "pv_len"):
        return x.pv_len(interp.cx)
    raise Unsupported(f"len of {type(x).__name__}")


def b_range(interp, *args):
    from .interp import SymRange

    if len(args) == 1:
        start, stop = 0, args[0]
    elif len(args) == 2:
        start, stop = args
    else:
        raise Unsupported("range with a step")
    if V.is_z3(start):
        start = _maybe_const(start)
    if V.is_z3(stop):
        stop = _maybe_const(stop)
    if isinstance(start, int) and isinstance(stop, int):
        return range(start, stop)
    return SymRange(start, stop)


def _maybe_const(t):
    s = z3.simplify(t)
    if z3.is_int_value(s):
        return s.as_long()
    return t


def b_int(interp, x=0):
    from .interp import ModelObject

    if isinstance(x, ModelObject) and hasattr(x, "pv_int"):
        return x.pv_int(interp.cx)
    if isinstance(x, str):
        if x.strip().lstrip("+-").isdigit():
            return int(x)
        raise Unsupported("int() of a string")
    if isinstance(x, Arr):
        if x.ndim == 0:
            return V.s_trunc(x.at())
        raise PyRaise("TypeError", ("int of array",))
    return V.s_trunc(x)


def b_float(interp, x=0):
    if isinstance(x, str):
        raise Unsupported("float() of a string")
    return V.to_real(x) if V.is_z3(x) else Fraction(x) if not isinstance(x, Fraction) else x


def b_bool(interp, x=False):
    return interp.truth(x)


def b_abs(interp, x):
    if isinstance(x, Arr):
        from .numpy_model import map1

        return map1(x, V.s_abs, x.kind)
    return V.s_abs(x)


def b_min(interp, *args):
    if len(args) == 1:
        args = interp.concrete_iter(args[0])
    r = args[0]
    for a in args[1:]:
        r = V.s_min(r, a)
    return r


def b_max(interp, *args):
    from .interp import ModelObject

    if len(args) == 1:
        if isinstance(args[0], ModelObject) and hasattr(args[0], "pv_max"):
            return args[0].pv_max(interp.cx)
        args = interp.concrete_iter(args[0])
    if not args:
        raise PyRaise("ValueError", ("max of empty",))
    r = args[0]
    for a in args[1:]:
        r = V.s_max(r, a)
    return r


def b_sum(interp, x):
    if isinstance(x, Arr):
        from .numpy_model import array_sum

        return array_sum(interp.cx, x)
    r = 0
    for e in interp.concrete_iter(x):
        r = V.s_binop("+", r, e)
    return r


_TYPE_KINDS = {
    "int": ("int",),
    "float": ("real",),
    "bool": ("bool",),
}


def b_isinstance(interp, x, t):
    from .interp import Builtin, External, ClassRef, Obj
    from .numpy_model import DType

    ts = t if isinstance(t, tuple) else (t,)
    from .interp import ModelObject as _MO

    if isinstance(x, _MO) and hasattr(x, "pv_isinstance"):
        def tname(tt):
            if isinstance(tt, Builtin):
                return tt.name
            if isinstance(tt, External):
                return tt.dotted
            return getattr(tt, "name", None)

        return any(tname(tt) is not None and x.pv_isinstance(tname(tt)) for tt in ts)
    for tt in ts:
        if isinstance(tt, Builtin):
            nm = tt.name
            if nm in ("int", "float", "bool"):
                k = V.kind_of(x)
                if isinstance(x, Arr):
                    continue
                if nm == "int" and k in ("int", "bool") and not getattr(x, "_is_time", False):
                    return True
                if nm == "float" and k == "real":
                    return True
                if nm == "bool" and k == "bool":
                    return True
            elif nm == "str":
                if isinstance(x, str):
                    return True
            elif nm in ("list", "tuple", "dict", "set"):
                if isinstance(x, {"list": list, "tuple": tuple, "dict": dict, "set": set}[nm]):
                    return True
        elif isinstance(tt, External):
            if tt.dotted in ("numpy.timedelta64", "datetime.timedelta", "numpy.datetime64", "datetime.datetime"):
                # instants/durations are integers in the model: an int-kind scalar may be one
                if not isinstance(x, Arr) and V.kind_of(x) == "int" and not isinstance(x, bool):
                    return True
            elif tt.dotted == "numpy.ndarray":
                if isinstance(x, Arr):
                    return True
        elif isinstance(tt, DType):
            if tt.name == "numpy.ndarray" and isinstance(x, Arr):
                return True
        elif isinstance(tt, ClassRef):
            if isinstance(x, Obj) and x.cls == tt.qual:
                return True
    return False


def b_hasattr(interp, obj, name):
    try:
        interp.get_attr(obj, name)
        return True
    except PyRaise as e:
        if e.cls == "AttributeError":
            return False
        raise


def b_callable(interp, x):
    from .interp import BoundMethod, Builtin, ClassRef, Closure, External, ModelObject, PyFunc

    if isinstance(x, ModelObject) and hasattr(x, "pv_call"):
        return True
    return isinstance(x, (BoundMethod, Builtin, ClassRef, Closure, External, PyFunc)) or callable(x) and getattr(x, "_pyvc_model", False)


def b_getattr(interp, obj, name, *default):
    try:
        return interp.get_attr(obj, name)
    except PyRaise as e:
        if e.cls == "AttributeError" and default:
            return default[0]
        raise


def b_setattr(interp, obj, name, value):
    interp.set_attr(obj, name, value)


def b_str(interp, x=""):
    if isinstance(x, str):
        return x
    if hasattr(x, "pv_str"):
        return x.pv_str(interp.cx)
    if isinstance(x, (bool, int)) or (isinstance(x, float) and x == x):
        return str(x)  # concrete number: Python's own spelling
    if interp.cx.ghost.get("structured_fstrings"):
        from . import values as V_
        from .strings import Num

        if V_.is_z3(x) and V_.kind_of(x) == "int":
            return Num(x)
    return "<str>"


def b_list(interp, x=()):
    return list(interp.concrete_iter(x))


def b_tuple(interp, x=()):
    return tuple(interp.concrete_iter(x))


def b_set(interp, x=()):
    return set(interp.concrete_iter(x))


def b_dict(interp, *args, **kw):
    if not args and not kw:
        from .interp import PvDict

        return PvDict()
    d = {}
    for a in args:
        if isinstance(a, dict):
            d.update(a)
        else:
            d.update(dict(interp.concrete_iter(a)))
    d.update(kw)
    return d


def b_sorted(interp, x, **kw):
    from .interp import ModelObject

    if isinstance(x, ModelObject) and hasattr(x, "pv_sorted"):
        return x.pv_sorted(interp.cx)
    xs = interp.concrete_iter(x)
    if any(V.is_z3(e) for e in xs):
        raise Unsupported("sorted() of symbolic elements")
    return sorted(xs, **kw)


def b_reversed(interp, x):
    return list(reversed(interp.concrete_iter(x)))


def b_enumerate(interp, x):
    return list(enumerate(interp.concrete_iter(x)))


def b_zip(interp, *xs, strict=False):
    return list(zip(*[interp.concrete_iter(x) for x in xs]))


def b_any(interp, x):
    r = False
    for e in interp.concrete_iter(x):
        r = V.s_or(r, interp.truth(e))
    return r


def b_all(interp, x):
    r = True
    for e in interp.concrete_iter(x):
        r = V.s_and(r, interp.truth(e))
    return r


def b_next(interp, it):
    from .interp import ModelObject, Obj

    if isinstance(it, Obj):
        m = interp.find_method(it, "__next__")
        if m is not None:
            return interp.call_value(m, [], {})
    if isinstance(it, ModelObject) and hasattr(it, "pv_next"):
        return it.pv_next(interp.cx)
    raise Unsupported("next()")


def b_divmod(interp, a, b):
    return V.s_floordiv(a, b), V.s_mod(a, b)


def b_print(interp, *a, **k):
    return None


def b_round(interp, x, nd=None):
    return V.s_round(x)


def b_slice(interp, *args):
    if len(args) == 1:
        return slice(None, args[0])
    if len(args) == 2:
        return slice(args[0], args[1])
    raise Unsupported("slice with a step")


def b_type(interp, x):
    raise Unsupported("type()")


BUILTINS = dict(
    reversed=b_reversed,
    len=b_len,
    range=b_range,
    int=b_int,
    float=b_float,
    bool=b_bool,
    abs=b_abs,
    min=b_min,
    max=b_max,
    sum=b_sum,
    isinstance=b_isinstance,
    hasattr=b_hasattr,
    callable=b_callable,
    getattr=b_getattr,
    setattr=b_setattr,
    str=b_str,
    list=b_list,
    tuple=b_tuple,
    set=b_set,
    dict=b_dict,
    sorted=b_sorted,
    enumerate=b_enumerate,
    zip=b_zip,
    any=b_any,
    all=b_all,
    next=b_next,
    divmod=b_divmod,
    print=b_print,
    round=b_round,
    slice=b_slice,
)
# exception classes referenced by name in ``except`` clauses
for _e in ("ValueError", "TypeError", "KeyError", "AttributeError", "OSError", "FileNotFoundError", "SystemExit", "StopIteration", "RuntimeError", "ModuleNotFoundError"):
    BUILTINS[_e] = (lambda name: (lambda interp, *a, **k: PyRaise(name, a)))(_e)
