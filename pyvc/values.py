"""Symbolic value model: scalars are z3 terms (or Python constants), arrays are
(shape, index -> term) closures living on a heap of Python objects."""
from __future__ import annotations

import itertools
from fractions import Fraction

import z3

# ---------------------------------------------------------------- errors


class Unsupported(Exception):
    """Construct outside the modelled subset: the function is UNDECIDED."""


class PathInfeasible(Exception):
    pass


class PyRaise(Exception):
    """The analysed code raised an exception."""

    def __init__(self, cls: str, args=()):
        super().__init__(cls)
        self.cls = cls
        self.pargs = args


# ---------------------------------------------------------------- scalars

NAN = z3.Real("__nan__")  # np.nan as an opaque real (never compared meaningfully)


def is_z3(x) -> bool:
    return isinstance(x, z3.ExprRef)


def is_sym(x) -> bool:
    return isinstance(x, (z3.ExprRef, Arr))


def real_of_float(x: float):
    return z3.RealVal(str(Fraction(repr(x)))) if x == x else NAN


def to_z3(x):
    if isinstance(x, z3.ExprRef):
        return x
    if isinstance(x, bool):
        return z3.BoolVal(x)
    if isinstance(x, int):
        return z3.IntVal(x)
    if isinstance(x, float):
        return real_of_float(x)
    if isinstance(x, Fraction):
        return z3.RealVal(str(x))
    raise Unsupported(f"cannot convert {type(x).__name__} to a term")


def kind_of(x) -> str:
    if isinstance(x, Arr):
        return x.kind
    if isinstance(x, bool):
        return "bool"
    if isinstance(x, int):
        return "int"
    if isinstance(x, (float, Fraction)):
        return "real"
    if isinstance(x, z3.ExprRef):
        if z3.is_bool(x):
            return "bool"
        if z3.is_int(x):
            return "int"
        if z3.is_real(x):
            return "real"
    return "obj"


def as_num(x):
    """bool -> int as Python/numpy do in arithmetic."""
    if isinstance(x, bool):
        return int(x)
    if isinstance(x, z3.ExprRef) and z3.is_bool(x):
        return z3.If(x, z3.IntVal(1), z3.IntVal(0))
    return x


def to_real(x):
    x = as_num(x)
    if isinstance(x, z3.ExprRef):
        return z3.ToReal(x) if z3.is_int(x) else x
    if isinstance(x, int):
        return z3.RealVal(x)
    return to_z3(x)


def sbool(x):
    """Truth value of a scalar as z3 Bool or Python bool."""
    if isinstance(x, bool):
        return x
    if x is None:
        return False
    if isinstance(x, (int, float, Fraction)):
        return x != 0
    if isinstance(x, (str, list, tuple, dict, set)):
        return len(x) > 0
    if isinstance(x, z3.ExprRef):
        if z3.is_bool(x):
            return x
        return x != 0
    return True


def _both_concrete(a, b):
    return not isinstance(a, z3.ExprRef) and not isinstance(b, z3.ExprRef)


def _coerce(a, b):
    a, b = as_num(a), as_num(b)
    if isinstance(a, z3.ExprRef) or isinstance(b, z3.ExprRef):
        a, b = to_z3(a), to_z3(b)
        if z3.is_real(a) and z3.is_int(b):
            b = z3.ToReal(b)
        elif z3.is_int(a) and z3.is_real(b):
            a = z3.ToReal(a)
    return a, b


def floor_div_int(a, b):
    """Python/numpy floor division on mathematical integers (b != 0)."""
    return z3.If(b > 0, a / b, (-a) / (-b))


def s_floordiv(a, b):
    a, b = _coerce(a, b)
    if _both_concrete(a, b):
        return a // b
    if z3.is_int(a) and z3.is_int(b):
        if z3.is_int_value(b):
            bv = b.as_long()
            return a / b if bv > 0 else (-a) / (-b)
        return floor_div_int(a, b)
    return z3.ToReal(z3.ToInt(to_real(a) / to_real(b)))


def s_mod(a, b):
    a, b = _coerce(a, b)
    if _both_concrete(a, b):
        return a % b
    if z3.is_int(a) and z3.is_int(b):
        return a - b * s_floordiv(a, b)
    raise Unsupported("real modulo")


def s_truediv(a, b):
    a, b = as_num(a), as_num(b)
    if _both_concrete(a, b):
        if isinstance(a, int) and isinstance(b, int):
            return Fraction(a, b) if b != 0 else a / b
        return Fraction(repr(a)) / Fraction(repr(b)) if isinstance(a, float) or isinstance(b, float) else a / b
    return to_real(a) / to_real(b)


def _conc(x):
    return Fraction(repr(x)) if isinstance(x, float) else x


def s_binop(op: str, a, b):
    if op == "/":
        return s_truediv(a, b)
    if op == "//":
        return s_floordiv(a, b)
    if op == "%":
        return s_mod(a, b)
    if op == "**" and isinstance(b, int) and not isinstance(b, bool) and 0 <= b <= 4 and isinstance(a, z3.ExprRef):
        r = z3.RealVal(1) if z3.is_real(a) else z3.IntVal(1)
        for _ in range(b):
            r = r * a
        return r
    a, b = _coerce(a, b)
    if _both_concrete(a, b):
        a, b = _conc(a), _conc(b)
        if op == "+":
            return a + b
        if op == "-":
            return a - b
        if op == "*":
            return a * b
        if op == "**":
            return a**b
    if op == "+":
        return a + b
    if op == "-":
        return a - b
    if op == "*":
        return a * b
    if op == "**":
        if isinstance(b, z3.ExprRef) and z3.is_rational_value(b) and b.numerator_as_long() == 1 and b.denominator_as_long() == 2:
            return s_sqrt(a)
        if isinstance(b, z3.ExprRef) and z3.is_int_value(b) and 0 <= b.as_long() <= 4:
            r = z3.RealVal(1) if z3.is_real(a) else z3.IntVal(1)
            for _ in range(b.as_long()):
                r = r * a
            return r
        if isinstance(b, Fraction) and b == Fraction(1, 2):
            return s_sqrt(a)
        raise Unsupported(f"power with exponent {b}")
    raise Unsupported(f"binary operator {op}")


_sqrt_f = z3.Function("sqrt_", z3.RealSort(), z3.RealSort())
class _Axioms(list):
    """Theory facts about uninterpreted helpers (round_, sqrt_): valid in every model. Deduplicated."""

    def __init__(self):
        super().__init__()
        self._ids = set()

    def append(self, f):
        k = f.get_id()
        if k not in self._ids:
            self._ids.add(k)
            super().append(f)

    def clear(self):
        super().clear()
        self._ids.clear()


AXIOMS = _Axioms()


def s_sqrt(a):
    if not isinstance(a, z3.ExprRef):
        return Fraction(repr(float(a) ** 0.5))
    a = to_real(a)
    r = _sqrt_f(a)
    AXIOMS.append(z3.Implies(a >= 0, z3.And(r >= 0, r * r == a)))
    return r


_round_f = z3.Function("round_", z3.RealSort(), z3.IntSort())


def s_round(a):
    """np.around / ndarray.round: an integer within 1/2 (either tie direction)."""
    a = as_num(a)
    if not isinstance(a, z3.ExprRef):
        return round(a)
    if z3.is_int(a):
        return a
    r = _round_f(a)
    AXIOMS.append(z3.And(a - z3.ToReal(r) <= z3.RealVal("1/2"), z3.ToReal(r) - a <= z3.RealVal("1/2")))
    return r


def s_trunc(a):
    """int(x) / astype(int): truncation toward zero."""
    a = as_num(a)
    if not isinstance(a, z3.ExprRef):
        return int(a)
    if z3.is_int(a):
        return a
    return z3.If(a >= 0, z3.ToInt(a), -z3.ToInt(-a))


def s_cmp(op: str, a, b):
    if isinstance(a, str) or isinstance(b, str) or a is None or b is None:
        if op == "==":
            return a == b
        if op == "!=":
            return a != b
        raise Unsupported("ordering on str/None")
    if isinstance(a, z3.ExprRef) and z3.is_bool(a) and isinstance(b, (bool, z3.BoolRef)):
        b = to_z3(b)
        return a == b if op == "==" else a != b if op == "!=" else _cmp_num(op, as_num(a), as_num(b))
    return _cmp_num(op, a, b)


def _cmp_num(op, a, b):
    a, b = _coerce(a, b)
    if _both_concrete(a, b):
        a, b = _conc(a), _conc(b)
    try:
        return {
            "<": lambda: a < b,
            "<=": lambda: a <= b,
            ">": lambda: a > b,
            ">=": lambda: a >= b,
            "==": lambda: a == b,
            "!=": lambda: a != b,
        }[op]()
    except TypeError:
        # an object without a model for this comparison (e.g. a pandas column): undecided, not a checker crash
        raise Unsupported(f"comparison {op} between {type(a).__name__} and {type(b).__name__}") from None


def s_not(a):
    a = sbool(a)
    return (not a) if isinstance(a, bool) else z3.Not(a)


def s_and(a, b):
    a, b = sbool(a), sbool(b)
    if isinstance(a, bool):
        return b if a else False
    if isinstance(b, bool):
        return a if b else False
    return z3.And(a, b)


def s_or(a, b):
    a, b = sbool(a), sbool(b)
    if isinstance(a, bool):
        return True if a else b
    if isinstance(b, bool):
        return True if b else a
    return z3.Or(a, b)


def s_ite(c, a, b):
    c = sbool(c)
    if isinstance(c, bool):
        return a if c else b
    if isinstance(a, bool) or isinstance(b, bool) or (is_z3(a) and z3.is_bool(a)):
        return z3.If(c, to_z3(a), to_z3(b))
    a, b = _coerce(a, b)
    return z3.If(c, to_z3(a), to_z3(b))


def s_min(a, b):
    a, b = _coerce(a, b)
    if _both_concrete(a, b):
        return min(a, b)
    # Python's min(a, b) returns b only if b < a
    return z3.If(b < a, b, a)


def s_max(a, b):
    a, b = _coerce(a, b)
    if _both_concrete(a, b):
        return max(a, b)
    return z3.If(b > a, b, a)


def s_abs(a):
    a = as_num(a)
    if not isinstance(a, z3.ExprRef):
        return abs(a)
    return z3.If(a >= 0, a, -a)


def s_neg(a):
    a = as_num(a)
    return -a


def cast_kind(x, kind: str):
    if not isinstance(x, z3.ExprRef) and not isinstance(x, Arr):
        # concrete value (encoder validation / constant folding): stay concrete
        if kind == "real" and isinstance(x, (bool, int, float, Fraction)):
            return Fraction(repr(x)) if isinstance(x, float) else Fraction(int(x) if isinstance(x, bool) else x)
        if kind == "int" and isinstance(x, (bool, int, float, Fraction)):
            return int(x)
        if kind == "bool" and isinstance(x, (bool, int, float, Fraction)):
            return bool(x)
    if kind == "real":
        return to_real(x)
    if kind == "int":
        k = kind_of(x)
        if k == "real":
            return s_trunc(x)
        return as_num(x)
    if kind == "bool":
        return sbool(x)
    return x


# ---------------------------------------------------------------- arrays


def _key(x):
    if isinstance(x, z3.ExprRef):
        return ("z", x.get_id())
    if isinstance(x, tuple):
        return tuple(_key(e) for e in x)
    return ("c", x)


def memo(f):
    """Memoise an index -> term closure (closures are pure; avoids exponential re-evaluation)."""
    cache = {}
    keep = []

    def g(*idx):
        k = tuple(_key(i) for i in idx)
        if k in cache:
            return cache[k]
        r = f(*idx)
        cache[k] = r
        keep.append(idx)  # keep the z3 terms alive so that ids stay unique
        return r

    g._memo = True
    return g


_uid = itertools.count()


class Arr:
    """A numpy array object on the symbolic heap.

    ``shape``: tuple of Python ints / z3 Int terms; ``fn(*idx)``: element term.
    In-place operations replace ``fn`` (object identity is preserved, so
    aliasing behaves as in Python).
    """

    def __init__(self, shape, fn, kind, name=None):
        self.shape = tuple(shape)
        self.fn = fn
        self.kind = kind
        self.name = name or f"arr{next(_uid)}"
        self.reads: list = []  # index tuples this object was read at (for instantiation)
        self.owner = None  # ghost: alignment tag (C14)

    @property
    def fn(self):
        return self._fn

    @fn.setter
    def fn(self, f):
        self._fn = f if getattr(f, "_memo", False) else memo(f)

    @property
    def ndim(self):
        return len(self.shape)

    def at(self, *idx):
        if len(idx) != len(self.shape):
            raise Unsupported(f"read of {self.name} with {len(idx)} indices, ndim {len(self.shape)}")
        self.reads.append(idx)
        return self.fn(*idx)

    def snapshot(self) -> "Arr":
        """A new object with the present contents (``.copy()``)."""
        fn = self.fn
        a = Arr(self.shape, fn, self.kind)
        a.owner = self.owner
        return a

    def __repr__(self):
        return f"<Arr {self.name} {self.kind} shape={self.shape}>"


class Filtered(Arr):
    """``A[mask]`` for a 1-D boolean mask: the compressed array.

    ``src_fn(i)`` is the value in *source* coordinates; ``fn(k) = src_fn(g(k))``
    with the ghost increasing enumeration ``g`` of the true positions."""

    def __init__(self, mask: Arr, src_fn, kind, count, g):
        self.mask = mask
        self.src_fn = src_fn
        self.g = g
        super().__init__((count,), lambda k: src_fn(g(k)), kind)


APPS: dict = {}  # decl name -> {key: argument tuple}: every application built on this path (instantiation triggers)


def app(decl, *args):
    """Apply an uninterpreted function and log the argument tuple."""
    zargs = tuple(to_z3(a) for a in args)
    APPS.setdefault(decl.name(), {})[tuple(a.get_id() for a in zargs)] = zargs
    return decl(*zargs)


def sym_array(name: str, shape, kind: str) -> Arr:
    sort = {"real": z3.RealSort(), "int": z3.IntSort(), "bool": z3.BoolSort()}[kind]
    f = z3.Function(name, *([z3.IntSort()] * len(shape)), sort)
    a = Arr(shape, lambda *idx: app(f, *idx), kind, name=name)
    a.decl = f
    return a


def const_array(shape, value, kind) -> Arr:
    return Arr(shape, lambda *idx: value, kind)


def shape_eq(s1, s2):
    if len(s1) != len(s2):
        return False
    conds = []
    for a, b in zip(s1, s2):
        c = s_cmp("==", a, b)
        if c is False:
            return False
        if c is not True:
            conds.append(c)
    return z3.And(*conds) if conds else True


def dim_is_one(d) -> bool:
    return isinstance(d, int) and d == 1


def broadcast_shapes(s1, s2):
    """numpy broadcasting; symbolic dims are assumed equal unless one is literally 1."""
    n = max(len(s1), len(s2))
    p1 = (1,) * (n - len(s1)) + tuple(s1)
    p2 = (1,) * (n - len(s2)) + tuple(s2)
    out = []
    conds = []
    for a, b in zip(p1, p2):
        if dim_is_one(a):
            out.append(b)
        elif dim_is_one(b):
            out.append(a)
        else:
            c = s_cmp("==", a, b)
            if c is False:
                raise PyRaise("ValueError", ("shape mismatch",))
            if c is not True:
                conds.append(c)
            out.append(a)
    return tuple(out), conds


def bcast_index(shape, out_ndim, idx):
    """Index into an operand of ``shape`` given an index of the broadcast result."""
    off = out_ndim - len(shape)
    res = []
    for ax, d in enumerate(shape):
        res.append(0 if dim_is_one(d) else idx[off + ax])
    return res


def result_kind(op, ka, kb):
    if op in ("<", "<=", ">", ">=", "==", "!=", "and", "or"):
        return "bool"
    if op == "/":
        return "real"
    if "real" in (ka, kb):
        return "real"
    if op in ("&", "|") and ka == "bool" and kb == "bool":
        return "bool"
    return "int"
