"""Turning a solver counter-model into concrete inputs for a native replay."""
from __future__ import annotations


def num(v, default=0.0):
    if v is None:
        return default
    if isinstance(v, dict) and "float" in v:
        return v["float"]
    if isinstance(v, (int, float, bool)):
        return v
    return default


def scalar(model, name, default=0.0):
    for k, v in model.items():
        if k == name:
            return num(v, default)
    return default


def array1(model, name, n, default=0.0):
    ent = model.get(name)
    out = [default] * n
    if isinstance(ent, dict):
        els = num(ent.get("else"), default)
        out = [els] * n
        for args, val in ent.get("entries", []):
            i = num(args[0])
            if isinstance(i, int) and 0 <= i < n:
                out[i] = num(val, default)
    return out


def table(model, name):
    """[(args..., value)] of an uninterpreted function."""
    ent = model.get(name)
    rows = []
    if isinstance(ent, dict):
        for args, val in ent.get("entries", []):
            rows.append([[num(a) for a in args], num(val)])
    return rows


def find_index(model, prefix="p!"):
    for k, v in model.items():
        if k.startswith(prefix) and isinstance(v, int):
            return v
    return 0
